"""C07 -- requests above max_request_body_size are never processed, on any path."""
import json, os
import vlib
from props import limits_common as L

TRANSLATORS = ["limits_wiring", "error_consts"]     # error_consts: the bytes of the rejection (reject_too_big_request_shape)
MODELS = ["reqlimit"]
BINS = {"release": ["srvlimits"]}
RULE = ("cases = one WS connection (a sequence of single-frame messages) or one HTTP POST (explicit body frames, with / "
        "without Content-Length) against a real server assembled through one of the entry points {Server, TowerService, "
        "ws::connect, http::call_with_service_builder, http::call_with_service}, for a grid of unequal "
        "(max_request, max_response) pairs and message sizes limit-1 / limit / limit+1 / 4*limit / around max_response, plus "
        "bodies / messages with 1..127 leading whitespace bytes whose total straddles the limit (no Content-Length, every "
        "frame boundary incl. whitespace-only first frames); "
        "the implementation's accept/reject decisions and rejection bytes are diffed against the extracted model "
        "(Model/ReqLimit.v over the regenerated wiring).  Family ws-pipeline-backpressure: per WS entry point and "
        "(max_request, message_buffer_capacity) pair, one connection whose client does not read while it writes 12+ calls "
        "with 1 MiB responses (more than the socket buffers hold, so the server's writer blocks and the bounded outgoing "
        "queue is full), an oversized message (limit+1 / far beyond / two of them / first = control) at several positions, "
        "ordinary calls and a final barrier call; then everything is read: one -32007 per oversized message, every in-limit "
        "call answered once, compared as a multiset with the model's run of the bounded-queue connection (conn_step).  "
        "Family ws-fragmented (RFC 6455 continuation frames, raw WebSocket client): per WS entry point and limit, messages of "
        "limit-1 / limit / limit+1 / far beyond cut into 2..4 fragments (even cuts, first fragment below the limit with a later "
        "one crossing it, every fragment below but the total above, an oversized first fragment, 1-byte first / last fragment, "
        "empty fragments, random cuts, a Ping between fragments), sent by a client that stays in step with soketto's discard "
        "(it supplies the bytes soketto discards in excess of the offending frame, or stops after the fragment that crossed "
        "the limit), each followed by an ordinary call, a message that is valid JSON only when appended to the fragments of "
        "the rejected message that had already been buffered, and a fragmented in-limit message; every reply frame, the "
        "handler log and the liveness of the connection are compared with the frame-level reader ws_read of the model and "
        "judged directly (rejected iff total > limit, nothing dispatched but the in-limit calls, same replies as the same "
        "bytes in single frames, connection alive); plus the scripts of a client that does NOT stay in step (no filler, a "
        "continuation after the crossing fragment, an unsolicited Pong between fragments): diffed against the model (which "
        "predicts the withheld rejection, the over-discard, the desynchronisation and the close) and judged by the safety "
        "oracle only (nothing dispatched but the in-limit calls); what they show is counted in the input distribution "
        "(frag:naive-*, frag:pong-between-fragments-*).  "
        "distinct non-trivial = distinct canonical result lines that contain at least one rejection")
TRUSTED = [
    "translator tools/translators/limits_wiring.py (regex + brace matching over server.rs, transport/ws.rs, transport/http.rs, "
    "middleware/rpc.rs, core http_helpers.rs): cross-checked on every run by the end-to-end engine with unequal limits on every entry point",
    "modelled, not verified: soketto's size check (`length > max_message_size`, discard, receiver stays usable), "
    "http_body_util::Limited, hyper; tied by the differential run only",
    "modelled, not verified: soketto 0.8.1 Receiver::receive over fragments (accumulation into the caller's Vec before the "
    "check, discard of the accumulated length, Pong returns from inside the fragment loop): Model/ReqLimit.v ws_step, tied by "
    "the family ws-fragmented; the translator's reading of the unfold closure (ws_recv_buffer_fresh)",
]
ASSUMPTIONS = [
    "the rejection / keeps-serving clauses are claimed for single-frame WebSocket messages (the property's quantifier); for "
    "fragmented messages (RFC 6455 5.4) the safety half -- nothing longer than the limit and no byte of a rejected message is "
    "ever dispatched -- is claimed for every frame stream (theorem C07_frag_no_carry_over, oracle oversize-request-processed), "
    "the full outcome (same as the same bytes in one frame, exactly one -32007, connection alive) for a client that stays in "
    "step with soketto's discard (predicate in_step of Model/ReqLimit.v, theorem C07_frag_total_decides)",
    "observed on the unchanged tree, outside the single-frame quantifier (upstream soketto 0.8.1; the engine's naive scripts "
    "replay them on every run and the model predicts them exactly, theorem C07_frag_out_of_step_observed): (1) when fragment "
    "j > 1 takes the accumulated length above the limit, `discard_bytes(length)` discards the ACCUMULATED length, i.e. "
    "acc = |f_1|+..+|f_(j-1)| bytes more than the unread payload of frame j: the -32007 is withheld until acc further bytes "
    "have arrived, those bytes (rest of the message, the client's next messages) are swallowed, and unless exactly acc bytes "
    "lie before the next frame header the stream is left inside a frame (garbage header, Close 1000, EOF); (2) when a "
    "non-final fragment crosses the limit (also an oversized first fragment) the next continuation frame after the -32007 "
    "is UnexpectedOpCode(Continue) and ws.rs closes the connection -- unless that fragment is itself above the limit: then "
    "one more -32007 per such fragment; (3) an unsolicited Pong between two fragments loses the partial message (soketto "
    "returns Incoming::Pong from inside the fragment loop, dropping first_fragment_opcode / length; fresh Vec per receive() "
    "call drops the fragments read so far): the next continuation frame closes the connection and the in-limit message is "
    "never processed (a Ping between fragments is answered inside the loop and is harmless)",
    "fragmented WebSocket messages: frames are masked with the minimal length encoding, control frames are Ping / Pong with "
    "<= 125 bytes; no Close frames, no reserved bits, no extensions; what the server parses the bytes as once the frame "
    "stream has lost step (model event FDesync) is outside the model",
    "HTTP bodies are JSON POSTs whose first frame is non-empty and starts the JSON text (method / content-type gate and "
    "first-frame sniffing are C19's); Content-Length is absent or truthful, except on the socket-free entry points where "
    "lying values are exercised too (theorem C07_decision_any_content_length)",
    "max_request_body_size fits u32 (it is a u32 in ServerConfig)",
]


def grid(ctx):
    rng = ctx.rng
    pairs = []
    for rq in ctx.scale([1, 30, 64, 100, 257, 1000, 4096, 65536], [1, 2, 10, 30, 41, 64, 100, 127, 128, 129, 257, 1000, 4096, 16384, 65536, 300000]):
        for rs in ctx.scale({max(1, rq // 2), rq * 2 + 1, rq, 10 * 1024 * 1024, 80},
                            {max(1, rq // 2), rq * 2 + 1, rq, rq + 1, max(1, rq - 1), 10 * 1024 * 1024, 80}):
            pairs.append((rq, rs))
    for _ in range(ctx.scale(4, 100)):
        rq = rng.choice([rng.randint(1, 300), rng.randint(60, 5000), rng.randint(60, 200000)])
        rs = rng.choice([rng.randint(1, 300), rng.randint(60, 5000), rng.randint(60, 200000), rq + rng.randint(-3, 3)])
        pairs.append((rq, max(1, rs)))
    return sorted(set(pairs))


def sizes_for(ctx, rq, rs):
    s = [rq - 1, rq, rq + 1, 4 * rq]
    if rs != rq:
        s += [rs, rs + 1]          # sizes that only differ in their relation to max_response
    if ctx.thorough or ctx.search_mode:
        s += [rq - 2, rq + 2, 2 * rq, ctx.rng.randint(1, 4 * rq + 8)]
    s = [x for x in s if 1 <= x <= 1_500_000]
    out = []
    for x in s:
        if x not in out:
            out.append(x)
    return out


def split_frames(rng, data_segs, total, how):
    """cut the message into body frames (kept in the compact segs form, never expanded)"""
    if isinstance(how, list):
        cuts = sorted(set(c for c in how if 0 < c < total))
    elif how == "one" or total < 2:
        cuts = []
    elif how == "two":
        cuts = [total // 2]
    elif how == "first1":
        cuts = [1]
    elif how == "many":
        cuts = sorted(set(rng.randint(1, total - 1) for _ in range(6)))
    else:  # "last1"
        cuts = [total - 1]
    return L.segs_split(data_segs, cuts)


def gen_cases(ctx, eps_ws=L.EPS_WS, eps_http=L.EPS_HTTP, pairs=None):
    rng = ctx.rng
    cases = []
    next_id = [0]

    def nid():
        next_id[0] += 1
        return 1000000 + next_id[0]      # fixed width: the parameter length identifies the message size

    # single frames FAR beyond the limit (above every plausible internal frame cap: 16 MiB + 1, 24 MiB): still one -32007 and
    # the connection keeps serving (only with the default entry-point set, i.e. not when a caller narrows eps/pairs)
    if pairs is None:
        for ep in eps_ws:
            for rq, sz in ((100, 16 * 1024 * 1024 + 1), (4096, 24 * 1024 * 1024)) if (ctx.thorough or ctx.search_mode) else ((100, 16 * 1024 * 1024 + 1),):
                msgs, meta = [], []
                m0, k0, p0 = L.small_call(nid())
                msgs.append(m0); meta.append({"size": L.segs_len(m0), "kind": k0, "plen": p0})
                m, kind, plen = L.sized_message(nid(), sz)
                msgs.append(m); meta.append({"size": sz, "kind": kind, "plen": plen})
                m2, k2, p2 = L.small_call(nid())
                msgs.append(m2); meta.append({"size": L.segs_len(m2), "kind": k2, "plen": p2})
                cases.append({"ep": ep, "t": "ws", "rq": rq, "rs": 65536, "msgs": msgs, "_meta": meta})

    for rq, rs in (pairs or grid(ctx)):
        sizes = sizes_for(ctx, rq, rs)
        # ---- WS: one connection, every size followed later by a small call
        for ep in eps_ws:
            msgs, meta = [], []
            order = list(sizes)
            if rng.random() < 0.5:
                rng.shuffle(order)
            for sz in order:
                m, kind, plen = L.sized_message(nid(), sz)
                msgs.append(m)
                meta.append({"size": sz, "kind": kind, "plen": plen})
                if rng.random() < 0.4:
                    m2, k2, p2 = L.small_call(nid())
                    msgs.append(m2)
                    meta.append({"size": L.segs_len(m2), "kind": k2, "plen": p2})
            m2, k2, p2 = L.small_call(nid())
            msgs.append(m2)
            meta.append({"size": L.segs_len(m2), "kind": k2, "plen": p2})
            cases.append({"ep": ep, "t": "ws", "rq": rq, "rs": rs, "msgs": msgs, "_meta": meta})
        # ---- HTTP
        for ep in eps_http:
            tcp = ep not in L.HTTP_SOCKET_FREE
            for sz in sizes:
                if tcp and sz > 400_000:
                    continue
                m, kind, plen = L.sized_message(nid(), sz)
                if ctx.thorough or ctx.search_mode:
                    hows = ["one", "two", "first1", "many", "last1"]
                else:
                    hows = ["one", "many"] if tcp else ["one", "two", "many", "last1"]
                for how in hows:
                    if sz > 300_000 and how != "one":
                        continue
                    frames = split_frames(rng, m, sz, how)
                    cls = [None, sz]
                    if not tcp and how in ("one", "many"):
                        cls += [max(0, sz - 1 - rng.randint(0, sz)), sz + 1 + rng.randint(0, 3 * rq + 5), 2 ** 32 + sz]   # lying values
                    for cl in cls:
                        cases.append({"ep": ep, "t": "http", "rq": rq, "rs": rs, "frames": frames, "cl": cl,
                                      "_meta": [{"size": sz, "kind": kind, "plen": plen}]})
        # ---- HTTP bodies with leading whitespace (1..127 bytes, inside the sniff window): the limit counts every byte
        #      of the body, also when no Content-Length announces it and whatever the frame boundaries are
        if 4 <= rq <= 70000:
            big = ctx.thorough or ctx.search_mode
            leads = [1, 127, rng.randint(2, 126), rng.choice([2, 17, 64, 126])] if big else [1, 127, rng.randint(2, 126)]
            for ep in eps_http:
                tcp = ep not in L.HTTP_SOCKET_FREE
                for lead in leads:
                    totals = []
                    for t in (rq - 1, rq, rq + 1, rq + lead - 1, rq + lead, rq + lead + 1, rq + (lead + 1) // 2):
                        if t >= lead + 2 and t not in totals and t <= 400_000:
                            totals.append(t)
                    for total in totals:
                        m, kind, plen = L.sized_message(nid(), total, lead, rng.choice([b" ", b"\n", b"\t", b"\r"]))
                        if tcp:
                            hows = [("one", "one")]
                        elif total > 100_000:
                            hows = [("one", "one"), ("wsfirst", [lead])]
                        else:
                            hows = [("one", "one"), ("wsfirst", [lead]), ("wssplit", [max(1, lead // 2), lead]), ("many", "many")]
                            if big:
                                hows.append(("after", [lead + 1]))
                        for _name, how in hows:
                            frames = split_frames(rng, m, total, how)
                            for cl in ([None] if tcp else [None, total]):
                                cases.append({"ep": ep, "t": "http", "rq": rq, "rs": rs, "frames": frames, "cl": cl,
                                              "_meta": [{"size": total, "kind": kind, "plen": plen, "lead": lead}]})
            # the same on WebSocket: soketto counts the whole frame payload
            for ep in eps_ws:
                msgs, meta = [], []
                for lead in leads[:3]:
                    for total in (rq, rq + 1, rq + lead):
                        if total < lead + 2 or total > 400_000:
                            continue
                        m, kind, plen = L.sized_message(nid(), total, lead)
                        msgs.append(m)
                        meta.append({"size": total, "kind": kind, "plen": plen, "lead": lead})
                m2, k2, p2 = L.small_call(nid())
                msgs.append(m2)
                meta.append({"size": L.segs_len(m2), "kind": k2, "plen": p2})
                cases.append({"ep": ep, "t": "ws", "rq": rq, "rs": rs, "msgs": msgs, "_meta": meta})
    return cases


def model_ep(c):
    # the low-level entry points over TCP: WS upgrades go to ws::connect, plain requests to http::call_with_service_builder
    return "httpbuilder" if (c["t"] == "http" and c["ep"] == "wsconnect") else c["ep"]


def label(c):
    return "%s/%s" % ("httpbuilder-tcp" if (c["t"] == "http" and c["ep"] == "wsconnect") else c["ep"], c["t"])


def model_line(c):
    if c["t"] == "ws":
        return "ws %s %d %d %s" % (c["ep"], c["rq"], c["rs"], ",".join(str(m["size"]) for m in c["_meta"]))
    fr = ",".join(str(L.segs_len(f)) for f in c["frames"])
    return "http %s %d %d %s %s" % (model_ep(c), c["rq"], c["rs"], "-" if c["cl"] is None else c["cl"], fr)


def canon(c, r):
    """canonical result line of the implementation, same alphabet as modelrun/reqlimit_driver.ml"""
    if "error" in r and "status" not in r and "replies" not in r:
        return "ERROR " + str(r["error"])[:200]
    if c["t"] == "ws":
        out = []
        for x in r.get("replies", []):
            b = L.frame_bytes(x)
            if b is None:
                out.append("X:" + x[:60])
            else:
                fe = L.fixed_error_of(b)
                out.append("T:" + b.hex() if fe and fe[0] == -32007 else "D")
        return " ".join(out)
    st = r.get("status")
    if st == 200:
        return "200"
    return "%s:%s" % (st, r.get("body", "")) if st else "ERROR " + str(r.get("error"))[:200]


def public(c):
    return {k: v for k, v in c.items() if not k.startswith("_")}


def decisions(c, r):
    """accept/reject pattern + handler log: what must not depend on max_response"""
    if c["t"] == "ws":
        pat = []
        for x in r.get("replies", []):
            b = L.frame_bytes(x)
            fe = L.fixed_error_of(b) if b is not None else None
            pat.append("X" if b is None else ("R" if fe and fe[0] == -32007 else "P"))
        return "".join(pat) + "|" + ",".join(sorted(r.get("log", [])))
    return "%s|%s" % ("P" if r.get("status") == 200 else "R", ",".join(sorted(r.get("log", []))))


def oracle(ctx, c, r, prop="C07"):
    """The property restated on the implementation's outputs alone.  Returns list of (key, detail, reduced_case)."""
    fails = []
    where = label(c)
    rq = c["rq"]
    log = list(r.get("log", []))
    if c["t"] == "ws":
        replies = r.get("replies", [])
        if len(replies) != len(c["msgs"]):
            fails.append(("ws-run-incomplete:" + where, "replies %d for %d messages: %s" % (len(replies), len(c["msgs"]), str(r)[:200]), None))
            return fails
        if r.get("extra"):
            fails.append(("ws-unsolicited-frame:" + where, str(r["extra"])[:200], None))
        expected_log = []
        for k, (m, meta, x) in enumerate(zip(c["msgs"], c["_meta"], replies)):
            b = L.frame_bytes(x)
            later = [c["msgs"][-1]] if k < len(c["msgs"]) - 1 else []
            reduced = dict(public(c), msgs=[m] + later, _meta=[meta] + ([c["_meta"][-1]] if later else []))
            if b is None:
                fails.append(("ws-connection-lost:" + where, "message %d (size %d, limit %d): %s" % (k, meta["size"], rq, x[:80]), reduced))
                continue
            fe = L.fixed_error_of(b)
            rejected = bool(fe and fe[0] == -32007)
            if meta["size"] > rq:
                if not rejected:
                    fails.append(("oversize-request-processed:" + where,
                                  "message of %d bytes > max_request_body_size %d (max_response %d) was answered %r" % (meta["size"], rq, c["rs"], b[:120]), reduced))
                    if meta["kind"] == "echo":
                        expected_log.append("echo:%d" % meta["plen"])   # keep the log comparison about this message only once
                elif b != L.too_big_request(rq):
                    fails.append(("reject-frame-wrong:" + where, "%r != %r" % (b[:200], L.too_big_request(rq)), reduced))
            else:
                if rejected:
                    fails.append(("inlimit-request-rejected:" + where,
                                  "message of %d bytes <= max_request_body_size %d (max_response %d) was rejected with -32007" % (meta["size"], rq, c["rs"]), reduced))
                else:
                    if meta["kind"] == "echo":
                        expected_log.append("echo:%d" % meta["plen"])
                    # processed normally: the reply answers this very message
                    try:
                        o = json.loads(b)
                        ok = isinstance(o, dict) and ("result" in o or "error" in o)
                    except Exception:
                        ok = False
                    if not ok:
                        fails.append(("inlimit-reply-malformed:" + where, repr(b[:200]), reduced))
        if sorted(log) != sorted(expected_log) and not any(f[0].startswith("oversize-request-processed") for f in fails):
            fails.append(("handler-log-mismatch:" + where, "log %s, expected %s" % (sorted(log)[:12], sorted(expected_log)[:12]), None))
        within = set(m["plen"] for m in c["_meta"] if m["size"] <= rq and m["kind"] == "echo")
        over = [m for m in c["_meta"] if m["size"] > rq and m["kind"] == "echo" and m["plen"] not in within]
        if any(("echo:%d" % m["plen"]) in log for m in over):
            if not any(f[0].startswith("oversize-request-processed") for f in fails):
                fails.append(("oversize-request-dispatched:" + where, "handler log %s contains an oversized message" % log[:10], None))
    else:
        meta = c["_meta"][0]
        st = r.get("status")
        cl = c["cl"]
        clv = cl if (cl is not None and cl <= 0xFFFFFFFF) else 0
        honest = cl is None or cl == meta["size"]
        if not st:
            fails.append(("http-transport-error:" + where, str(r)[:300], None))
            return fails
        # whatever the server rejects over HTTP with a JSON body, that body is a JSON-RPC 2.0 error response (C15: only valid
        # JSON-RPC 2.0 is emitted): jsonrpc "2.0", an id, an error object with integer code and string message, nothing else
        if st >= 400 and r.get("body"):
            import json as _json
            try:
                o = _json.loads(bytes.fromhex(r["body"]))
                good = (isinstance(o, dict) and set(o) == {"jsonrpc", "id", "error"} and o["jsonrpc"] == "2.0" and isinstance(o["error"], dict)
                        and isinstance(o["error"].get("code"), int) and isinstance(o["error"].get("message"), str)
                        and set(o["error"]) <= {"code", "message", "data"})
            except Exception:
                good = False
            if not good:
                fails.append(("http-error-body-not-a-jsonrpc-response:" + where,
                              "HTTP %d body %r" % (st, bytes.fromhex(r["body"])[:200]), c))
        if meta["size"] > rq or clv > rq:
            if log:
                fails.append(("oversize-request-dispatched:" + where, "body %d bytes (Content-Length %s) > %d reached a handler: %s" % (meta["size"], cl, rq, log), c))
            if st < 400:
                fails.append(("oversize-request-processed:" + where,
                              "body of %d bytes (Content-Length %s) > max_request_body_size %d (max_response %d) got HTTP %d" % (meta["size"], cl, rq, c["rs"], st), c))
        else:
            exp_log = ["echo:%d" % meta["plen"]] if meta["kind"] == "echo" else []
            if c["ep"] == "httpcall" and meta["kind"] == "echo":
                exp_log = ["user:echo"]
            if st != 200:
                fails.append(("inlimit-request-rejected:" + where,
                              "body of %d bytes (Content-Length %s, honest=%s) <= max_request_body_size %d (max_response %d) got HTTP %d" % (meta["size"], cl, honest, rq, c["rs"], st), c))
            elif sorted(log) != exp_log and not (c["ep"] == "httpcall" and meta["kind"] != "echo"):
                fails.append(("handler-log-mismatch:" + where, "log %s, expected %s" % (log, exp_log), c))
    return fails


def http_error_bodies(ctx):
    """used by C15: every HTTP rejection class of the size/stream path on every entry point; the body the server emits must be a
    JSON-RPC 2.0 error response (oracle inside `oracle`: key http-error-body-not-a-jsonrpc-response)"""
    cases = []
    k = [0]
    for ep in L.EPS_HTTP:
        for rq in (64, 256):
            for total, cl, how in ((rq + 1, rq + 1, "one"), (rq + 1, None, "two"), (4 * rq, None, "many"), (rq + 40, None, "first1"), (rq + 1, 2 ** 32 + 5, "one"), (rq - 1, rq - 1, "one")):
                k[0] += 1
                m, kind, plen = L.sized_message(3000000 + k[0], total)
                frames = split_frames(ctx.rng, m, total, how)
                if ep not in L.HTTP_SOCKET_FREE and cl is not None and cl != total:
                    continue
                cases.append({"ep": ep, "t": "http", "rq": rq, "rs": 65536, "frames": frames, "cl": cl,
                              "_meta": [{"size": total, "kind": kind, "plen": plen}]})
    res = L.run_srv([public(c) for c in cases])
    n = 0
    for c, r in zip(cases, res):
        ctx.count("http-error-body:%s" % (r.get("status") or "none"))
        ctx.evaluations += 1
        for key, detail, reduced in oracle(ctx, c, r, "C15"):
            if key.startswith("http-error-body-not-a-jsonrpc-response"):
                ctx.fail("oracle", key, public(c), detail)
        n += 1 if (r.get("status") or 0) >= 400 else 0
    ctx.count("http-error-bodies-checked", n)


def run_and_judge(ctx, cases, prop="C07", use_model=True, only_independence=False):
    res = L.run_srv([public(c) for c in cases])
    model = vlib.run_lines([vlib.model_bin("reqlimit")], [model_line(c) for c in cases]) if use_model else [None] * len(cases)
    by_group = {}
    pending = []
    for c, r, m in zip(cases, res, model):
        line = canon(c, r)
        ctx.count(label(c))
        ctx.count("rq<rs" if c["rq"] < c["rs"] else ("rq>rs" if c["rq"] > c["rs"] else "rq=rs"))
        ctx.record(public(c), line, nontrivial=("T:" in line or line[:3] in ("413", "500")))
        fs = [] if only_independence else oracle(ctx, c, r, prop)
        for key, detail, reduced in fs:
            pending.append((key, detail, reduced, c))
        if only_independence:
            pass
        elif use_model and m is not None and line != m and not fs:
            ctx.fail("diff", "srvlimits-model-differs:" + label(c), public(c), {"impl": line[:400], "model": m[:400]})
        elif use_model and m is not None and line != m:
            ctx.count("diff-next-to-oracle-failure")
        # independence of max_response: same scenario, different rs
        gkey = (c["ep"], c["t"], c["rq"], json.dumps(c.get("msgs") or [c.get("frames"), c.get("cl")]))
        d = decisions(c, r)
        if gkey in by_group and by_group[gkey][0] != d:
            pending.append((("request-acceptance-depends-on-max-response:" if only_independence else "outcome-depends-on-max-response:") + label(c),
                            "rs=%d -> %s ; rs=%d -> %s" % (by_group[gkey][1], by_group[gkey][0][:80], c["rs"], d[:80]), None, c))
        by_group.setdefault(gkey, (d, c["rs"]))
    # confirm reduced cases (one message + a later small one) and report the smallest failing form
    reduced = [p[2] for p in pending if p[2] is not None and p[2] is not p[3]]
    rres = L.run_srv([public(c) for c in reduced]) if reduced else []
    confirmed = {}
    for c, r in zip(reduced, rres):
        keys = [f[0] for f in oracle(ctx, c, r, prop)]
        confirmed[id(c)] = keys
    seen = set()
    pending.sort(key=lambda p: (p[0], p[3]["rq"] < 64, p[3]["rq"]))   # prefer a witness with a realistic limit
    for key, detail, red, orig in pending:
        case = orig
        if red is not None and red is not orig and key in confirmed.get(id(red), []):
            case = red
        if (key, case["rq"], case["rs"]) in seen and len(seen) > 40:
            continue
        seen.add((key, case["rq"], case["rs"]))
        ctx.fail("oracle", key, dict(public(case), _meta=case["_meta"]), detail)


# ---------------------------------------------------------------- family ws-pipeline-backpressure

PIPE_RESP = 1 << 20          # bytes of one large response
PIPE_RS = [64 << 20, 16 << 20]


def pipeline_fill(buf):
    """How many 1 MiB responses make the connection's bounded queue full while the peer does not read: what the socket
    pair absorbs (<= tcp_wmem[2] + the 4 KiB receive buffer; measured here: ~2.5 MiB), one response in the hands of the
    blocked writer, `buf` in the queue -- doubled, at least 12."""
    absorb = -(-L.socket_absorb_bytes() // PIPE_RESP)
    return max(12, 2 * absorb + (buf or 1) + 3)


def gen_pipeline(ctx, eps_ws=L.EPS_WS):
    rng = ctx.rng
    big = ctx.thorough or ctx.search_mode
    pairs = [(1000, 1), (4096, 2), (100, 1), (65536, 1)]
    if big:
        pairs += [(1000, 2), (4096, 4), (300000, 3), (257, 1), (1000, None)]     # None: default capacity 1024 (never full: control)
    shapes = ["end", "first", "two", "mid", "b2b"]
    if big:
        shapes += ["end-far", "adjacent", "early"]
    settle_ms = 300
    next_id = [0]

    def nid():
        next_id[0] += 1
        return 2000000 + next_id[0]

    def build(ep, rq, buf, shape, pos=None):
        k = pipeline_fill(buf)
        far = max(4 * rq + 3, min(50 * rq, 250_000))
        msgs, meta = [], []

        def add_gen():
            i = nid()
            sg, ln, resp = L.gen_call(i, PIPE_RESP)
            msgs.append(sg)
            meta.append({"id": i, "size": ln, "kind": "gen", "plen": None, "resp_len": len(resp), "resp_crc": L.zlib.crc32(resp) & 0xFFFFFFFF})

        def add_small():
            i = nid()
            sg, kind, plen = L.small_call(i)
            msgs.append(sg)
            meta.append({"id": i, "size": L.segs_len(sg), "kind": "echo", "plen": plen, "resp_len": None, "resp_crc": None,
                         "resp": L.response_bytes(i, b'"ok"').hex()})
            return i

        def add_over(sz):
            i = nid()
            sg, kind, plen = L.sized_message(i, sz)
            msgs.append(sg)
            meta.append({"id": i, "size": sz, "kind": "over-" + kind, "plen": plen})

        settle_at = None
        if shape in ("end", "end-far", "two", "adjacent", "b2b"):
            for _ in range(k):
                add_gen()
            settle_at = None if shape == "b2b" else len(msgs)
            add_over(far if shape == "end-far" else rq + 1)
            if shape == "adjacent":
                add_over(rq + 2)
            add_small()
            if shape == "two":
                add_over(far)
                add_small()
        elif shape == "first":
            add_over(rq + 1)
            for _ in range(k):
                add_gen()
            add_small()
        elif shape == "rand":   # 1..3 oversized messages anywhere among the large calls, small calls sprinkled in
            n_over = rng.randint(1, 3)
            at = sorted(rng.randint(0, k) for _ in range(n_over))
            for j in range(k + 1):
                for _ in range(at.count(j)):
                    if settle_at is None and rng.random() < 0.8:
                        settle_at = len(msgs)
                    add_over(rng.choice([rq + 1, rq + 1, rq + rng.randint(2, 40), far]))
                    if rng.random() < 0.4:
                        add_small()
                if j < k:
                    add_gen()
        else:   # "mid" / "early" / explicit position: the oversized message between the large calls
            h = pos if pos is not None else (k - 3 if shape == "mid" else 2)
            for _ in range(h):
                add_gen()
            settle_at = len(msgs)
            add_over(rq + 1 if rng.random() < 0.7 else far)
            for _ in range(k - h):
                add_gen()
            add_small()
        add_small()
        barrier = add_small()
        c = {"ep": ep, "t": "ws", "rq": rq, "rs": rng.choice(PIPE_RS), "mode": "pipeline", "buf": buf, "rcvbuf": 4096,
             "barrier": barrier, "msgs": msgs, "_meta": meta, "_shape": shape if pos is None else "pos%d" % pos}
        if settle_at is not None:
            # before the oversized message is written: every earlier handler has run (log) and the produced
            # responses have had time to fill the socket buffers and the queue
            c["settle"] = {"at": settle_at, "log": sum(1 for m in meta[:settle_at] if m["kind"] in ("gen", "echo")), "ms": settle_ms}
        return c

    cases = []
    for n, ep in enumerate(eps_ws):
        if big:
            for rq, buf in pairs:
                for shape in shapes:
                    cases.append(build(ep, rq, buf, shape))
            rq, buf = pairs[n % 4]
            for pos in range(1, pipeline_fill(buf), 2):
                cases.append(build(ep, rq, buf, "mid", pos))
            for _ in range(40):
                rq, buf = rng.choice(pairs)
                cases.append(build(ep, rq, buf, "rand"))
        else:
            # every shape twice per entry point, the (limit, capacity) pairs rotating; ~13-20 MB per case
            for j, shape in enumerate(shapes + ["end-far", "adjacent"]):
                for d in (0, 2):
                    rq, buf = pairs[(n + j + d) % len(pairs)]
                    cases.append(build(ep, rq, buf, shape))
    return cases


def pipeline_model_line(c):
    return "wsp %s %d %d %d %s" % (c["ep"], c["rq"], c["rs"], c["buf"] or 1024, ",".join("%d:%d" % (m["id"], m["size"]) for m in c["_meta"]))


def pipeline_canon(c, r):
    """the replies as a multiset (sorted), same alphabet as `wsp` of modelrun/reqlimit_driver.ml"""
    if "replies" not in r:
        return "ERROR " + str(r.get("error"))[:200]
    out = []
    for x in r["replies"]:
        f = L.pipeline_frame(x)
        if f["kind"] == "marker":
            out.append("X:" + f["text"][:60])
            continue
        fe = L.fixed_error_of(f["bytes"]) if f["bytes"] is not None else None
        if fe and fe[0] == -32007:
            out.append("T:" + f["bytes"].hex())
        else:
            i = L.frame_numeric_id(f["head"])
            out.append("D:%d" % i if i is not None else "U:" + f["head"][:40].hex())
    return " ".join(sorted(out))


def frag_expected_reply(i, rs):
    """the reply an in-limit echo call must get: its result, or -- the response-size limit is C08's business and part of the
    configuration -- the -32008 object when the result does not fit max_response_body_size"""
    normal = L.response_bytes(i, b'"ok"')
    return normal if len(normal) <= rs else L.too_big_response(i, rs)


def pipeline_oracle(c, r):
    """The property restated on the implementation's output alone: list of (key, detail)."""
    where = label(c)
    rq, metas = c["rq"], c["_meta"]
    if "replies" not in r or r.get("wrote") != len(c["msgs"]):
        return [("ws-run-incomplete:" + where, "wrote %s of %d messages: %s" % (r.get("wrote"), len(c["msgs"]), str(r)[:300]))]
    fails = []
    frames = [L.pipeline_frame(x) for x in r["replies"]]
    markers = [f["text"] for f in frames if f["kind"] == "marker"]
    over = [m for m in metas if m["size"] > rq]
    within = [m for m in metas if m["size"] <= rq]
    rej, byid, stray = [], {}, []
    for f in frames:
        if f["kind"] != "frame":
            continue
        fe = L.fixed_error_of(f["bytes"]) if f["bytes"] is not None else None
        if fe and fe[0] == -32007:
            rej.append(f)
            continue
        i = L.frame_numeric_id(f["head"])
        if i is None:
            stray.append(f)
        else:
            byid.setdefault(i, []).append(f)
    desc = "%d oversized of %d messages (max_request %d, message buffer %s, shape %s); arrival: %s" % (
        len(over), len(metas), rq, c["buf"], c.get("_shape"), pipeline_arrival(c, r))
    if len(rej) < len(over):
        fails.append(("oversize-rejection-dropped-under-backpressure:" + where, "%d rejection frames (-32007) for %s" % (len(rej), desc)))
    elif len(rej) > len(over):
        fails.append(("oversize-rejection-duplicated:" + where, "%d rejection frames (-32007) for %s" % (len(rej), desc)))
    for f in rej:
        if f["bytes"] != L.too_big_request(rq):
            fails.append(("reject-frame-wrong:" + where, "%r != %r" % (f["bytes"][:200], L.too_big_request(rq))))
            break
    for m in within:
        got = byid.get(m["id"], [])
        if len(got) == 0:
            fails.append(("inlimit-request-lost-under-backpressure:" + where, "call %d (%s, %d bytes <= %d) has no reply; %s" % (m["id"], m["kind"], m["size"], rq, desc)))
        elif len(got) > 1:
            fails.append(("inlimit-reply-duplicated:" + where, "call %d (%s) answered %d times; %s" % (m["id"], m["kind"], len(got), desc)))
        else:
            f = got[0]
            if m["kind"] == "gen":
                ok = (f["len"], f["crc"]) == (m["resp_len"], m["resp_crc"])
            else:
                ok = f["bytes"] is not None and f["bytes"].hex() == m["resp"]
            if not ok:
                fails.append(("inlimit-reply-altered:" + where, "call %d (%s): reply of %d bytes crc %08x, head %r" % (m["id"], m["kind"], f["len"], f["crc"], f["head"][:60])))
    known = set(m["id"] for m in within)
    for m in over:
        if m["id"] in byid:
            fails.append(("oversize-request-processed:" + where,
                          "message %d of %d bytes > max_request_body_size %d was answered: head %r" % (m["id"], m["size"], rq, byid[m["id"]][0]["head"][:80])))
    extra = [i for i in byid if i not in known and i not in set(m["id"] for m in over)]
    if stray or extra:
        fails.append(("ws-unsolicited-frame:" + where, "ids %s, frames %s" % (extra[:5], [f["head"][:60] for f in stray[:3]])))
    log = sorted(r.get("log", []))
    expected_log = sorted(["gen" if m["kind"] == "gen" else "echo:%d" % m["plen"] for m in within])
    over_marks = set("echo:%d" % m["plen"] for m in over if m["kind"] == "over-echo") - set(expected_log)
    if any(x in over_marks for x in log):
        if not any(k.startswith("oversize-request-processed") for k, _ in fails):
            fails.append(("oversize-request-processed:" + where, "handler log %s shows the dispatch of an oversized message; %s" % ([x for x in log if x in over_marks][:4], desc)))
    elif log != expected_log:
        fails.append(("handler-log-mismatch:" + where, "log %s, expected %s" % (log[:20], expected_log[:20])))
    if not byid.get(c["barrier"]) or markers:
        fails.append(("connection-dead-after-oversize:" + where,
                      "final barrier call %d answered: %s; markers %s; %s" % (c["barrier"], bool(byid.get(c["barrier"])), markers[:3], desc)))
    return fails


def pipeline_arrival(c, r):
    """compact arrival order: G = large response, R = rejection, e = small reply, ! = marker"""
    out = []
    for x in r.get("replies", []):
        f = L.pipeline_frame(x)
        if f["kind"] == "marker":
            out.append("!")
        elif f["bytes"] is None:
            out.append("G")
        else:
            fe = L.fixed_error_of(f["bytes"])
            out.append("R" if fe and fe[0] == -32007 else "e")
    return "".join(out)


def run_pipeline(ctx, cases):
    # few, heavy cases: one process each (the sharding of run_lines is by count)
    res = L.run_srv([public(c) for c in cases], min_shard=1)
    model = vlib.run_lines([vlib.model_bin("reqlimit")], [pipeline_model_line(c) for c in cases])
    for c, r, m in zip(cases, res, model):
        line = pipeline_canon(c, r)
        arrival = pipeline_arrival(c, r)
        ctx.count("ws-pipeline-backpressure:" + c["ep"])
        ctx.count("ws-pipeline-shape:" + c["_shape"].rstrip("0123456789"))
        # how far behind unread large responses the (first) rejection arrived: >= 4 here means the queue was full
        if "R" in arrival:
            ctx.count("ws-pipeline-rejection-behind-%s-large" % ("%d" % arrival[:arrival.index("R")].count("G") if arrival[:arrival.index("R")].count("G") < 4 else "4+"))
        if r.get("stalled"):
            ctx.count("ws-pipeline-writer-stalled")
        ctx.record(public(c), arrival + " | " + line, nontrivial=("T:" in line))
        fs = pipeline_oracle(c, r)
        seen = set()
        for key, detail in fs:
            if key in seen:
                continue
            seen.add(key)
            ctx.fail("oracle", key, dict(public(c), _meta=c["_meta"], _shape=c["_shape"]), detail)
        if line != m:
            if fs:
                ctx.count("diff-next-to-oracle-failure")
            else:
                ctx.fail("diff", "srvlimits-pipeline-model-differs:" + label(c), dict(public(c), _meta=c["_meta"], _shape=c["_shape"]),
                         {"impl": line[:600], "model": m[:600]})



# ---------------------------------------------------------------- family ws-fragmented


def frag_cut(msg_segs, total, cuts):
    """fragments of the message at the byte positions `cuts` (0, total and repeated positions give empty fragments)"""
    return L.segs_split(msg_segs, sorted(min(max(c, 0), total) for c in cuts))


def frag_subject(rq, parts, pings=(), abandon=False, step=True, pong_at=None):
    """One fragmented message as frag-mode items.  parts = fragment payloads (segs); pings = {index: payload} a Ping written
    before fragment <index>; pong_at = index of a fragment before which an unsolicited Pong is written.
    What the client must do to stay in step with soketto is computed here (input construction only): soketto notices
    the excess at the fragment where the accumulated length passes the limit and then discards the accumulated length,
    i.e. `acc` bytes more than that frame's payload.  step=True: the client supplies exactly what is missing as unframed
    filler bytes (possible when the rest of the message is not longer than `acc`); abandon=True: it stops after the
    crossing fragment (and supplies `acc` filler bytes).  Returns (items, info)."""
    lens = [L.segs_len(x) for x in parts]
    acc, cross = 0, None
    for k, n in enumerate(lens):
        if acc + n > rq:
            cross = k
            break
        acc += n
    last = len(parts) - 1 if not (abandon and cross is not None) else cross
    items, after, answered_pings = [], 0, 0
    for k in range(last + 1):
        if k in dict(pings):
            items.append("P:" + dict(pings)[k])
            if cross is None or k <= cross:
                answered_pings += 1
            else:
                after += L.wire_bytes("p", L.segs_len(dict(pings)[k]))
        if pong_at == k:
            items.append("O:" + L.seg(b"po"))
        fin = "1" if (k == len(parts) - 1) else "0"
        items.append(("T" if k == 0 else "C") + fin + ":" + parts[k])
        if cross is not None and k > cross:
            after += L.wire_bytes("c", lens[k])
    info = {"size": sum(lens), "over": cross is not None, "cross": cross, "acc": acc if cross is not None else 0,
            "after": after, "pings": answered_pings, "instep": True, "frags": len(parts)}
    if cross is not None:
        need = acc - after
        if need < 0 or not step:
            info["instep"] = (acc == after)
        elif need > 0:
            items.append("R:" + L.seg(b"\x00", need))
        info["filler"] = max(need, 0) if step else 0
    return items, info


def gen_frag(ctx, eps_ws=L.EPS_WS):
    """scripts of the family ws-fragmented: (in-step scripts, naive scripts)"""
    rng = ctx.rng
    big = ctx.thorough or ctx.search_mode
    limits = [100, 128, 1000, 4096] + ([64, 257, 20000, 65536, rng.randint(70, 3000), rng.randint(70, 50000)] if big else [rng.randint(70, 3000)])
    next_id = [0]

    def nid():
        next_id[0] += 1
        return 3000000 + next_id[0]

    def single(segs_, kind, plen, size, **extra):
        return {"items": ["T1:" + segs_], "expect": 1}, dict({"size": size, "kind": kind, "plen": plen, "over": False, "instep": True, "frags": 1, "pings": 0}, **extra)

    def script(ep, rq, rs, subj_items, subj_info, subj_kind, subj_plen, head_len, style, naive=False, expects=None):
        msgs, meta = [], []
        msgs.append({"items": subj_items, "expect": 1 if subj_info["instep"] else 0})
        meta.append(dict(subj_info, kind=subj_kind, plen=subj_plen))
        used = {4, subj_plen}
        # an ordinary in-limit call: before or after the next one (whatever comes first would absorb a carried-over buffer)
        si = nid()
        sg, kind, plen = L.small_call(si)
        small_m, small_meta = single(sg, kind, plen, L.segs_len(sg), id=si)
        small_first = rng.random() < 0.35
        if small_first:
            msgs.append(small_m)
            meta.append(small_meta)
        # a message that is only valid JSON when appended to what a carried-over buffer would hold: the fragments of
        # the rejected message that soketto had appended before it noticed the excess (its first `acc` bytes)
        acc = subj_info["acc"]
        if subj_info["over"] and acc > 0 and subj_kind == "echo":
            mlen = min(max(5, rq - acc + 1), rq - 3)
            while (max(acc - head_len, 0) + mlen + 4) in used:
                mlen -= 1
            if mlen >= 1:
                head = L.call_skeleton(subj_info["id"], "echo")
                tail = (head[acc:] if acc < len(head) else b"") + b"x" * mlen + b'"]}'
                if len(tail) <= rq:
                    m, mm = single(L.seg(tail), "tail", None, len(tail), carried_plen=max(acc - head_len, 0) + mlen + 4)
                    msgs.append(m)
                    meta.append(mm)
                    used.add(mm["carried_plen"])
        if not small_first:
            msgs.append(small_m)
            meta.append(small_meta)
        # a message that is valid on its own, itself cut in two in-limit fragments
        own_total = rng.randint(max(62, rq // 2), rq) if rq >= 64 else rq
        oi = nid()
        sg, kind, plen = L.sized_message(oi, own_total)
        while plen in used and own_total > 62:
            own_total -= 1
            sg, kind, plen = L.sized_message(oi, own_total)
        parts = frag_cut(sg, own_total, [rng.randint(1, own_total - 1)])
        items, info = frag_subject(rq, parts)
        msgs.append({"items": items, "expect": 1})
        meta.append(dict(info, kind=kind, plen=plen, id=oi))
        if naive:
            for m in msgs:
                m["expect"] = 0
        c = {"ep": ep, "t": "ws", "mode": "frag", "rq": rq, "rs": rs, "barrier": L.FRAG_BARRIER, "msgs": msgs, "_meta": meta, "_style": style}
        if naive:
            c["quiet"] = 150
            c["mask"] = "00000000"
            c["_naive"] = True
        return c

    steps, naive, cand = [], [], {}
    for ep in eps_ws:
        for rq in limits:
            rs = rng.choice([65536, 10 * 1024 * 1024, max(1, rq // 2)])
            far = 4 * rq + 3
            totals = [rq - 1, rq, rq + 1, far] + ([2 * rq + 1, rq + rng.randint(2, rq)] if big else [])
            for total in totals:
                styles = []
                r = lambda a, b: rng.randint(a, max(a, b))
                styles.append(("even2", [total // 2]))
                styles.append(("even3", [total // 3, 2 * total // 3]))
                styles.append(("even4", [total // 4, total // 2, 3 * total // 4]))
                styles.append(("first-below-later-crosses", [min(total - 1, rq - rng.choice([0, 1, 16]))]))
                styles.append(("first-below-third-crosses", sorted([min(total - 2, rq // 2), min(total - 1, rq - 1)])))
                styles.append(("oversized-first", [min(total - 1, rq + 1 + rng.choice([0, 7]))]))
                styles.append(("tiny-first", [1]))
                styles.append(("last1", [total - 1]))
                styles.append(("empty-first", [0, r(1, total - 1)]))
                styles.append(("empty-middle", [total // 2, total // 2]))
                styles.append(("empty-last", [r(1, total - 1), total]))
                styles.append(("random", [r(1, total - 1) for _ in range(rng.randint(1, 3))]))
                if big:
                    styles.append(("random", [r(1, total - 1) for _ in range(rng.randint(1, 3))]))
                    styles.append(("random-low", [r(1, min(total - 1, rq)) for _ in range(rng.randint(1, 3))]))
                for style, cuts in styles:
                    i = nid()
                    sg, kind, plen = L.sized_message(i, total)
                    head_len = len(L.call_skeleton(i, "echo"))
                    parts = frag_cut(sg, total, cuts)
                    pings = {}
                    if rng.random() < 0.3:
                        pings = {rng.randint(1, len(parts) - 1): L.seg(b"pi" + bytes([48 + rng.randint(0, 9)]))}
                    items, info = frag_subject(rq, parts, pings=pings)
                    info["id"] = i
                    if info["instep"]:
                        steps.append(script(ep, rq, rs, items, info, kind, plen, head_len, style))
                    else:
                        # no amount of filler keeps this client in step: the in-step client stops after the crossing fragment
                        it2, info2 = frag_subject(rq, parts, pings=pings, abandon=True)
                        info2["id"] = i
                        steps.append(script(ep, rq, rs, it2, info2, kind, plen, head_len, style + "/abandoned"))
                        lens = [L.segs_len(x) for x in parts]
                        post = lens[info["cross"] + 1:]
                        cls = "cont-all-big" if all(n > rq for n in post) else ("cont-big" if any(n > rq for n in post) else "cont-small")
                        cand.setdefault((ep, cls), []).append(script(ep, rq, rs, items, info, kind, plen, head_len, "complete:" + style, naive=True))
                    # the client that does not know about the over-discard
                    if info["over"] and info["acc"] > 0 and info["instep"]:
                        it3, info3 = frag_subject(rq, parts, pings=pings, step=False)
                        info3["id"] = i
                        if not info3["instep"]:
                            cand.setdefault((ep, "nofiller"), []).append(script(ep, rq, rs, it3, info3, kind, plen, head_len, "nofiller:" + style, naive=True))
            # an unsolicited Pong between two fragments of an in-limit message
            for _ in range(2 if big else 1):
                i = nid()
                total = rng.randint(62, rq) if rq >= 62 else rq
                sg, kind, plen = L.sized_message(i, total)
                parts = frag_cut(sg, total, [rng.randint(1, total - 1)])
                items, info = frag_subject(rq, parts, pong_at=1)
                info["id"] = i
                info["instep"] = False
                info["pong_between"] = True
                naive.append(script(ep, rq, rs, items, info, kind, plen, len(L.call_skeleton(i, "echo")), "pong-between", naive=True))
    # the out-of-step scripts are slow (every message waits out its quiet period): a sample per entry point and class
    for (ep, cls), pool in sorted(cand.items()):
        k = {"nofiller": (3, 10), "cont-small": (2, 8), "cont-big": (1, 4), "cont-all-big": (1, 4)}[cls][1 if big else 0]
        naive += rng.sample(pool, min(k, len(pool)))
    return steps, naive


def frag_model_line(c):
    items = []
    for m in c["msgs"]:
        items += ["%s:%d" % kn for kn in L.frag_wire(L.frag_items_of(m))]
    items.append("t1:%d" % len(L.frag_barrier_call(c.get("barrier", L.FRAG_BARRIER))))
    return "wsf %s %d %d %s" % (c["ep"], c["rq"], c["rs"], ",".join(items))


def frag_canon(c, r):
    """everything the server sent, in arrival order, in the alphabet of `wsf` of modelrun/reqlimit_driver.ml:
    T:<hex> rejection, D another text frame, P:<len> Pong, X connection closed / lost, S still open but the barrier unanswered"""
    if "replies" not in r:
        return "ERROR " + str(r.get("error"))[:200]
    out, closed = [], False
    for x in [y for rep in r["replies"] for y in rep] + list(r.get("final", [])):
        kind, v = L.frag_frame(x)
        if kind == "text":
            fe = L.fixed_error_of(v)
            out.append("T:" + v.hex() if fe and fe[0] == -32007 else "D")
        elif kind == "pong":
            out.append("P:%d" % len(v))
        else:
            closed = True
    if closed:
        out.append("X")
    elif not r.get("alive"):
        out.append("S")
    return " ".join(out)


def frag_model_canon(m):
    """model line -> (tokens comparable with frag_canon, open_end): E (protocol error: connection closed) = X;
    after Z (the reader is inside a frame) the model predicts nothing: compare the prefix only"""
    toks = []
    for t in m.split():
        if t.startswith("D:"):
            toks.append("D")
        elif t == "E":
            toks.append("X")
        elif t == "Z":
            return toks, True
        else:
            toks.append(t)
    return toks, False


def frag_oracle(c, r, twin=None):
    """The property restated on the implementation's output alone: list of (key, detail)."""
    where = label(c)
    rq, metas = c["rq"], c["_meta"]
    fails = []
    if "replies" not in r or len(r["replies"]) != len(c["msgs"]):
        return [("ws-run-incomplete:" + where, str(r)[:300])]
    naive = bool(c.get("_naive"))
    any_over = any(m["over"] for m in metas)
    dead = []
    expected_log = []
    for k, (meta, rep) in enumerate(zip(metas, r["replies"])):
        fr = [L.frag_frame(x) for x in rep]
        texts = [v for kind, v in fr if kind == "text"]
        dead += [v for kind, v in fr if kind == "marker"]
        rej = [v for v in texts if (L.fixed_error_of(v) or (None,))[0] == -32007]
        other = [v for v in texts if v not in rej]
        desc = "message %d (%d bytes in %d fragments, limit %d, style %s)" % (k, meta["size"], meta["frags"], rq, c.get("_style"))
        if meta["size"] > rq:
            if other and not naive:
                fails.append(("oversize-request-processed:" + where, "%s was answered %r" % (desc, other[0][:120])))
            if not naive:
                if len(rej) != 1:
                    fails.append(("oversize-rejection-count:" + where, "%d rejection frames for %s: %s" % (len(rej), desc, rep[:4])))
                elif rej[0] != L.too_big_request(rq):
                    fails.append(("reject-frame-wrong:" + where, "%r != %r" % (rej[0][:200], L.too_big_request(rq))))
        else:
            if meta["kind"] == "echo":
                expected_log.append("echo:%d" % meta["plen"])
            if naive:
                continue
            if rej:
                fails.append(("inlimit-request-rejected:" + where, "%s was rejected with -32007" % desc))
            elif len(other) != 1:
                fails.append(("inlimit-reply-count:" + where, "%d replies for %s: %s" % (len(other), desc, rep[:4])))
            elif meta["kind"] == "echo" and "id" in meta and other[0] != frag_expected_reply(meta["id"], c["rs"]):
                fails.append(("inlimit-reply-altered:" + where, "%s: %r" % (desc, other[0][:120])))
    dead += [x for x in r.get("final", []) if L.frag_frame(x)[0] == "marker"]
    # the handler log: nothing but the in-limit echo calls of the script, each once
    log = sorted(r.get("log", []))
    producible = sorted(expected_log)
    extra = list(log)
    for x in producible:
        if x in extra:
            extra.remove(x)
    if extra:
        fails.append(("oversize-request-processed:" + where,
                      "the handler log %s shows a dispatch that no in-limit message of the script could have produced (in-limit echo calls: %s; limit %d, style %s)"
                      % (extra[:4], producible[:6], rq, c.get("_style"))))
    elif log != producible and not naive:
        fails.append(("handler-log-mismatch:" + where, "log %s, expected %s" % (log[:12], producible[:12])))
    if naive:
        # the out-of-step client is outside the rejection / keeps-serving clauses: only the safety half (above) is judged
        return fails
    if dead or not r.get("alive"):
        fails.append((("connection-dead-after-oversize:" if any_over else "ws-connection-lost:") + where,
                      "markers %s, barrier answered: %s (limit %d, style %s, sizes %s)" % (dead[:3], r.get("alive"), rq, c.get("_style"), [m["size"] for m in metas])))
    if twin is not None and "replies" in twin and len(twin["replies"]) == len(r["replies"]):
        for k, (a, b) in enumerate(zip(r["replies"], twin["replies"])):
            ta = [v for kind, v in map(L.frag_frame, a) if kind == "text"]
            tb = [v for kind, v in map(L.frag_frame, b) if kind == "text"]
            if ta != tb:
                fails.append(("fragmentation-changes-outcome:" + where,
                              "message %d (%d bytes, limit %d, style %s): fragmented script %r, the same bytes in single frames %r"
                              % (k, metas[k]["size"], rq, c.get("_style"), [x[:90] for x in ta], [x[:90] for x in tb])))
                break
        if sorted(twin.get("log", [])) != log:
            fails.append(("fragmentation-changes-outcome:" + where, "handler log %s, with the same bytes in single frames %s" % (log[:8], sorted(twin.get("log", []))[:8])))
    return fails


def frag_observed(c, r):
    """input-distribution bucket of a naive script: what was observed (never a verdict)"""
    meta0 = c["_meta"][0]
    frames = [L.frag_frame(x) for rep in r.get("replies", []) for x in rep] + [L.frag_frame(x) for x in r.get("final", [])]
    closed = any(k == "marker" for k, _ in frames)
    nrej = sum(1 for k, v in frames if k == "text" and (L.fixed_error_of(v) or (None,))[0] == -32007)
    end = "closes" if closed else ("stalls" if not r.get("alive") else "survives")
    if meta0.get("pong_between"):
        return "frag:pong-between-fragments-" + end
    if c["_style"].startswith("nofiller:"):
        return "frag:naive-overdiscard-" + ("desync-" + end if closed else end)
    if nrej > 1:
        return "frag:naive-rejection-per-oversized-fragment-" + end
    return "frag:naive-continuation-after-reject-" + end


def frag_twin(c):
    """the same data bytes, every message in one frame, no control frames, no filler"""
    msgs = []
    for m in c["msgs"]:
        data = [it.split(":", 1)[1] for it in L.frag_items_of(m) if it[:3] in ("T0:", "T1:", "C0:", "C1:")]
        runs = [x for d in data for x in (d.split("+") if d != "-" else [])]
        msgs.append({"items": ["T1:" + L.segs_join(runs)], "expect": 1})
    return dict(public(c), msgs=msgs)


def run_frag(ctx, cases_naive=None):
    steps, naive = cases_naive if cases_naive is not None else gen_frag(ctx)
    cases = steps + naive
    twins = {}
    for c in steps:
        t = frag_twin(c)
        twins.setdefault(json.dumps(t, sort_keys=True), t)
    tlist = list(twins.values())
    res = L.run_srv([public(c) for c in cases] + tlist)
    tres = dict(zip(twins.keys(), res[len(cases):]))
    model = vlib.run_lines([vlib.model_bin("reqlimit")], [frag_model_line(c) for c in cases])
    for c, r, m in zip(cases, res, model):
        line = frag_canon(c, r)
        nv = bool(c.get("_naive"))
        ctx.count("ws-fragmented%s:%s" % ("-naive" if nv else "", c["ep"]))
        ctx.count("ws-fragmented-style:" + c["_style"].split("/")[0].split(":")[-1])
        meta0 = c["_meta"][0]
        ctx.count("ws-fragmented-subject:%s" % ("in-limit" if not meta0["over"] else ("over/abandoned" if "/abandoned" in c["_style"] else ("over/naive" if nv else "over/in-step"))))
        ctx.record(public(c), line, nontrivial=("T:" in line))
        if nv:
            ctx.count(frag_observed(c, r))
        twin = None if nv else tres.get(json.dumps(frag_twin(c), sort_keys=True))
        fs = frag_oracle(c, r, twin)
        seen = set()
        for key, detail in fs:
            if key in seen:
                continue
            seen.add(key)
            ctx.fail("oracle", key, dict(public(c), _meta=c["_meta"], _style=c["_style"], **({"_naive": True} if nv else {})), detail)
        toks, open_end = frag_model_canon(m)
        got = line.split()
        # a Pong is written by the receiver itself, a reply travels through the connection's queue and send_task: their
        # order on the wire is not determined -- the Pongs are compared as a sequence of their own
        pongs = lambda l: [t for t in l if t.startswith("P:")]
        rest = lambda l: [t for t in l if not t.startswith("P:")]
        if open_end:
            same = rest(got)[:len(rest(toks))] == rest(toks) and pongs(got)[:len(pongs(toks))] == pongs(toks)
        else:
            same = rest(got) == rest(toks) and pongs(got) == pongs(toks)
        if not same:
            if fs:
                ctx.count("diff-next-to-oracle-failure")
            else:
                ctx.fail("diff", "srvlimits-frag-model-differs:" + label(c), dict(public(c), _meta=c["_meta"], _style=c["_style"], **({"_naive": True} if nv else {})),
                         {"impl": line[:600], "model": m[:600]})


def run(ctx):
    ctx.engines = ["srvlimits (harness/src/bin/srvlimits.rs: real servers through 5 entry points x {ws,http}) vs "
                   "modelrun/reqlimit_driver.ml over coq/Model/ReqLimit.v + Gen/LimitsWiringGen.v"]
    cases = gen_cases(ctx)
    # the same scenario under several max_response values: identical decisions required
    fixed = []
    for rq in ctx.scale([100, 1000], [64, 100, 1000, 20000]):
        cs = gen_cases(ctx, pairs=[(rq, rq)])
        for rs in [50, rq, 3 * rq + 1, 10 * 1024 * 1024]:
            fixed += [dict(c, rs=rs) for c in cs]
    run_and_judge(ctx, cases + fixed)
    if os.environ.get("VERIF_SRVLIMITS_BIN"):
        ctx.note("srvlimits implementation binary overridden: " + L.impl_bin())
    run_pipeline(ctx, gen_pipeline(ctx))
    run_frag(ctx)


def replay(payload):
    case = payload["case"]
    print(json.dumps({k: v for k, v in payload.items() if k != "case"}, indent=1)[:2000])
    if not (isinstance(case, dict) and "ep" in case):
        print(json.dumps(case)[:2000])
        return 0
    if case.get("mode") == "frag":
        r = L.run_srv([public(case)])[0]
        print("case:", json.dumps(public(case))[:1500])
        for m, rep in zip(case["msgs"], r.get("replies", [])):
            print("  sent %s -> %s" % (["%s:%d" % kn for kn in L.frag_wire(L.frag_items_of(m))],
                                      [(v[:100] if k != "marker" else v) for k, v in map(L.frag_frame, rep)]))
        print("  barrier -> %s alive %s | log: %s" % ([(v[:100] if k != "marker" else v) for k, v in map(L.frag_frame, r.get("final", []))], r.get("alive"), sorted(r.get("log", []))))
        print("impl  ->", frag_canon(case, r)[:1500])
        rc, out = vlib.sh([vlib.model_bin("reqlimit")], input=frag_model_line(case) + "\n")
        print("model ->", out.strip()[:1500])
        if "_meta" not in case:
            return 0
        twin = None if case.get("_naive") else L.run_srv([frag_twin(case)])[0]
        fs = frag_oracle(case, r, twin)
        print("oracle:", "holds" if not fs else "FAILS " + "; ".join("%s (%s)" % (k, d[:400]) for k, d in fs))
        return 1 if fs else 0
    if case.get("mode") == "pipeline":
        r = L.run_srv([public(case)])[0]
        print("case:", json.dumps(public(case))[:1500])
        print("impl  -> arrival", pipeline_arrival(case, r), "| wrote", r.get("wrote"), "stalled", r.get("stalled"), "| log:", sorted(r.get("log", []))[:30])
        print("impl  ->", pipeline_canon(case, r)[:1500])
        if "_meta" not in case:
            return 0
        rc, out = vlib.sh([vlib.model_bin("reqlimit")], input=pipeline_model_line(case) + "\n")
        print("model ->", out.strip()[:1500])
        fs = pipeline_oracle(case, r)
        print("oracle:", "holds" if not fs else "FAILS " + "; ".join("%s (%s)" % (k, d[:300]) for k, d in fs))
        return 1 if fs else 0
    r = L.run_srv([public(case)])[0]
    print("case:", json.dumps(public(case))[:1500])
    print("impl  ->", canon(case, r)[:1500], "| log:", r.get("log"))
    if "_meta" in case:
        rc, out = vlib.sh([vlib.model_bin("reqlimit")], input=model_line(case) + "\n")
        print("model ->", out.strip()[:1500])

        class Dummy:
            thorough = False
            search_mode = False
        fs = oracle(Dummy(), case, r)
        print("oracle:", "holds" if not fs else "FAILS " + "; ".join("%s (%s)" % (f[0], f[1][:200]) for f in fs))
        return 1 if fs else 0
    return 0
