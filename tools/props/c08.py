"""C08 -- no response payload above max_response_body_size is ever sent."""
import json
import vlib
from props import limits_common as L
from props import c07

TRANSLATORS = ["limits_wiring", "error_consts"]     # error_consts: the fixed error objects (C08_consts_pinned)
MODELS = ["respsize", "reqlimit"]
BINS = {"release": ["respsize", "srvlimits"], "debug": ["respsize"]}
DEBUG_IN_QUICK = True
RULE = ("(1) pure: `MethodResponse::response/error` and `BatchResponseBuilder` (release AND debug build) on (id, payload, limit): "
        "every limit 1..4096 with response sizes limit-2..limit+2, ids of every decimal width and strings needing escapes / "
        "multi-byte UTF-8, payload kinds raw / string / escaped / multi-byte / error-with-data / failing serialiser, batches of "
        "1..6 entries with the limit straddling the array at every entry position, limits 0 and 2^32-1, 2^63, 2^64-1; diffed "
        "against the extracted model (which also runs a random chunking of the serialisation) and against bytes computed "
        "independently from the property text.  (2) end to end: the same through real servers (srvlimits) over WS and HTTP on "
        "every entry point, every frame/body measured.  (3) request acceptance under varying max_response.  "
        "distinct non-trivial = distinct result lines whose reply is not the unchanged fitting response")
TRUSTED = [
    "translator tools/translators/limits_wiring.py (see C07) for the server-level theorems (callback_limit, *_svc_limit_of, sink_limit_of)",
    "modelled, not verified: serde_json's writer protocol (only `write` calls, total = the serialisation; is_io() for writer errors), "
    "Response/ErrorObject serialisation layout (Model/Wire.v, C15) -- tied by the differential run",
]
ASSUMPTIONS = [
    "reading of the property text (DESIGN C08): besides -32008/-32011 the library's other fixed small error objects "
    "(-32700, -32600, -32601, -32603, -32005, -32006, -32007, -32010; built without a size check, <= 132 bytes + decimal limit "
    "+ the echoed id, theorem C08_fixed_error_bound) are exempt from the bound; their sizes are reported in the evidence",
    "handler payloads are the raw JSON text the handler's Serialize emits (result) or an ErrorObject (error); ids are null, u64 or strings",
    "KNOWN FINDING subscribe-response-unbounded: the success response to a subscribe call is outside C08_single_exact (C08_sub_refuted)",
]

ID_POOL = ([None, 0] + [int("18446744073709551615"[:k]) for k in range(1, 21)] +
           ["", "a", "id-1", 'q"uote', "back\\slash", "nl\nx", "tab\t", "\x01ctl", "\u00e9", "\u65e5\u672c", "\U0001F600", "x" * 40, '"' * 7, "\x7f"])


def id_spec(i):
    if i is None:
        return "null"
    if isinstance(i, int):
        return "n:%d" % i
    return "s:" + (i.encode("utf-8").hex() or "-")


def overhead(i):
    return len(L.response_bytes(i, b""))


def payload_for(kind, P):
    """(spec, raw bytes of the serialised payload) with serialised length P where reachable (else the kind's minimum)"""
    if kind == "num":
        P = max(P, 1)
        return "r:" + L.seg(b"1", P), b"1" * P
    if kind == "arr":
        P = max(P, 2)
        return "r:" + L.segs_join([L.seg(b"["), L.seg(b"1", P - 2) if P > 2 else "", L.seg(b"]")]), b"[" + b"1" * (P - 2) + b"]" if P > 2 else b"[]"
    unit, cost = {"ascii": ("a", 1), "quote": ('"', 2), "nl": ("\n", 2), "ctl": ("\x01", 6), "mb2": ("é", 2), "mb4": ("\U0001F600", 4)}[kind]
    P = max(P, 2)
    q, r = divmod(P - 2, cost)
    s = unit * q + "a" * r
    spec = "s:" + L.segs_join([L.seg(unit.encode("utf-8"), q), L.seg(b"a", r)])
    return spec, L.ser_str(s)


KINDS = ["num", "ascii", "quote", "mb2", "nl", "arr", "ctl", "mb4"]


def expect_single(i, raw, maxv, is_error_code=None):
    full = L.response_bytes(i, raw) if is_error_code is None else raw
    if len(full) <= maxv:
        return full, ("ok" if is_error_code is None else "err:%d" % is_error_code)
    return L.too_big_response(i, maxv), "err:-32008"


def gen_pure(ctx):
    rng = ctx.rng
    lines = []   # (line, expected reply bytes, expected last token, tag)

    def add_single(i, kind, target, maxv, tag):
        spec, raw = payload_for(kind, target - overhead(i))
        exp, flag = expect_single(i, raw, maxv)
        cuts = ""
        if rng.random() < 0.25:
            n = len(L.response_bytes(i, raw))
            cuts = " " + ",".join(str(x) for x in sorted(rng.randint(0, n) for _ in range(rng.randint(1, 6))))
        lines.append(("single %s %s %d%s" % (id_spec(i), spec, maxv, cuts), exp, flag, tag))

    def add_error(i, code, msg, k, maxv, tag):
        data = L.ser_str("d" * k)
        full = L.error_bytes(i, code, msg, data)
        exp, flag = expect_single(i, full, maxv, is_error_code=code)
        lines.append(("single %s e:%d:%s:%s %d" % (id_spec(i), code, msg.encode().hex() or "-", L.segs_join([L.seg(b'"'), L.seg(b"d", k), L.seg(b'"')]), maxv), exp, flag, tag))

    top = ctx.scale(4096, 8192)
    n = 0
    for limit in range(1, top + 1):
        for d in (-2, -1, 0, 1, 2):
            i = ID_POOL[n % len(ID_POOL)]
            kind = KINDS[(n // 3) % len(KINDS)]
            n += 1
            add_single(i, kind, limit + d, limit, "sweep")
    # every id x every delta for small limits and a few large ones
    for limit in list(range(30, ctx.scale(130, 3000))) + [1000, 4095, 4096, 65536]:
        for i in ID_POOL:
            for d in (-2, -1, 0, 1, 2):
                add_single(i, rng.choice(KINDS), limit + d, limit, "ids")
    # error results with data
    for limit in range(60, ctx.scale(700, 4096), ctx.scale(3, 1)):
        i = rng.choice(ID_POOL)
        base = len(L.error_bytes(i, -32000, "m", L.ser_str("")))
        for d in (-2, -1, 0, 1, 2):
            add_error(i, rng.choice([-32000, 1, -1, 2147483647, -2147483648]), "m", max(0, limit + d - base), limit, "error-data")
    # failing serialiser: emits `["<s>"` then fails
    for limit in range(30, ctx.scale(200, 1500), 1):
        i = rng.choice(ID_POOL)
        pre = len(L.response_bytes(i, b"")) - 1
        for d in (-1, 0, 1):
            k = max(0, limit + d - pre - 3)
            written = pre + 3 + k
            exp = L.too_big_response(i, limit) if written > limit else L.error_bytes(i, -32603, "Internal error")
            flag = "err:-32008" if written > limit else "err:-32603"
            lines.append(("single %s f:%s %d" % (id_spec(i), L.seg(b"a", k) if k else "-", limit), exp, flag, "ser-fail"))
    # extreme limits
    for maxv in (0, 1, 2 ** 32 - 1, 2 ** 32, 2 ** 63 - 1, 2 ** 63, 2 ** 64 - 1):
        for i in (None, 0, 2 ** 64 - 1, "a"):
            add_single(i, "ascii", 40, maxv, "extreme-limit")
    # MethodResponse::error: the fixed errors, never size-checked
    for code, msg in L.FIXED.items():
        for i in ID_POOL:
            data = L.exceeded(rng.choice([0, 7, 100, 2 ** 32 - 1])) if code in L.WITH_DATA else None
            exp = L.error_bytes(i, code, msg, data)
            lines.append(("error %s %d %s %s" % (id_spec(i), code, msg.encode().hex(), data.hex() if data else "-"), exp, "err:%d" % code, "fixed-error"))
    # batches: limit straddling the array at every entry position
    for _ in range(ctx.scale(700, 40000)):
        k = rng.randint(1, 6)
        ents = []
        for _e in range(k):
            i = rng.choice(ID_POOL)
            kind = rng.choice(KINDS)
            spec, raw = payload_for(kind, rng.choice([1, 2, 3, 8, 20, 60]))
            ents.append((i, spec, raw))
        unbounded = [L.response_bytes(i, raw) for i, _, raw in ents]
        pos = rng.randint(1, k)
        alen = len(b"[" + b",".join(unbounded[:pos]) + b"]")
        maxv = max(0, alen + rng.choice([-2, -1, 0, 0, 1, 2]))
        if rng.random() < 0.1:
            maxv = rng.choice([0, 1, 2, 30, 10 ** 6])
        rs = [expect_single(i, raw, maxv)[0] for i, _, raw in ents]
        arr = b"[" + b",".join(rs) + b"]"
        if len(arr) <= maxv:
            exp, fi = arr, "-"
        else:
            exp = L.too_big_batch(maxv)
            fi = str(next(j for j in range(k) if len(b"[" + b",".join(rs[:j + 1]) + b"]") > maxv))
        lines.append(("batch %d %s" % (maxv, ";".join("%s,%s" % (id_spec(i), spec) for i, spec, _ in ents)), exp, fi, "batch-%d" % k))
    lines.append(("batch 100 -", L.error_bytes(None, -32600, "Invalid request"), "-", "batch-0"))
    return lines


def classify_pure(line, got, exp, flag):
    """failure key for a pure line whose digest differs from the expectation"""
    parts = got.split(" ")
    toks = line.split(" ")
    if got.startswith("PANIC") or got.startswith("CRASH") or len(parts) < 5:
        return "respsize-panic"
    n = int(parts[0])
    head = bytes.fromhex(parts[2]) if parts[2] != "-" else b""
    maxv = int(toks[3]) if toks[0] == "single" else (int(toks[1]) if toks[0] == "batch" else None)
    fe = L.fixed_error_of(head) if n <= 300 else None
    if maxv is not None and n > maxv and fe is None:
        return "oversize-response-sent" if toks[0] == "single" else "oversize-batch-sent"
    if toks[0] == "batch":
        return "batch-not-exact"
    if toks[0] == "error":
        return "fixed-error-bytes"
    if len(exp) <= (maxv or 0) and exp != L.too_big_response(None, maxv) and flag in ("ok",) or (flag.startswith("err:") and flag not in ("err:-32008", "err:-32603")):
        return "fitting-response-altered"
    if flag == "err:-32008":
        return "oversize-not-replaced-by-32008"
    return "single-not-exact"


def run_pure(ctx):
    lines = gen_pure(ctx)
    inp = [l[0] for l in lines]
    model = vlib.run_lines([vlib.model_bin("respsize")], inp)
    outs = {"release": vlib.run_lines([vlib.rust_bin("respsize", "release")], inp)}
    import os
    if os.path.exists(vlib.rust_bin("respsize", "debug")):
        outs["debug"] = vlib.run_lines([vlib.rust_bin("respsize", "debug")], inp)
    else:
        ctx.note("debug build of respsize not present: release only")
    sizes_fixed = {}
    for k, (line, exp, flag, tag) in enumerate(lines):
        want = L.digest(exp) + " " + flag
        ctx.count(tag)
        for prof, out in outs.items():
            got = out[k]
            if prof == "release":
                ctx.record({"line": line[:300]}, got[:120], nontrivial=(flag != "ok" and tag != "fixed-error"))
            else:
                ctx.evaluations += 1
            if got != want:
                ctx.fail("oracle", classify_pure(line, got, exp, flag) + ("" if prof == "release" else ":debug"),
                         {"engine": "respsize", "profile": prof, "line": line},
                         {"impl": got[:300], "property": want[:300]})
            if got != model[k]:
                ctx.fail("diff", "respsize-model-differs" + ("" if prof == "release" else ":debug"),
                         {"engine": "respsize", "profile": prof, "line": line}, {"impl": got[:300], "model": model[k][:300]})
        if tag == "fixed-error":
            code = int(line.split(" ")[2])
            sizes_fixed[code] = max(sizes_fixed.get(code, 0), len(exp))
    ctx.extra["fixed_error_max_bytes_seen"] = {str(k): v for k, v in sorted(sizes_fixed.items())}


# ---------------------------------------------------------------- end to end

def gen_call(i, method, n, unit):
    return (b'{"jsonrpc":"2.0","id":' + L.ser_id(i) + b',"method":"' + method.encode() + b'","params":[' + str(n).encode() + b"," + L.ser_str(unit) + b"]}")


def err_call(i, code, msg, n):
    return (b'{"jsonrpc":"2.0","id":' + L.ser_id(i) + b',"method":"err","params":[' + str(code).encode() + b"," + L.ser_str(msg) + b"," + str(n).encode() + b"]}")


def unit_count(unit, target_payload):
    cost = len(L.ser_str(unit)) - 2
    return max(0, (target_payload - 2) // cost)


def spec_of_unit(unit, n):
    return "s:" + (L.seg(unit.encode("utf-8"), n) if n else "-")


def gen_e2e(ctx):
    """cases for srvlimits; per message: request bytes, kind, the reply the property demands, the model's input line"""
    rng = ctx.rng
    cases = []
    rq = 1_000_000
    limits = ctx.scale([60, 100, 151, 500, 4096], [40, 60, 61, 100, 128, 151, 500, 1000, 4096, 20000] + [rng.randint(34, 3000) for _ in range(40)])
    e2e_ids = [7, 1234567, 2 ** 64 - 1, "a", 'q"\n', "\u00e9x", "long-" * 6]

    def M(req, kind, exp, mline=None):
        return {"req": req, "kind": kind, "exp": exp, "mline": mline}

    for rs in limits:
        msgs = []
        for method in ("gen", "agen", "bgen"):
            i = rng.choice(e2e_ids)
            for d in (-2, -1, 0, 1, 2):
                n = max(0, rs + d - overhead(i) - 2)
                msgs.append(M(gen_call(i, method, n, "a"), "call", expect_single(i, L.ser_str("a" * n), rs)[0],
                              "single %s %s %d" % (id_spec(i), spec_of_unit("a", n), rs)))
        for unit in ('"', "\u00e9", "\n", "\U0001F600", "\x01"):
            i = rng.choice(e2e_ids)
            for d in (0, 1, 2, 7):
                n = unit_count(unit, rs + d - overhead(i))
                msgs.append(M(gen_call(i, rng.choice(["gen", "agen"]), n, unit), "call", expect_single(i, L.ser_str(unit * n), rs)[0],
                              "single %s %s %d" % (id_spec(i), spec_of_unit(unit, n), rs)))
        for d in (-1, 0, 1, 50):
            i = rng.choice(e2e_ids)
            base = len(L.error_bytes(i, -7, "boom", L.ser_str("")))
            n = max(0, rs + d - base)
            full = L.error_bytes(i, -7, "boom", L.ser_str("d" * n))
            msgs.append(M(err_call(i, -7, "boom", n), "call", expect_single(i, full, rs, is_error_code=-7)[0],
                          "single %s e:-7:%s:%s %d" % (id_spec(i), b"boom".hex(), L.segs_join([L.seg(b'"'), L.seg(b"d", n), L.seg(b'"')]), rs)))
        # the library's own fixed errors (exempt, but measured)
        msgs.append(M(b'{"jsonrpc":"2.0","id":5,"method":"nope"}', "fixed", L.error_bytes(5, -32601, "Method not found")))
        msgs.append(M(b'{"jsonrpc":"2.0","id":"%s","method":"nope"}' % (b"i" * 200), "fixed", L.error_bytes("i" * 200, -32601, "Method not found")))
        msgs.append(M(b'{"jsonrpc":"3.0","id":6}', "fixed", L.error_bytes(6, -32600, "Invalid request")))
        rng.shuffle(msgs)
        for ep in L.EPS_WS:
            cases.append({"ep": ep, "t": "ws", "rq": rq, "rs": rs, "msgs": [L.seg(m["req"]) for m in msgs], "_exp": msgs})
        for ep in ctx.scale(["tower", "httpbuilder", "server"], ["tower", "httpbuilder", "server", "wsconnect"]):
            for m in (msgs if ep in L.HTTP_SOCKET_FREE or ctx.thorough else msgs[:12]):
                cases.append({"ep": ep, "t": "http", "rq": rq, "rs": rs, "frames": [L.seg(m["req"])], "cl": len(m["req"]), "_exp": [m]})
    # batches: the limit straddles the array at every entry position
    for (k, d, ents) in bmsgs_all(ctx, rng):
        unb = [L.response_bytes(i, raw) for i, _, raw, _ in ents]
        rs = max(1, len(b"[" + b",".join(unb) + b"]") + d)
        rsp = [expect_single(i, raw, rs)[0] for i, _, raw, _ in ents]
        arr = b"[" + b",".join(rsp) + b"]"
        exp = arr if len(arr) <= rs else L.too_big_batch(rs)
        req = b"[" + b",".join(r for _, r, _, _ in ents) + b"]"
        m = M(req, "batch", exp, "batch %d %s" % (rs, ";".join("%s,%s" % (id_spec(i), sp) for i, _, _, sp in ents)))
        for ep in L.EPS_WS:
            cases.append({"ep": ep, "t": "ws", "rq": rq, "rs": rs, "msgs": [L.seg(req)], "_exp": [m]})
        for ep in ("tower", "httpbuilder"):
            cases.append({"ep": ep, "t": "http", "rq": rq, "rs": rs, "frames": [L.seg(req)], "cl": len(req), "_exp": [m]})
    # batches made only of INVALID entries (nothing to execute, no handler involved): the array of -32600 errors is a batch reply
    # like any other -- sent unchanged when it fits, replaced by -32011 when it does not
    inv = [(b"1", None), (b'{"id":7,"method":1}', 7), (b'{"id":"q","foo":true}', "q"), (b'"x"', None)]
    for n in ctx.scale([1, 2, 4, 40], [1, 2, 3, 4, 8, 40]):
        for pick in range(2):
            ents = [inv[(k * (pick + 1)) % len(inv)] for k in range(n)]
            arr = b"[" + b",".join(L.error_bytes(i, -32600, "Invalid request") for _, i in ents) + b"]"
            req = b"[" + b",".join(t for t, _ in ents) + b"]"
            for d in (-2, -1, 0, 1):
                rs = max(1, len(arr) + d)
                m = M(req, "batch", arr if len(arr) <= rs else L.too_big_batch(rs))
                for ep in L.EPS_WS:
                    cases.append({"ep": ep, "t": "ws", "rq": rq, "rs": rs, "msgs": [L.seg(req)], "_exp": [m]})
                for ep in ("tower", "httpbuilder"):
                    cases.append({"ep": ep, "t": "http", "rq": rq, "rs": rs, "frames": [L.seg(req)], "cl": len(req), "_exp": [m]})
    # subscribe calls: responses below and above the limit
    for rs in ctx.scale([60, 100, 4096], [40, 60, 100, 200, 4096]):
        for (i, subid) in ((1, 16), ("s" * 30, 40), ("k", 200)):
            exp_resp = L.response_bytes(i, L.ser_str("S" * subid))
            req = b'{"jsonrpc":"2.0","id":' + L.ser_id(i) + b',"method":"sub","params":[]}'
            for ep in L.EPS_WS:
                cases.append({"ep": ep, "t": "ws", "rq": rq, "rs": rs, "subid": subid, "msgs": [L.seg(req)],
                              "_exp": [M(req, "subscribe", exp_resp)]})
    return cases


def bmsgs_all(ctx, rng):
    out = []
    for k in range(1, ctx.scale(5, 7)):
        for _rep in range(ctx.scale(2, 20)):
            ents = []
            for _ in range(k):
                i = rng.choice([1, 22, "b", 'q"'])
                # small entries, and entries larger than the fixed -32008 object (so that the space left in the array when the
                # limit is crossed could still hold a per-call 'too big' error: the batch must be replaced as a whole all the same)
                n = rng.choice([0, 1, 5, 17, 120, 260])
                ents.append((i, gen_call(i, "gen", n, "a"), L.ser_str("a" * n), spec_of_unit("a", n)))
            for pos in range(1, k + 1):
                # limit straddling the array at entry position pos
                for d in (-1, 0, 1):
                    out.append((k, d - sum(len(L.response_bytes(i, raw)) + 1 for i, _, raw, _ in ents[pos:]), ents))
    return out


def judge_e2e(ctx, cases):
    res = L.run_srv([c07.public(c) for c in cases])
    mlines, mwhere = [], []
    for c, r in zip(cases, res):
        where = c07.label(c)
        rs = c["rs"]
        ctx.count("e2e:" + where)
        if c["t"] == "ws":
            frames = [L.frame_bytes(x) for x in r.get("replies", [])]
            named = list(zip(c["_exp"], frames + [None] * (len(c["_exp"]) - len(frames))))
            if len(r.get("replies", [])) != len(c["_exp"]) or r.get("extra"):
                ctx.fail("oracle", "e2e-run-incomplete:" + where, c07.public(c), str(r)[:300])
        else:
            body = bytes.fromhex(r.get("body", "")) if r.get("status") else None
            named = [(c["_exp"][0], body)]
            if r.get("status") != 200:
                ctx.fail("oracle", "e2e-http-status:" + where, c07.public(c), str(r)[:300])
        for m, got in named:
            req, kind, exp = m["req"], m["kind"], m["exp"]
            small = dict(c07.public(c))
            if c["t"] == "ws":
                small["msgs"] = [L.seg(req)]
            if got is None:
                ctx.fail("oracle", "e2e-no-reply:" + where, small, "no reply for %r" % req[:120])
                continue
            fe = L.fixed_error_of(got)
            ctx.record({"ep": c["ep"], "t": c["t"], "rs": rs, "req": req[:200].decode("latin1")}, kind + " " + L.digest(got)[:100],
                       nontrivial=(fe is not None or kind in ("batch", "subscribe")))
            if m["mline"]:
                mlines.append(m["mline"])
                mwhere.append((where, small, got))
            # the bound itself, on every frame/body answering a call or batch
            if len(got) > rs and fe is None:
                if kind == "subscribe":
                    key = "subscribe-response-unbounded"
                elif kind == "batch":
                    key = "oversize-batch-sent:" + where
                else:
                    key = "oversize-response-sent:" + where
                ctx.fail("oracle", key, small, "reply of %d bytes > max_response_body_size %d: %r" % (len(got), rs, got[:160]))
                continue
            if fe is not None:
                ctx.count("fixed-error-seen:%d" % fe[0])
            if kind == "subscribe":
                if len(exp) <= rs and got != exp:
                    ctx.fail("oracle", "subscribe-response-altered:" + where, small, {"got": got[:200].decode("latin1"), "want": exp[:200].decode("latin1")})
                continue
            if got != exp:
                key = {"call": "single-not-exact", "batch": "batch-not-exact", "fixed": "fixed-error-bytes"}[kind]
                ctx.fail("oracle", "%s:%s" % (key, where), small, {"got": L.digest(got)[:200], "want": L.digest(exp)[:200]})
    # the same calls through the extracted model
    mout = vlib.run_lines([vlib.model_bin("respsize")], mlines)
    for (where, small, got), line, mo in zip(mwhere, mlines, mout):
        if " ".join(mo.split(" ")[:4]) != L.digest(got):
            ctx.fail("diff", "e2e-model-differs:" + where, small, {"model_line": line[:200], "impl": L.digest(got)[:200], "model": mo[:200]})


def run(ctx):
    ctx.engines = ["respsize (harness/src/bin/respsize.rs, release + debug) vs modelrun/respsize_driver.ml over coq/Model/RespSize.v",
                   "srvlimits (harness/src/bin/srvlimits.rs): every reply frame / body measured against max_response_body_size"]
    run_pure(ctx)
    judge_e2e(ctx, gen_e2e(ctx))
    # the response limit never changes which requests are accepted
    cs = []
    for rq in ctx.scale([100], [64, 100, 2000]):
        base = c07.gen_cases(ctx, pairs=[(rq, rq)])
        for rs in [50, rq, 3 * rq + 1, 10 * 1024 * 1024]:
            cs += [dict(c, rs=rs) for c in base]
    c07.run_and_judge(ctx, cs, prop="C08", only_independence=True)


def replay(payload):
    case = payload["case"]
    print(json.dumps({k: v for k, v in payload.items() if k != "case"}, indent=1)[:2500])
    if isinstance(case, dict) and case.get("engine") == "respsize":
        line = case["line"] + "\n"
        for name, cmd in (("impl(release)", vlib.rust_bin("respsize")), ("impl(debug)", vlib.rust_bin("respsize", "debug")), ("model", vlib.model_bin("respsize"))):
            rc, out = vlib.sh([cmd], input=line)
            print(name, "->", out.strip()[:600])
        return 0
    if isinstance(case, dict) and "ep" in case:
        r = L.run_srv([c07.public(case)])[0]
        print("case:", json.dumps(c07.public(case))[:1500])
        bad = 0
        for x in r.get("replies", []) + ([r["body"]] if r.get("status") else []):
            b = L.frame_bytes(x)
            if b is None:
                print("reply:", x[:100])
                continue
            over = len(b) > case["rs"] and L.fixed_error_of(b) is None
            bad += over
            print("reply (%d bytes, max_response %d)%s: %r" % (len(b), case["rs"], " EXCEEDS THE LIMIT" if over else "", b[:200]))
        print("log:", r.get("log"))
        print("oracle:", "FAILS" if bad else "holds (size bound)")
        return 1 if bad else 0
    print(json.dumps(case)[:2000])
    return 0
