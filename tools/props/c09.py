"""C09 -- on connection failure everything pending fails promptly with the cause."""
import vlib
from props import clihist_common as C
from props._client_family import *  # noqa

TRANSLATORS = ["shutdown_order", "client_dispatch"]     # client_dispatch: Gen/ClientDispatchGen.v (Model/ClientMgr.v interprets the dispatch of handle_recv_message read from the source)
MODELS = ["clihist", "clifault"]
BINS = {"release": ["clihist", "clifault"], "debug": ["clihist", "clifault"]}
DEBUG_IN_QUICK = True
RULE = ("random client histories with a transport fault (receive error, send error) or an offending server frame (garbage, empty "
        "array, response matching nothing pending, ids at the u64 boundary, non-numeric ids in arrays) injected at a random step, on "
        "the release AND the debug build (arithmetic overflow panics); a zoo of extreme frames; a write error on every kind of frame the client writes (call, "
        "notification, batch, subscribe, unsubscribe from unsubscribe()/drop/lagging stream/abandoned subscribe) with other work pending and a "
        "silent receive side; plus the shutdown-protocol engine "
        "clifault (slow transport close, calls issued inside the shutdown window; with ClientBuilder::enable_ws_ping in REAL time: "
        "pending call + batch + subscribe then a silence of limit*(max_failures+2)+2*interval ms -> everything fails with the inactivity "
        "cause, pongs / answers / notifications every 25 ms for longer than that -> stays up and answers everything, a ping that "
        "cannot be written -> send-fault cause, three partly stale silences -> the count is cumulative; max_failures 1..3, three "
        "interval/limit pairs, slow close; cases whose measured gaps left the safe classes are re-run, not judged; "
        "cancel-safety of the receive loop: a mock receiver whose receive() keeps a half-read frame inside the future, answers and "
        "notifications delivered in two halves 2..4 inactivity ticks apart (step backsplit) -> every call completes with the answer "
        "delivered, the client stays connected: keys correct-answer-not-delivered, healthy-connection-torn-down; tied to the source by "
        "the translator fact recv_future_persistent = true, theorem C09_receive_future_persistent).  "
        "Oracle on the implementation alone: no panic, "
        "every pending and every later call/batch/subscribe completes with the disconnect cause (never a placeholder, never "
        "ServiceDisconnect/timeout), on_disconnect reports a classified cause")

ZOO = [b"[]", b"{}", b"", b"   ", b"null", b"1", b"[1]", b"[[]]", b"[{}]", b'{"jsonrpc":"2.0"}', b'[{"id":null,"result":1}]',
       b'[{"id":18446744073709551615,"result":1}]', b'[{"id":18446744073709551614,"result":1}]', b'[{"id":"18446744073709551615","result":1}]',
       b'[{"id":0,"result":1},{"id":18446744073709551615,"result":1}]', b'[{"id":0,"result":1},{"id":18446744073709551614,"result":1}]',
       b'[{"id":1,"result":1},{"id":72057594037927936,"result":1}]', b'[{"id":0,"result":1},{"id":1099511627776,"result":1}]',
       b'[{"id":"0","result":1},{"id":"18446744073709551614","result":1}]', b'[{"id":9223372036854775808,"result":1},{"id":3,"result":1}]', b'[{"id":"x","result":1}]', b'[{"id":"+1","result":1}]',
       b'{"id":1.5,"result":1}', b'{"id":-1,"result":1}', b'{"id":18446744073709551616,"result":1}', b'[{"id":18446744073709551616,"result":1}]',
       b'{"id":0,"result":1,"error":{"code":1,"message":""}}', b'{"id":0}', b"\xff\xfe", b'{"jsonrpc":"2.0","method":"m","params":{"subscription":1,"result":1}}' * 2,
       b"[" * 200 + b"]" * 200, b'{"id":0,"result":' + b"[" * 300 + b"]" * 300 + b"}", b'[{"jsonrpc":"2.0","method":5}]']


def long_multibyte_frames():
    """valid JSON that is not a JSON-RPC message, longer than every plausible echo/log cap, with a multi-byte UTF-8 character
    straddling each round byte offset (whatever the client does with the text of an unparseable message -- echo it in the
    disconnect cause, cut it, log it -- it must not panic and must report the cause)"""
    out = []
    for T in (64, 128, 256, 512, 1000, 1024, 2048, 4096, 8192, 10000, 65536):
        for ch in ("\u00e9", "\u65e5", "\U0001F600"):
            w = len(ch.encode("utf-8"))
            for klen in (1, 2, 3, 4):
                head = ('{"%s":"' % ("k" * klen)).encode()
                n = (T - len(head)) // w + 8
                out.append(head + (ch * n).encode("utf-8") + b'"}')
    return out


def zoo_histories(ctx):
    hs = []
    frames = list(ZOO)
    lm = long_multibyte_frames()
    frames += lm if ctx.thorough else [f for i, f in enumerate(lm) if len(f) < 12000]
    for z in frames:
        for pre in (0, 1, 2):
            H = C.new_hist(ctx.rng, gate=0)
            for _ in range(pre):
                ctx.rng.choice([H.op_call, H.op_batch, H.op_sub])()
            H.back(z, what="bad-garbage")
            H.dead = True
            H.op_call()
            H.add("next 1", kind="next")
            H.clean = False
            H.zoo = True
            hs.append(H)
    return hs


def run(ctx):
    ctx.engines = ["clihist (release + debug)", "clifault"]
    hs = zoo_histories(ctx)
    hs += C.c09_sendfault_histories(ctx.rng)
    hs += random_histories(ctx, ctx.scale(1200, 25000), misbehave_p=0.8, cleanup=False)
    C.run_histories(ctx, hs, ["c09"])
    # debug build: overflow checks on
    import os
    dbg = vlib.rust_bin("clihist", "debug")
    if os.path.exists(dbg):
        nz = sum(1 for H in hs if getattr(H, 'zoo', False))
        sub = hs[:nz] + hs[nz:][:ctx.scale(300, 5000)]
        lines = [H.text() for H in sub]
        rd = vlib.run_lines([dbg], lines, min_shard=20)
        rr = vlib.run_lines([vlib.rust_bin("clihist")], lines, min_shard=20)
        for H, a, b in zip(sub, rd, rr):
            ctx.count("debug-build")
            ctx.evaluations += 1
            if "PANIC" in a or a.startswith("CRASH"):
                ctx.fail("oracle", "client-task-panicked", {"history": H.text()}, a[-300:])
            elif a != b:
                ctx.fail("oracle", "debug-release-differ", {"history": H.text()}, {"debug": a, "release": b})
    from props import clifault_common as CF
    CF.run(ctx)


def replay(payload):
    """histories go to the clihist engines (shared replay), shutdown scripts to the clifault engines"""
    case = payload.get("case")
    if isinstance(case, dict) and "script" in case:
        import json
        from props import clifault_common as CF
        print(json.dumps(payload, indent=1)[:4000])
        CF.replay_case(case)
        return 0
    from props import _client_family as F
    return F.replay(payload)
