"""C10 -- graceful stop answers received calls; `stopped` resolves only when everything is done."""
import json, os, random, re
import vlib

TRANSLATORS = []
MODELS = ["stop"]
BINS = {"release": ["srvstop"]}
RULE = ("cases = scripted stop histories (open HTTP/WS connections, send calls whose handlers park on a gate, "
        "stop()/drop handles at a chosen point, release, observe) run against the real Server on 127.0.0.1:0 and "
        "through the extracted LTS, which prints the SET of fact lines reachable over all interleavings of the "
        "server's internal steps; the implementation's line must be a member (diff) and must satisfy the property "
        "restated on it alone (oracle).  Families: stop inserted at every position of base histories; calls not yet "
        "read / executing / returned-but-unsent / answered at the stop; 0..3 connections, subscriptions open; client "
        "disconnects; second stop, clone/drop of handles, calls sent after `stopped`; back-pressure: "
        "message_buffer_capacity 1 / 2 / default with 3..8 calls executing on one WS connection all released in one step "
        "before or after the stop, client reading normally or paused behind a 4 KiB receive buffer with 2 MiB replies "
        "(the server's writer then really blocks); a few histories that wait for "
        "`stopped` while a handler is parked (must time out); keepalive-short: ServerConfig keep_alive_timeout set to "
        "100/200/300 ms (op T<ms>) and HTTP (and mixed WS) calls whose handlers run for 16..30 x 25 ms after the stop signal, "
        "which must still be completed and answered before `stopped`.  distinct non-trivial = distinct implementation fact "
        "lines with at least one started call or one connection")
TRUSTED = [
    "modelled, not verified: tokio (watch/mpsc/oneshot semantics, task scheduling), hyper's HTTP/1 connection "
    "state machine and its graceful_shutdown, soketto; tied to coq/Model/Stop.v by the differential run only",
    "the model driver's closure over internal steps (modelrun/stop_driver.ml): gates, observer lag and the fact "
    "letters are driver-level bookkeeping outside the Coq model",
    "reply fact `?` (harness): a WS reply not read by a client whose reader ended with an I/O error instead of the server's close frame is "
    "unobservable (a reset after the server closed a socket with unread client data discards unread replies; a pong written into the closed "
    "socket fails the client's receive()); accepted only when the history leaves client data unread on that connection "
    "(reset_explicable: pings on, a call sent after the stop signal, a request whose handler never started), otherwise read as `-`",
    "family back-pressure-writer-blocked (op N: `stopped` must not resolve within 300 ms while 3-4 replies of 8 MiB are queued for a client "
    "that does not read) is generated only when /proc/sys/net/ipv4/tcp_wmem's maximum is at most 6 MiB; late reads (`r`) say nothing in "
    "that family and read `R`",
]
ASSUMPTIONS = [
    "partial: the send task's drain-before-stop (`future::select(rx_item, select(ping, stop))`) relies on select "
    "polling the queue before the stop signal and on tokio scheduling (the cooperative budget gates both leaves "
    "alike); the model's CWriterStop is enabled only on an empty queue, i.e. an item enqueued before "
    "conn_tx.send(()) is assumed observable by the send task's next poll -- argued from the runtime, exercised by "
    "the histories, not exhibited by the model",
    "handlers are assumed to return (CFinish is an internal step): a handler that never returns keeps `stopped` "
    "pending for ever, by design",
    "not modelled: inactivity close (pings are enabled in the family ws-ping-enabled, where the model treats them as no-ops: pongs arriving while calls execute or while the server stops must change nothing), hyper's keep-alive timeout (family keepalive-short sets it to 100..300 ms; the model ignores "
    "the `T` op: the timeout must not shorten a graceful stop), batches, "
    "subscription notifications (an open subscription owns no stop/pending token), HTTP/2, partially read requests, "
    "the WS handshake seam (a WS connection starts in its reader loop)",
    "calls that the reader had not yet taken when the stop signal was observed are NOT run (WS: read and discarded "
    "during graceful shutdown; HTTP: idle connection closed) -- the property only covers handlers already started; "
    "tasks spawned for a client that has since disconnected may start after `stopped` resolved (exempt by the property text)",
    "the bounded sink queue IS modelled (capacity = message_buffer_capacity; a returned call whose reply waits for "
    "room keeps its pending-call token); a client that does not read only delays the model's CWrite step, so waits "
    "for `stopped` are never scripted while the client reader is paused",
    "the model driver gives up (TOOBIG, oracle only) on 6..8 simultaneously released calls",
    "correspondence is set membership: fact letters a/b and </> are taken from a shared sequence counter and may "
    "be skewed by the observer's scheduling; the model driver includes that lag as a step",
]

PARKED_WAIT_S = 4


class Hist:
    """Builder keeping the abstract view needed to emit only waits that can be met."""

    def __init__(self, rng):
        self.rng = rng
        self.ops = []
        self.conns = []      # dicts: kind, alive, busy (http: an unanswered request outstanding)
        self.calls = []      # dicts: conn, started(waited), released, replied(waited), racy
        self.sig = False
        self.watch = False
        self.hh = 1
        self.zdone = False

    def op(self, o):
        self.ops.append(o)

    def conn(self, kind):
        self.op("c" + kind)
        self.conns.append({"kind": kind, "alive": True, "busy": False, "late": self.sig})
        return len(self.conns) - 1

    def send(self, c, wait):
        k = len(self.calls)
        cn = self.conns[c]
        can_wait = wait and cn["alive"] and not self.sig and not cn["late"] and not (cn["kind"] == "h" and cn["busy"])
        self.op("s%d" % c)
        self.calls.append({"conn": c, "started": False, "released": False, "replied": False, "racy": not can_wait})
        if can_wait:
            self.op("a%d" % k)
            self.calls[k]["started"] = True
        if cn["kind"] == "h":
            cn["busy"] = True
        return k

    def release(self, k, wait_fin=False, wait_reply=False):
        cl = self.calls[k]
        if cl["released"]:
            return
        self.op("r%d" % k)
        cl["released"] = True
        alive = self.conns[cl["conn"]]["alive"]
        if cl["started"] and alive and wait_fin:
            self.op("f%d" % k)
        if cl["started"] and alive and wait_reply:
            self.op("y%d" % k)
            cl["replied"] = True
            if self.conns[cl["conn"]]["kind"] == "h":
                self.conns[cl["conn"]]["busy"] = any(
                    (not x["replied"]) for x in self.calls if x["conn"] == cl["conn"])

    def disconnect(self, c):
        if self.conns[c]["alive"]:
            self.op("d%d" % c)
            self.conns[c]["alive"] = False

    def stop(self):
        self.op("S")
        if self.hh > 0:
            self.sig = True

    def parked_live(self):
        return [k for k, cl in enumerate(self.calls) if cl["started"] and not cl["released"] and self.conns[cl["conn"]]["alive"]]

    def can_z(self):
        # racy calls may have started and be parked too: Z is only safe when nothing can be parked
        unreleased = [cl for cl in self.calls if not cl["released"] and self.conns[cl["conn"]]["alive"]]
        return self.watch and self.sig and not unreleased

    def text(self):
        return " ".join(self.ops)


def gen_main(rng, parked=False):
    h = Hist(rng)
    if rng.random() < 0.75:
        h.op("W"); h.watch = True
    nconn = rng.choice([0, 1, 1, 2, 2, 3])
    for _ in range(nconn):
        c = h.conn(rng.choice("hw"))
        if h.conns[c]["kind"] == "w" and rng.random() < 0.25:
            h.op("u%d" % c)
    racy_budget = 2
    # pre-stop traffic
    for c in range(nconn):
        n = rng.choice([0, 1, 1, 2]) if h.conns[c]["kind"] == "w" else rng.choice([0, 1, 1])
        for _ in range(n):
            mode = rng.random()
            if mode < 0.15 and racy_budget > 0:
                racy_budget -= 1
                h.send(c, wait=False)                       # not yet read when the stop comes
            else:
                k = h.send(c, wait=True)
                if not h.calls[k]["started"]:
                    racy_budget -= 1
                r = rng.random()
                if r < 0.2:
                    h.release(k, wait_reply=True)            # answered before the stop
                elif r < 0.4:
                    h.release(k, wait_fin=True)              # returned, reply maybe not yet written
                elif r < 0.5:
                    h.release(k)                             # released right before the stop
    if nconn and rng.random() < 0.15:
        h.disconnect(rng.randrange(nconn))
    if not h.watch and rng.random() < 0.5 and h.hh:
        h.op("W"); h.watch = True
    if rng.random() < 0.3:
        h.op("p")
    # the stop
    mode = rng.random()
    if not h.watch and mode < 0.5:
        if rng.random() < 0.5:
            h.op("C"); h.op("D"); h.op("p")
        h.op("D"); h.hh = 0; h.sig = True                    # dropping every handle stops the server
    else:
        if rng.random() < 0.2:
            h.op("C"); h.hh += 1
        h.stop()
        if rng.random() < 0.3:
            h.stop()
    # after the stop
    if rng.random() < 0.6:
        h.op("p")
    if parked and h.watch and h.parked_live():
        h.op("Z")                                            # must time out: a handler is parked
    if racy_budget > 0 and nconn and rng.random() < 0.25:
        h.send(rng.randrange(nconn), wait=False)             # sent after the stop signal
        racy_budget -= 1
    if racy_budget > 0 and rng.random() < 0.15:
        c = h.conn(rng.choice("hw"))                         # connection attempt while stopping
        h.send(c, wait=False)
    if nconn and rng.random() < 0.25:
        h.disconnect(rng.randrange(nconn))
        if rng.random() < 0.5:
            h.op("p")
    ks = [k for k, cl in enumerate(h.calls) if not cl["released"]]
    rng.shuffle(ks)
    for k in ks:
        if rng.random() < 0.3:
            h.op("p")
        h.release(k, wait_reply=(rng.random() < 0.3 and not h.calls[k]["racy"] and False))
    if h.can_z() and rng.random() < 0.8:
        h.op("Z"); h.zdone = True
        r = rng.random()
        if r < 0.5 and h.hh:
            h.stop()
        if rng.random() < 0.6:
            c = h.conn(rng.choice("hw"))
            h.send(c, wait=False)
        if rng.random() < 0.3:
            live = [i for i, c in enumerate(h.conns) if c["alive"] and not c["late"]]
            if live:
                h.send(rng.choice(live), wait=False)
        if rng.random() < 0.3 and h.hh:
            h.op("D"); h.hh -= 1
    return h.text()


def gen_backpressure(rng, slow=False):
    """k calls executing on one WS connection, all released in one step around the stop, small outgoing buffer."""
    ops = []
    cap = rng.choice([1, 1, 2, None])
    if cap is not None:
        ops.append("B%d" % cap)
    if slow:
        ops.append("P2048")
    ops.append("W")
    k = rng.choice([3, 4]) if slow else rng.choice([3, 3, 4, 5, 6, 8])
    extra_http = (not slow) and rng.random() < 0.25
    ops.append("cW" if slow else "cw")
    if extra_http:
        ops.append("ch")
    ops += ["s0"] * k
    ops += ["a%d" % i for i in range(k)]
    if extra_http:
        ops += ["s1", "a%d" % k]
    if slow:
        ops.append("q0")
    mode = rng.random()
    if mode < 0.55:
        ops += ["S"] + (["p"] if rng.random() < 0.6 else []) + ["A"]            # stop while they run, then all return
    elif mode < 0.8:
        ops += ["A", "S"]                                                        # all return, stop at once
    else:
        ops += ["A", "p", "S"]
    if rng.random() < 0.3:
        ops.append("S")
    if slow:
        ops += ["p", "p", "g0"]
    ops.append("Z")
    if rng.random() < 0.4:
        ops += ["S", "cw", "s%d" % (2 if extra_http else 1)]
    return " ".join(ops)


def gen_insertions(rng):
    """A base history with every call waited for, and the stop inserted at every position."""
    base = []
    kinds = [rng.choice("hw") for _ in range(rng.choice([1, 2]))]
    for kd in kinds:
        base.append("c" + kd)
    k = 0
    plan = []
    for c, kd in enumerate(kinds):
        for _ in range(rng.choice([1, 1, 2]) if kd == "w" else 1):
            plan.append((c, k)); k += 1
    for c, k_ in plan:
        base += ["s%d" % c, "a%d" % k_]
    order = [k_ for _, k_ in plan]
    rng.shuffle(order)
    for k_ in order:
        base += ["r%d" % k_, "f%d" % k_, "y%d" % k_]
    out = []
    for pos in range(1, len(base) + 1):
        pre, post = base[:pos], base[pos:]
        # after the stop only the releases stay (waits for starts of unsent calls cannot be met)
        started = set(int(o[1:]) for o in pre if o[0] == "a")
        sent = len([o for o in pre if o[0] == "s"])
        # a send whose start was not awaited yet is racy; its release stays, waits go
        post2 = [o for o in post if o[0] == "r" and int(o[1:]) < sent]
        tail = ["Z"] if all(("r%d" % k_) in pre + post2 for k_ in range(sent)) else []
        out.append(" ".join(["W"] + pre + ["S"] + (["p"] if rng.random() < 0.5 else []) + post2 + tail + ["S", "ch", "s%d" % len(kinds)]))
    return out


def gen_keepalive(rng):
    """A short hyper keep-alive timeout (T<ms>) and an HTTP call whose handler is still running well after
    stop() + that timeout: it must still be completed and answered, and `stopped` must wait for it."""
    ms = rng.choice([100, 200, 300])
    need = ms // 25                                   # pauses that make up one keep-alive timeout
    long_wait = need + rng.choice([12, 14, 18])       # clearly more than the timeout (16..30 pauses)
    ops = ["T%d" % ms]
    kinds = rng.choice([["h"], ["h"], ["h", "h"], ["h", "w"], ["w", "h"], ["h", "h", "h"], ["h", "w", "h"]])
    if rng.random() < 0.5:
        ops.append("W")
    ops += ["c" + k for k in kinds]
    n = len(kinds)
    ops += ["s%d" % c for c in range(n)] + ["a%d" % k for k in range(n)]
    if "W" not in ops:
        ops.append("W")
    ops.append("S")
    if rng.random() < 0.2:
        ops.append("S")
    order = list(range(n))
    rng.shuffle(order)
    early = rng.random() < 0.3                        # the first gate opens before the timeout expires
    for j, k in enumerate(order):
        if j == 0:
            ops += ["p"] * (max(1, need // 2 - 1) if early else long_wait)
        else:
            ops += ["p"] * rng.choice([0, 1, 3])
        ops += ["r%d" % k, "f%d" % k, "y%d" % k]
        if j == 0 and early and n > 1:
            ops += ["p"] * long_wait
    ops.append("Z")
    if rng.random() < 0.3:
        ops += ["S", "ch", "s%d" % n]
    return " ".join(ops)


FACT = re.compile(r"^stops=([^;]*);stopped=([^;]*);conns=([^;]*);calls=([^;]*);to=([^;]*)(;.*)?$")


def parse(line):
    m = FACT.match(line)
    if not m:
        return None
    lst = lambda s: [] if s == "-" else s.split(",")
    return {"stops": lst(m.group(1)), "stopped": m.group(2), "conns": lst(m.group(3)), "calls": lst(m.group(4)),
            "to": lst(m.group(5)), "extra": m.group(6) or ""}


def normal(a, script=""):
    """A call whose handler never started has no reply to lose: its reply fact `?` (see reset_explicable) reads `-`.
    In the writer-blocked family (op N) up to tcp_wmem bytes of the last reply sit in the kernel when `stopped` resolves and
    the client still has to pull them through a 4 KiB window: a late read (`r`) says nothing there and reads `R`."""
    if "N" in script.split():
        a = re.sub(r"(?<=[=,])([-abc][-<>])r", r"\1R", a)
    return re.sub(r"(?<=[=,])-([-<>])\?", r"-\1-", a) if "?" in a else a


def reset_explicable(script, c, unread_on=None):
    """A reply fact `?` (not read; the client's WS reader ended with an I/O error instead of the server's close frame) is
    accepted as UNOBSERVABLE only when the history itself leaves client data unread on connection c -- pongs (config op
    I<ms>), a call sent after `S`, or a request whose handler never started (unread_on): the server closes a socket with unread input, the kernel answers
    with a reset, and a reset discards what the client had not read yet (and a pong written into the closed socket fails
    the client's receive()).  Otherwise `?` counts as `-`."""
    ops = script.split()
    if any(o[0] == "I" for o in ops):
        return True
    if unread_on is not None and c in unread_on:
        return True          # a request the server never read (handler never started) was sitting in the socket at the close
    if "S" in ops:
        return any(o == "s%d" % c for o in ops[ops.index("S"):])
    return False


def matches_model(script, a, alts):
    """Membership of the implementation's fact line in the model's outcome set; an explicable `?` matches R, r or -."""
    a = normal(a, script)
    if a in alts:
        return True
    f = parse(a)
    if f is None or not any(len(cl) >= 3 and cl[2] == "?" for cl in f["calls"]):
        return False
    call_conn = [int(o[1:]) for o in script.split() if o[0] == "s" and o[1:].isdigit()]
    unread_on = set(call_conn[k] for k, cl in enumerate(f["calls"]) if cl[0] == "-")
    for k, cl in enumerate(f["calls"]):
        if cl[2] == "?" and not reset_explicable(script, call_conn[k], unread_on):
            return False
    pat = re.compile("^" + re.escape(a).replace(re.escape("?"), "[Rr-]") + "$")
    return any(pat.match(x) for x in alts)


def oracle(script, line):
    """The property restated on the implementation's fact line and the script alone.  Returns [(key, detail)]."""
    f = parse(normal(line, script))
    if f is None:
        return [("stop-hung-or-crashed", line)]
    bad = []
    ops = script.split()
    dropped = set(int(o[1:]) for o in ops if o[0] == "d")
    call_conn = [int(o[1:]) for o in ops if o[0] == "s" and o[1:].isdigit()]
    if f["extra"]:
        bad.append(("stop-panic-or-duplicate", f["extra"]))
    # hung: every wait must have been met, except a wait for `stopped` issued while a started handler on a live
    # connection was still parked -- that one MUST time out
    released = set()
    sig = False
    hh, watch = 1, False
    must_timeout = []
    for i, o in enumerate(ops):
        if o[0] == "r":
            released.add(int(o[1:]))
        elif o == "A":
            released.update(range(len([x for x in ops[:i] if x[0] == "s"])))
        elif o == "S" and hh > 0:
            sig = True
        elif o == "W" and hh > 0:
            watch = True
        elif o == "C" and hh > 0:
            hh += 1
        elif o == "D" and hh > 0:
            hh -= 1
            if hh == 0 and not watch:
                sig = True
        elif o == "Z":
            parked = [k for k, c in enumerate(call_conn[:len([x for x in ops[:i] if x[0] == "s"])])
                      if c not in dropped_before(ops, i) and ("a%d" % k) in ops[:i] and k not in released]
            if parked:
                must_timeout.append("Z")
    unread_on = set(call_conn[k] for k, cl in enumerate(f["calls"]) if cl[0] == "-")
    unobs = set(k for k, cl in enumerate(f["calls"]) if cl[2] == "?" and reset_explicable(script, call_conn[k], unread_on))
    exp_to = [t for t in f["to"] if not (t[0] == "y" and t[1:].isdigit() and int(t[1:]) in unobs)]
    for t in must_timeout:
        if t in exp_to:
            exp_to.remove(t)
        else:
            bad.append(("stopped-before-handlers-finished", "`stopped` resolved while a started handler was parked"))
    if "N!" in exp_to:
        exp_to = [t for t in exp_to if t != "N!"]
        bad.append(("stopped-before-replies-written", "`stopped` resolved while replies of finished calls were queued behind a "
                    "client that was not reading (they exceed what the kernel buffers)"))
    if exp_to:
        bad.append(("stop-hung", "timed out: %s" % ",".join(exp_to)))
    if sig and watch and f["stopped"] != "yes":
        bad.append(("stop-hung", "`stopped` never resolved although every handler was released"))
    for k, cl in enumerate(f["calls"]):
        c = call_conn[k]
        live = c not in dropped
        s, fin, r, late = cl[0], cl[1], cl[2], cl.endswith("L")
        if late and s != "-":
            bad.append(("call-after-stopped-executed", "call %d was sent after `stopped` resolved and its handler ran" % k))
        # every call whose handler started on a connection the client kept is answered ...
        if r == "?" and k not in unobs:
            r = "-"
        if live and s != "-" and r == "-":
            bad.append(("started-call-not-answered", "handler of call %d started (%s the stop signal) and the client "
                        "never got a reply" % (k, "before" if s == "a" else "after")))
        # ... and the answer is with the transport before `stopped` is observed
        if live and r == "r":
            bad.append(("answered-after-stopped", "reply to call %d reached the client more than 100 ms after "
                        "`stopped` was observed" % k))
        if live and fin == ">":
            bad.append(("stopped-before-handlers-finished", "call %d returned after `stopped` resolved" % k))
        if live and s == "c":
            bad.append(("call-after-stopped-executed", "handler of call %d started after `stopped` resolved" % k))
    if sig:
        for c, st in enumerate(f["conns"]):
            if st == "o":
                bad.append(("connection-left-open", "connection %d still open after the server stopped" % c))
    # stop twice / after stopped
    zi = [i for i, o in enumerate(ops) if o == "Z"]
    if zi and "Z" not in f["to"] and f["stopped"] == "yes":
        n_before = len([o for o in ops[:zi[-1]] if o == "S"])
        for r in f["stops"][n_before:]:
            if r == "ok":
                bad.append(("stop-after-stopped-ok", "stop() returned Ok after `stopped` resolved"))
    return bad


def dropped_before(ops, i):
    return set(int(o[1:]) for o in ops[:i] if o[0] == "d")


def gen_cases(ctx):
    rng = ctx.rng
    cases = []
    fixed = [
        "W S", "S S", "D", "W S Z S", "C D D", "W C D S Z",
        "cw W s0 a0 S p r0 Z S ch s1", "ch W s0 a0 S p r0 Z S cw s1",
        "cw ch W s0 s1 a0 a1 S p r1 p r0 Z", "cw W s0 a0 r0 f0 S Z", "ch W s0 a0 r0 f0 S Z",
        "cw W s0 a0 S p d0 p r0", "ch W s0 a0 S p d0 p r0", "cw W s0 a0 d0 p S", "cw u0 W s0 a0 S S r0 Z S D",
        "cw s0 a0 D p r0", "cw W s0 S", "ch W s0 S", "ch W s0 a0 s0 S p r0 r1", "cw W s0 a0 S s0 p r0 r1",
        "W S Z ch s0 cw s1", "cw cw cw W s0 s1 s2 a0 a1 a2 S r2 r1 r0 Z",
        "B1 cw W s0 s0 s0 a0 a1 a2 S p A Z", "B1 cw W s0 s0 s0 s0 s0 s0 s0 s0 a0 a1 a2 a3 a4 a5 a6 a7 S p A Z",
        "B2 cw W s0 s0 s0 s0 a0 a1 a2 a3 A S Z", "B1 P2048 cW W s0 s0 s0 a0 a1 a2 q0 S p A p p g0 Z",
        "B1 cw W s0 s0 s0 a0 a1 a2 A S Z",
    ]
    for t in fixed:
        cases.append((t, "fixed"))
    for _ in range(ctx.scale(600, 14000)):
        cases.append((gen_main(rng), "random"))
    for _ in range(ctx.scale(20, 400)):
        for t in gen_insertions(rng):
            cases.append((t, "stop-at-each-point"))
    for _ in range(ctx.scale(70, 900)):
        cases.append((gen_backpressure(rng), "back-pressure"))
    for _ in range(ctx.scale(8, 60)):
        cases.append((gen_backpressure(rng, slow=True), "back-pressure-slow-client"))
    # a long backlog of answered-but-unsent replies when the close signal reaches the connection's writer: 17..31 calls on one
    # WS connection whose handlers return in one step around the stop (the model's outcome set is too large to enumerate for
    # these: they are judged by the oracle alone)
    for k in ctx.scale([17, 24, 31], [17, 18, 20, 24, 28, 31]):
        for variant in ctx.scale(["S p A", "A S"], ["S p A", "S A", "A S", "A p S"]):
            for pre in ("", "B4 ", "P64 "):
                cases.append(("%scw W %s %s %s Z" % (pre, " ".join(["s0"] * k), " ".join("a%d" % i for i in range(k)), variant), "long-backlog"))
    # an HTTP call that is answered but whose (large) response is still being written when the stop signal comes: the client is
    # not reading, nothing else is in flight anywhere on the server; the answer must still arrive in full before `stopped`
    for pad in ctx.scale([6144, 8192, 12288], [4096, 6144, 8192, 12288, 16384, 24576]):
        cases.append(("P%d ch W s0 a0 q0 r0 f0 p p S p p g0 y0 Z" % pad, "http-answered-unsent"))
        cases.append(("P%d ch W s0 a0 q0 r0 f0 p S S p g0 y0 Z" % pad, "http-answered-unsent"))
        cases.append(("P%d ch ch W s0 a0 q0 r0 f0 p p S p s1 p g0 y0 Z" % pad, "http-answered-unsent"))
    cases.append(("P256 cW W %s %s q0 S p A p p g0 Z" % (" ".join(["s0"] * 20), " ".join("a%d" % i for i in range(20))), "long-backlog"))
    for _ in range(ctx.scale(6, 60)):
        for _try in range(50):
            t = gen_main(rng, parked=True)
            if " Z" in t and any(o == "Z" for o in t.split()):
                cases.append((t, "parked-wait"))
                break
    # WebSocket pings enabled (interval 20 ms; a pause is 25 ms): pongs keep arriving while calls execute and while the
    # server is stopping; they must change nothing (the model ignores `I`)
    def with_ping(t):
        ops = []
        for o in t.split():
            ops += [o, "p"] if o == "p" else [o]
        return " ".join(["I20"] + ops)
    pinged = [with_ping(t) for t in fixed if "cw" in t.split() and "p" in t.split()]
    pinged += ["I20 cw W s0 a0 S p p p p r0 y0 Z", "I20 cw ch W s0 s1 a0 a1 S p p p r1 y1 p p r0 y0 Z", "I10 cw u0 W s0 a0 S p p p p r0 Z",
               "I20 B1 cw W s0 s0 s0 a0 a1 a2 S p p p A Z"]
    for _ in range(ctx.scale(60, 1500)):
        t = gen_main(rng)
        if "cw" in t.split() and "S" in t.split() and "p" in t.split():
            pinged.append(with_ping(t))
    for t in pinged:
        cases.append((t, "ws-ping-enabled"))
    # hyper's keep-alive timeout set to 100..300 ms and handlers (started before the stop) that keep running for much
    # longer than that after the stop signal: the timeout must have no effect (the model ignores `T`)
    P = lambda n: " ".join(["p"] * n)
    for ms, n in ((100, 16), (200, 22), (300, 28)):
        cases.append(("T%d ch W s0 a0 S %s r0 f0 y0 Z" % (ms, P(n)), "keepalive-short"))
        cases.append(("T%d cw ch W s0 s1 a0 a1 S %s r1 f1 y1 r0 f0 y0 Z" % (ms, P(n)), "keepalive-short"))
        cases.append(("T%d ch ch W s0 s1 a0 a1 S p p r0 f0 y0 %s r1 f1 y1 Z" % (ms, P(n)), "keepalive-short"))
    for _ in range(ctx.scale(12, 150)):
        cases.append((gen_keepalive(rng), "keepalive-short"))
    # replies far larger than what the kernel can buffer (8 MiB each; tcp_wmem max is read below) queued for a client that
    # does not read: the writer is blocked, so `stopped` must NOT resolve (op N) until the client reads again (g0)
    try:
        wmem_max = int(open("/proc/sys/net/ipv4/tcp_wmem").read().split()[2])
    except Exception:
        wmem_max = None
    if wmem_max is not None and wmem_max <= 6 * 1024 * 1024:
        for cap in ("", "B1 ", "B2 "):
            for k in (3, 4):
                pre = "%sP8192 W cW %s %s q0" % (cap, " ".join(["s0"] * k), " ".join("a%d" % i for i in range(k)))
                for mid in ("S A", "A S", "S p A", "A p S S"):
                    cases.append(("%s %s p p N g0 Z" % (pre, mid), "back-pressure-writer-blocked"))
        if ctx.tier != "thorough":
            rr = random.Random(ctx.seed * 31 + 10)
            keep = [c for c in cases if c[1] == "back-pressure-writer-blocked"]
            rr.shuffle(keep)
            drop = set(t for t, _ in keep[8:])
            cases = [c for c in cases if c[0] not in drop]
    seen, out = set(), []
    for t, tag in cases:
        if t not in seen:
            seen.add(t)
            out.append((t, tag))
    return out


def impl_bin():
    """VERIF_SRVSTOP_BIN overrides the implementation binary (a harness copy built against another tree)."""
    return os.environ.get("VERIF_SRVSTOP_BIN") or vlib.rust_bin("srvstop")


def run(ctx):
    ctx.engines = ["srvstop (harness/src/bin/srvstop.rs: real Server, loop-back TCP) vs stop (modelrun/stop_driver.ml over coq/Model/Stop.v, set of outcomes)"]
    impl, model = impl_bin(), vlib.model_bin("stop")
    cases = gen_cases(ctx)
    lines = [t for t, _ in cases]
    # 6..8 calls returning in one step: the driver's closure exceeds its state cap, do not even try
    small = [i for i, l in enumerate(lines) if not ("A" in l.split() and len([o for o in l.split() if o[0] == "a"]) >= 6)]
    rm_small = vlib.run_lines([model], [lines[i] for i in small], min_shard=40)
    rm = ["TOOBIG"] * len(lines)
    for i, r in zip(small, rm_small):
        rm[i] = r
    ri = vlib.run_lines([impl], lines, min_shard=4, timeout=1200)
    for (script, tag), a, b in zip(cases, ri, rm):
        ctx.count(tag)
        f = parse(a)
        nontrivial = bool(f and (f["conns"] or any(c[0] != "-" for c in f["calls"])))
        if b == "TOOBIG":
            ctx.count("model-state-cap-hit (oracle only)")
            ctx.record(script, a, nontrivial=nontrivial, validated=False)
        else:
            ctx.record(script, a, nontrivial=nontrivial)
            alts = b.split(" | ")
            ctx.count("model-outcomes-%s" % ("1" if len(alts) == 1 else "2-4" if len(alts) <= 4 else "5+"))
            if not matches_model(script, a, alts):
                ctx.fail("diff", "stop-model-differs", {"script": script}, {"impl": a, "model": alts[:12]})
        if f:
            for cl in f["calls"]:
                ctx.count("call:" + cl)
            if any(cl[2] == "?" for cl in f["calls"]):
                ctx.count("reply-unobservable (client reader ended by an I/O error before the close frame)")
        for key, detail in oracle(script, a):
            ctx.fail("oracle", key, {"script": script}, {"impl": a, "why": detail})


def replay(payload):
    case = payload["case"]
    print(json.dumps(payload, indent=1)[:3000])
    script = case["script"] if isinstance(case, dict) else str(case)
    for i in range(5):
        rc, out = vlib.sh([impl_bin()], input=script + "\n")
        line = out.strip().split("\n")[-1]
        print("impl[%d] ->" % i, line, "| oracle:", oracle(script, line) or "ok")
    rc, out = vlib.sh([vlib.model_bin("stop")], input=script + "\n")
    print("model ->", out.strip())
    return 0
