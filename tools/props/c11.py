"""C11 -- connections never exceed max_connections and slots are reused (server ConnectionGuard)."""
import itertools, json, os
import vlib

TRANSLATORS = ["connguard"]
MODELS = ["connguard"]
BINS = {"release": ["connguard"]}
RULE = ("cases = scripts (limit 0..3, mode both/http-only/ws-only/both-with-ws-ping, a list of socket-level steps: open / body / release / "
        "reset / FIN / GET / burst for HTTP, open / bad handshake / early reset / call / release / close / reset / FIN / "
        "invalid frame / close+reset / go silent until the server's ping-pong inactivity close (with and without a parked call) "
        "for WebSocket) run against a real jsonrpsee_server::Server on 127.0.0.1:0 and replayed "
        "on the extracted Coq model; after every step the HTTP status read off the socket, "
        "ConnectionGuard::available_connections() and the number of handler invocations are compared.  Every script ends "
        "by closing everything and then filling the limit again (max opens served, one more refused).  Generated from: "
        "all sequences up to length 3 (thorough: 4) over 12 abstract operations for limits 1 and 2, random scripts over "
        "limits 0..3 and the three modes, and repetition scripts (one exit path cycled many times).  distinct non-trivial "
        "= distinct result lines in which at least one attempt was refused with 429")
TRUSTED = [
    "translator tools/translators/connguard.py (regex reader of server/src/server.rs, transport/http.rs, transport/ws.rs, future.rs: "
    "status constants and the acquire / move / drop anchors of the permit), cross-checked by the differential run",
    "modelled, not verified: tokio::sync::Semaphore (try_acquire_owned / permit drop = counter -1 / +1), hyper's decision to "
    "drop a service future or fail an upgrade, soketto's handshake verdict; tied by the differential run only",
    "the harness reads the slot counter through the ConnectionGuard clone the server puts into request extensions "
    "(captured by a warm-up call); the wait after each step is bounded (2.5 s) and guided by a hint computed in Python",
]
ASSUMPTIONS = [
    "partial: WHEN a slot comes back after a peer reset / FIN is decided by hyper and tokio (the service future or the "
    "spawned session task is dropped some time after the socket event); the model has the release step but not its "
    "timing, and the harness waits up to 2.5 s for the counter to reach the expected value before reporting it",
    "partial: the branch `hyper::upgrade::on(..) -> Err` (reset between the 101 and the protocol switch) is in the model and "
    "the proofs; on the real side it can only be raced for (step `we`), the run cannot tell which branch was taken -- "
    "both must and do give the slot back",
    "one attempt = one HTTP request on its own TCP connection (no keep-alive reuse, no HTTP/2 multiplexing in the scripts); "
    "the model itself counts requests, not TCP connections, exactly like the code",
    "ConnectionState is never cloned on the server's own paths (the Arc around the permit has one owner); users of the "
    "low-level API who clone it are outside the model",
    "server stop (graceful shutdown of sessions) is C10's subject; here sessions end by peer close / reset / protocol error",
    "limit 0: the guard handle cannot be captured (no call is ever served), only statuses and handler counts are compared",
]

HTTP_OPEN, WS_OPEN = ("ho", "hg", "hu"), ("wo", "wb", "we", "w0")


class Script:
    """Builds a script and the wait hints.  The bookkeeping here is the property restated naively
    (free slots = max - live connections); it only tells the harness what to wait for."""

    def __init__(self, mx, mode):
        self.mx, self.mode = mx, mode
        self.http = {}          # id -> 'partial' | 'parked'
        self.ws = set()
        self.dead = []          # ids that are finished or were refused
        self.n = 0
        self.toks = []
        self.final_at = None

    @property
    def free(self):
        return self.mx - len(self.http) - len(self.ws)

    def tok(self, op, i, hint, k=None):
        self.toks.append("%s.%d.%s" % (op, i, hint) + ("" if k is None else ".%d" % k))

    def op(self, op, i=None, k=2):
        f = self.free
        http_on, ws_on = self.mode != "ws", self.mode != "http"
        if op == "wi":
            assert self.mode == "ping"
        if op in ("ho", "hg", "wo", "wb", "we", "w0", "hu"):
            i = self.n
            self.n += k if op == "hu" else 1
        if op == "ho":
            if f > 0 and http_on:
                self.http[i] = "partial"
                self.tok(op, i, "a%d" % (f - 1))
            else:
                self.dead.append(i)
                self.tok(op, i, "s%d" % f)
        elif op == "hg":
            self.dead.append(i)
            self.tok(op, i, "s%d" % f)
        elif op == "hu":
            self.dead.extend(range(i, i + k))
            self.tok(op, i, "a%d" % f, k)
        elif op == "wo":
            if f > 0 and ws_on:
                self.ws.add(i)
                self.tok(op, i, "s%d" % (f - 1))
            else:
                self.dead.append(i)
                self.tok(op, i, "s%d" % f)
        elif op == "wb":
            self.dead.append(i)
            self.tok(op, i, "s%d" % f)
        elif op in ("we", "w0"):
            self.dead.append(i)
            self.tok(op, i, "a%d" % f)
        elif op == "hb":
            if self.http.get(i) == "partial":
                self.http[i] = "parked"
            self.tok(op, i, "a%d" % f)
        elif op == "hr":
            if self.http.get(i) == "parked":
                del self.http[i]
                self.dead.append(i)
                self.tok(op, i, "s%d" % (f + 1))
            else:
                self.tok(op, i, "a%d" % f)
        elif op in ("ha", "hf", "hx"):
            if i in self.http:
                del self.http[i]
                self.dead.append(i)
                self.tok(op, i, "a%d" % (f + 1))
            else:
                self.tok(op, i, "a%d" % f)
        elif op in ("wc", "wr"):
            self.tok(op, i, "a%d" % f)
        elif op in ("wl", "wg", "wa", "wf", "wx", "wi"):
            if i in self.ws:
                self.ws.discard(i)
                self.dead.append(i)
                self.tok(op, i, "a%d" % (f + 1))
            else:
                self.tok(op, i, "a%d" % f)
        else:
            raise ValueError(op)
        return i

    def close_all(self, rng):
        for i in sorted(self.http):
            if self.http[i] == "parked":
                self.op(rng.choice(["hr", "hr", "hr", "ha", "ha", "hx", "hx", "hf"]), i)
            else:
                self.op(rng.choice(["ha", "ha", "ha", "hf"]), i)
        for i in sorted(self.ws):
            self.op(rng.choice(["wl", "wl", "wl", "wa", "wa", "wg", "wx", "wf"] + (["wi"] * 4 if self.mode == "ping" else [])), i)

    def final(self, rng):
        """everything closed; now `max` fresh connections must be served and one more refused"""
        self.close_all(rng)
        self.final_at = len(self.toks)
        kinds = [k for k in ("h", "w") if (k == "h" and self.mode != "ws") or (k == "w" and self.mode != "http")]
        for _ in range(self.mx):
            if rng.choice(kinds) == "h":
                i = self.op("ho")
                if rng.random() < 0.5:
                    self.op("hb", i)
            else:
                self.op("wo")
        self.op(rng.choice(["ho", "hg", "wo", "wb"]))
        self.close_all(rng)

    def line(self):
        return "%d %s %s" % (self.mx, self.mode, " ".join(self.toks))


ABSTRACT = ["ho", "hg", "wo", "wb", "we", "w0", "hb-new", "hr-old", "ha-old", "wl-old", "wa-new", "wc-new", "hu"]
ABSTRACT_PING = ["ho", "wo", "hb-new", "hr-old", "wc-new", "wi-old", "wi-new", "wg-old", "wl-old"]


def apply_abstract(s, a, rng):
    if a in ("ho", "hg", "wo", "wb", "we", "w0"):
        s.op(a)
    elif a == "hu":
        s.op("hu", k=rng.choice([2, 3, 4]))
    elif a == "hb-new":
        c = [i for i in s.http if s.http[i] == "partial"]
        s.op("hb", max(c) if c else (s.dead[-1] if s.dead else 0))
    elif a == "hr-old":
        c = [i for i in s.http if s.http[i] == "parked"]
        s.op("hr", min(c) if c else (s.dead[0] if s.dead else 0))
    elif a == "ha-old":
        s.op(rng.choice(["ha", "ha", "ha", "hf"]), min(s.http) if s.http else (s.dead[0] if s.dead else 0))
    elif a == "wl-old":
        s.op(rng.choice(["wl", "wg"]), min(s.ws) if s.ws else (s.dead[0] if s.dead else 0))
    elif a == "wa-new":
        s.op(rng.choice(["wa", "wa", "wx", "wx", "wf"]), max(s.ws) if s.ws else (s.dead[-1] if s.dead else 0))
    elif a in ("wi-old", "wi-new"):
        pick = min if a == "wi-old" else max
        s.op("wi", pick(s.ws) if s.ws else (s.dead[0] if s.dead else 0))
    elif a == "wg-old":
        s.op("wg", min(s.ws) if s.ws else (s.dead[0] if s.dead else 0))
    elif a == "wc-new":
        s.op("wc", max(s.ws) if s.ws else (s.dead[-1] if s.dead else 0))


def random_script(rng, mx, mode, length):
    s = Script(mx, mode)
    for _ in range(length):
        r = rng.random()
        live_h, live_w = list(s.http), list(s.ws)
        if r < 0.38 or not (live_h or live_w):
            s.op(rng.choice(["ho", "ho", "ho", "wo", "wo", "wo", "hg", "wb", "we", "w0", "hu" if mode != "ws" else "ho"]), k=rng.choice([2, 3, 5]))
        elif r < 0.43 and s.dead:
            # a step addressed to a finished / refused attempt: must be a no-op on both sides
            s.op(rng.choice(["hb", "hr", "ha", "wc", "wr", "wl", "wa"]), rng.choice(s.dead))
        elif live_h and (not live_w or rng.random() < 0.5):
            i = rng.choice(live_h)
            if s.http[i] == "partial":
                s.op(rng.choice(["hb", "hb", "hb", "ha", "hf"]), i)
            else:
                s.op(rng.choice(["hr", "hr", "hr", "ha", "hf", "hx"]), i)
        else:
            i = rng.choice(live_w)
            s.op(rng.choice(["wc", "wc", "wr", "wl", "wa", "wf", "wg", "wx"] + (["wi", "wi", "wi"] if mode == "ping" else [])), i)
    s.final(rng)
    return s


EXIT_PATHS = ["hr", "ha-partial", "ha", "hf", "hx", "hg", "hu", "wb", "we", "w0", "wl", "wa", "wf", "wg", "wx", "wa-midcall",
              "wg-midcall", "wl-midcall", "refused"]
PING_PATHS = ["wi", "wi-midcall", "wi-released"]   # server's inactivity close: idle session / call parked / call finished


def cycle_script(rng, mx, path, cycles):
    """fill the limit, get one refusal, leave by `path`; repeated"""
    s = Script(mx, "ping" if path in PING_PATHS else "both")
    for _ in range(cycles):
        if path in ("hg", "wb", "we", "w0", "hu"):
            s.op(path, k=mx + 1)
            continue
        ids = []
        for _ in range(max(mx, 1)):
            if path.startswith("h") or (path == "refused" and rng.random() < 0.5):
                i = s.op("ho")
                if path not in ("ha-partial",) and i in s.http:
                    s.op("hb", i)
                ids.append(("h", i))
            else:
                i = s.op("wo")
                if path.endswith("-midcall") and i in s.ws:
                    s.op("wc", i)
                if path == "wi-released" and i in s.ws:
                    s.op("wc", i)
                    s.op("wr", i)
                ids.append(("w", i))
        s.op(rng.choice(["ho", "wo", "hg"]))   # the refused one
        for kind, i in ids:
            if kind == "h":
                s.op({"hr": "hr", "ha-partial": "ha", "ha": "ha", "hf": "hf", "hx": "hx"}.get(path, "hr"), i)
            else:
                s.op({"wl": "wl", "wa": "wa", "wf": "wf", "wg": "wg", "wx": "wx", "wa-midcall": "wa", "wg-midcall": "wg",
                      "wl-midcall": "wl", "wi": "wi", "wi-midcall": "wi", "wi-released": "wi"}.get(path, "wl"), i)
    s.final(rng)
    return s


def gen_cases(ctx):
    rng = ctx.rng
    cases = []
    # (1) all short sequences over the abstract operations
    L = 4 if ctx.thorough else 3
    for mx in (1, 2):
        for n in range(1, L + 1):
            for seq in itertools.product(ABSTRACT, repeat=n):
                if n == 4 and mx == 1 and rng.random() < 0.5:
                    continue
                s = Script(mx, "both")
                for a in seq:
                    apply_abstract(s, a, rng)
                s.final(rng)
                cases.append(("exhaustive-len%d" % n, s))
    # (1b) ws ping enabled: short sequences around the server's inactivity close (each `wi` costs ~0.45 s of wall time)
    for mx in (1, 2):
        for n in range(1, (3 if ctx.thorough else 2) + 1):
            for seq in itertools.product(ABSTRACT_PING, repeat=n):
                if "wi-old" not in seq and "wi-new" not in seq:
                    continue
                if n == 3 and rng.random() < 0.75:
                    continue
                s = Script(mx, "ping")
                s.op("wo")
                for a in seq:
                    apply_abstract(s, a, rng)
                s.final(rng)
                cases.append(("ping-exhaustive-len%d" % n, s))
    # (2) random scripts
    for _ in range(ctx.scale(3000, 12000)):
        mx = rng.choice([0, 1, 1, 2, 2, 3, 3])
        mode = rng.choice(["both"] * 4 + ["http", "ws"])
        cases.append(("random-%s" % mode, random_script(rng, mx, mode, rng.randint(3, 28))))
    for _ in range(ctx.scale(60, 600)):
        mx = rng.choice([1, 1, 2, 2, 3])
        cases.append(("random-ping", random_script(rng, mx, "ping", rng.randint(3, 16))))
    # (3) repetition: one exit path cycled
    reps, cyc = ctx.scale((4, 25), (64, 200))
    for path in EXIT_PATHS:
        for mx in (1, 2, 3):
            for _ in range(reps if mx < 3 else max(1, reps // 2)):
                cases.append(("cycle-" + path, cycle_script(rng, mx, path, cyc)))
        cases.append(("cycle-" + path, cycle_script(rng, 0, path, 3)))
    preps, pcyc = ctx.scale((2, 3), (8, 25))
    for path in PING_PATHS:
        for mx in (1, 2, 3):
            for _ in range(preps):
                cases.append(("cycle-" + path, cycle_script(rng, mx, path, pcyc)))
    return cases


def split_uncovered(line):
    parts = line.split()
    if parts and parts[-1][:1] == "X" and parts[-1][1:].isdigit():
        return " ".join(parts[:-1]), int(parts[-1][1:])
    return line, 0


def parse_result(line, n):
    parts = line.split()
    if len(parts) != n:
        return None
    out = []
    for p in parts:
        f = p.split(":")
        if len(f) != 3:
            return None
        out.append(f)
    return out


def oracle(mx, mode, toks, res, final_at):
    """The property on the implementation's outputs alone.  Returns a list of (key, detail)."""
    bad = []
    live = {}              # id -> 'h-partial' | 'h-parked' | 'w'
    refused = set()
    h_prev = 0
    for idx, (tok, (st, av, h)) in enumerate(zip(toks, res)):
        f = tok.split(".")
        op, i = f[0], int(f[1])
        k = int(f[3]) if len(f) > 3 else 0
        h = int(h)
        before = len(live)
        if st in ("T", "EOF") or st.startswith("?"):
            bad.append(("stuck:" + op, "step %d %s: %s" % (idx, tok, st)))
            return bad
        if idx == final_at and (before != 0):
            bad.append(("limit-not-reachable-again", "connections still live when the refill starts"))
        want_h = h_prev
        if op in ("ho", "hg", "wo", "wb"):
            served_codes = {"ho": ("-",), "hg": ("405",), "wo": ("101",), "wb": ("200",)}[op]
            if st == "429":
                refused.add(i)
                if before < mx:
                    bad.append(("refused-below-limit", "step %d %s: 429 with %d of %d slots in use" % (idx, tok, before, mx)))
            elif st == "403":
                enabled = (mode != "ws") if op in ("ho", "hg") else (mode != "http")
                if enabled:
                    bad.append(("unexpected-status", "step %d %s: 403 although the transport is enabled" % (idx, tok)))
                if before >= mx:
                    bad.append(("served-beyond-limit", "step %d %s: reached the service with %d of %d slots in use" % (idx, tok, before, mx)))
            elif st in served_codes:
                if before >= mx:
                    bad.append(("served-beyond-limit", "step %d %s: served with %d of %d slots in use" % (idx, tok, before, mx)))
                if op == "ho":
                    live[i] = "h-partial"
                elif op == "wo":
                    live[i] = "w"
            else:
                bad.append(("unexpected-status", "step %d %s: %s" % (idx, tok, st)))
        elif op == "hu":
            n429 = int(st[1:]) if st.startswith("b") else -1
            room = max(mx - before, 0)
            # (never generated in ws-only mode: there a POST takes a slot, is answered 403 and returns it at once,
            #  so how many of a burst meet a full server is a matter of scheduling)
            if n429 != max(k - room, 0):
                bad.append(("served-beyond-limit" if n429 < k - room else "refused-below-limit",
                            "step %d %s: %d of %d refused with %d slots free" % (idx, tok, n429, k, room)))
            if n429 > 0 and h != h_prev:
                bad.append(("handler-ran-for-refused", "step %d %s" % (idx, tok)))
        elif op == "hb":
            if live.get(i) == "h-partial":
                live[i] = "h-parked"
                want_h = h_prev + 1
        elif op == "hr":
            if live.get(i) == "h-parked":
                del live[i]
                if st != "200":
                    bad.append(("unexpected-status", "step %d %s: %s" % (idx, tok, st)))
        elif op in ("ha", "hf", "hx"):
            if live.get(i, "").startswith("h"):
                del live[i]
        elif op == "wc":
            if live.get(i) == "w":
                want_h = h_prev + 1
        elif op in ("wl", "wg", "wa", "wf", "wx"):
            if live.get(i) == "w":
                del live[i]
        elif op == "wi":
            # the client went silent; the server is to close the session for inactivity and -- whatever its handlers
            # are doing -- the slot is to come back within the bounded wait (checked below through `av`)
            if live.get(i) == "w":
                del live[i]
                server_closed = (st == "c")
                slot_back = (av == "?" or int(av) >= mx - len(live))
                if not server_closed and slot_back:
                    bad.append(("stuck:wi", "step %d %s: the server did not close the silent session within the bounded wait" % (idx, tok)))
        if h != want_h:
            key = "handler-ran-for-refused" if i in refused else "handler-count"
            bad.append((key, "step %d %s: handler invocations %d -> %d, expected %d" % (idx, tok, h_prev, h, want_h)))
        h_prev = h
        if len(live) > mx:
            bad.append(("served-beyond-limit", "step %d %s: %d connections served, limit %d" % (idx, tok, len(live), mx)))
        if av != "?":
            if int(av) < mx - len(live):
                bad.append(("slot-leak", "step %d %s: %s slots free, %d connections live, limit %d" % (idx, tok, av, len(live), mx)))
            elif int(av) > mx - len(live):
                bad.append(("slot-overfree", "step %d %s: %s slots free, %d connections live, limit %d" % (idx, tok, av, len(live), mx)))
    if live:
        bad.append(("limit-not-reachable-again", "script ended with live connections (generator error)"))
    return bad


def norm_model(line, mx):
    if mx == 0:   # the guard handle is never seen by the harness at limit 0
        return " ".join(":".join([f.split(":")[0], "?", f.split(":")[2]]) for f in line.split())
    return line


def impl_bin():
    """VERIF_CONNGUARD_BIN overrides the implementation-side binary (a harness built against another tree)."""
    return os.environ.get("VERIF_CONNGUARD_BIN") or vlib.rust_bin("connguard")


def evaluate(ctx, cases, impl, model):
    lines = [s.line() for _, s in cases]
    ri = vlib.run_lines([impl], lines, shards=vlib.NCPU, min_shard=4, timeout=3000)
    rm = vlib.run_lines([model], lines, min_shard=200)
    steps = 0
    for (tag, s), a, b in zip(cases, ri, rm):
        ctx.count(tag)
        ctx.count("limit-%d" % s.mx)
        for t in s.toks:
            ctx.count("op-" + t.split(".")[0])
        steps += len(s.toks)
        case = {"line": s.line(), "final_at": s.final_at}
        # trailing `X<n>`: steps after which more HTTP handlers were alive than slots in use (the model has no such state:
        # in ConnGuard.v a handler exists only inside its request's slot)
        a, uncovered = split_uncovered(a)
        if uncovered:
            ctx.fail("oracle", "handler-running-without-slot", case,
                     "after %d step(s) more HTTP method handlers were still running than connection slots were in use: %s" % (uncovered, a))
        b = norm_model(b, s.mx)
        refusals = any(f.startswith("429") or (f.startswith("b") and not f.startswith("b0:")) for f in a.split())
        ctx.record(case, a, nontrivial=refusals)
        if a != b:
            ctx.fail("diff", "connguard-model-differs", case, {"impl": a, "model": b})
        if a.startswith("T-warmup "):
            ctx.fail("oracle", "stuck:warmup", case, "after the warm-up call the slot counter did not return to max within the bounded wait")
            a = a[len("T-warmup "):]
        res = parse_result(a, len(s.toks))
        if res is None:
            ctx.fail("oracle", "stuck:case", case, a[:300])
            continue
        for key, detail in oracle(s.mx, s.mode, s.toks, res, s.final_at):
            ctx.fail("oracle", key, case, detail)
    return steps


def run(ctx):
    ctx.engines = ["connguard (harness/src/bin/connguard.rs over a real Server on loop-back TCP vs modelrun/connguard_driver.ml over coq/Model/ConnGuard.v)"]
    impl, model = impl_bin(), vlib.model_bin("connguard")
    cases = gen_cases(ctx)
    ctx.rng.shuffle(cases)      # long and short scripts evenly over the worker processes
    # a pilot slice first: on a broken server every step runs into its bounded wait, so when the pilot already
    # fails the bulk is not run (the failing inputs are in hand)
    stride = max(1, len(cases) // 160)
    pilot, bulk = cases[::stride], [c for k, c in enumerate(cases) if k % stride]
    steps = evaluate(ctx, pilot, impl, model)
    if any(f["kind"] in ("oracle", "diff") for f in ctx.failures):
        ctx.note("pilot slice (%d cases) failed; remaining %d cases not run" % (len(pilot), len(bulk)))
    else:
        steps += evaluate(ctx, bulk, impl, model)
    ctx.count("steps-total", steps)
    ctx.extra["steps_executed_on_real_server"] = steps


def replay(payload):
    case = payload["case"]
    print(json.dumps(payload, indent=1)[:3000])
    if isinstance(case, dict) and "line" in case:
        line = case["line"] + "\n"
        outs = {}
        for name, cmd in (("impl", impl_bin()), ("model", vlib.model_bin("connguard"))):
            rc, out = vlib.sh([cmd], input=line)
            outs[name] = out.strip()
            print(name, "->", out.strip())
        outs["impl"], unc = split_uncovered(outs["impl"])
        if unc:
            print("oracle -> handler-running-without-slot (%d steps)" % unc)
        toks = case["line"].split()[2:]
        mx, mode = int(case["line"].split()[0]), case["line"].split()[1]
        res = parse_result(outs["impl"], len(toks))
        verdict = oracle(mx, mode, toks, res, case.get("final_at")) if res else [("stuck:case", outs["impl"])]
        print("oracle ->", verdict or "holds")
        print("diff   ->", "none" if outs["impl"] == norm_model(outs["model"], mx) else "model and implementation differ")
    return 0
