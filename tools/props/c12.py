"""C12 -- batch results are positional (WebSocket client via clihist; HTTP client via httpbatch)."""
import os
import vlib
from props import clihist_common as C
from props._client_family import *  # noqa

TRANSLATORS = ["http_gate", "sniff", "client_dispatch", "id_alloc"]     # id_alloc: Gen/IdAllocGen.v, how next_request_id / next_batch_id_range touch the shared id counter (Model/IdAlloc.v interprets it); client_dispatch: Gen/ClientDispatchGen.v, the dispatch of handle_recv_message read from the source (Model/ClientMgr.v, which Model/HttpBatch.v imports, interprets it)
MODELS = ["clihist", "httpbatch"]
BINS = {"release": ["clihist", "httpbatch", "idmt"]}

RULE = ("batches of 1..4 (quick) / 1..5 (thorough) entries answered by every permutation (sampled in quick), with a missing / "
        "repeated / foreign id, with two batches and single calls in flight and replies crossing; random histories on top.  Oracle on "
        "the implementation alone: a completed batch has exactly n entries, entry j's payload marker names id lo+j, counts match "
        "entries, a complete permuted reply is delivered in full; same for the HTTP client against a scripted server")

ASSUMPTIONS = ASSUMPTIONS + [  # noqa: F405
    "inside a batch reply both clients read an id by its numeric value (Id::try_parse_inner_as_number: 7, \"7\", \"007\" and \"+7\" all name "
    "entry 7 - the model does the same); 'an id outside the batch' is therefore judged on that reading (oracle http-batch-entry-filled-with-foreign-answer)",
]


def run(ctx):
    ctx.engines = ["clihist (WS client)", "httpbatch (HTTP client)"]
    hs = C.c12_batch_histories(ctx.rng, nmax=ctx.scale(4, 5), full=ctx.thorough)
    hs += C.c12_idseq_histories(ctx.rng, nmax=ctx.scale(4, 5))
    hs += C.c12_mixed_array_histories(ctx.rng, nmax=ctx.scale(3, 4))
    hs += random_histories(ctx, ctx.scale(800, 80000))
    C.run_histories(ctx, hs, ["c12", "c03"])
    try:
        from props import httpbatch_common as HB
    except ImportError:
        ctx.note("httpbatch engine not integrated yet")
        return
    HB.run(ctx)
    from props import idmt_common
    idmt_common.run(ctx)      # last (ctx.record draws from ctx.rng): thread-level stress test of the id allocator, all facts must be zero
