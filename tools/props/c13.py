"""C13 -- method registry: names are unique, failed registrations change nothing, calls dispatch to the current
binding, clones are isolated.

Line protocol of engine `registry` (harness/src/bin/registry.rs == modelrun/registry_driver.ml):
  one line = one op sequence, ops separated by blanks, names hex-encoded ("-" = empty name), <mod> = module index
  (module 0 exists at the start, `cl`/`nw` append modules), <tag> = identity of the handler being registered:
    m:<mod>:<name>:<tag>  a:...  b:...          register_method / register_async_method / register_blocking_method
    s:<mod>:<sub>:<unsub>:<tag>  r:...          register_subscription / register_subscription_raw
    al:<mod>:<alias>:<existing>                 register_alias
    mm:<mod>:<other>                            mods[mod].merge(mods[other].clone())
    mn:<mod>:<reg>,<reg>..|_                    merge of a freshly built module (reg = m.<name>.<tag> | s.<sub>.<unsub>.<tag> ..)
    rv:<mod>:<name>   cl:<mod>   nw   ca:<mod>:<name>
  output: per op `<obs>@<dump>`; obs = ok | E:already:<n> | E:conflict:<n> | E:notfound:<n> | E:already-merge:<n> |
  mn[<obs>,..]<obs> | rm:none | rm:<Kind>:<tag> | h:<index> | call:nf | call:<Kind>:<tag> | bad;
  dump = modules joined by "/", each the sorted `name.Kind` list ("_" when empty).
"""
import itertools, json, re
import vlib

TRANSLATORS = []
MODELS = ["registry"]
BINS = {"release": ["registry"]}
RULE = ("cases = op sequences (register method/async/blocking/subscription(+raw), alias, merge of a clone of another "
        "module, merge of a freshly built module, remove, clone, new, call) run on real RpcModule values and on the "
        "extracted Coq model; compared per op: the Result (error kind and carried name; for merge the carried name only up "
        "to membership in both modules), sorted method_names() with callback kind of EVERY live module, and for call/remove "
        "the identity (tag) of the handler reached through raw_json_request.  Random sequences (length 1..14, 4-name "
        "alphabets incl. case/blank/empty/non-ASCII variants, up to 5 modules, most end with a call sweep over all "
        "modules x names) + exhaustive sequences (reduced op alphabet, each followed by the call sweep): 2 names length<=3 "
        "(quick), and in thorough also 2 names length 4 (3 modules) and length 5 (single module), 3 and 4 names length<=3.  distinct non-trivial = "
        "distinct result lines containing at least one failure, removal or dispatch observation")
TRUSTED = [
    "harness/src/bin/registry.rs: handler identity is observed through closures answering with their tag; an unsubscribe "
    "handler is identified through spare subscriptions opened right after registration (its Subscribers table)",
    "modelled, not verified: FxHashMap as an association list (iteration order not modelled: names are compared sorted, the "
    "name in a failed merge's error only up to membership), Arc::make_mut as copy-unless-unique on an explicit heap",
]
ASSUMPTIONS = [
    "names are compared as byte strings (Rust &str equality); what a handler does when called is outside C13",
    "modules are never dropped inside a sequence (dropping only lowers strong counts; allocations are never freed in the model)",
]

ALPHABETS = [
    (["a", "b", "c", "d"], 10),
    (["sub", "unsub", "say_hello", "x"], 2),
    (["m", "M", "m ", ""], 1),               # case, trailing blank, empty name
    (["\u00e9", "e\u0301", "e", "\u00c9"], 1),   # NFC / NFD / plain / upper: no normalisation may happen
    (["a", "ab", "abc", "b"], 1),            # prefixes
]
MAXMODS = 5
KINDS = {"m": "Sync", "a": "Async", "b": "Async", "s": "Subscription", "r": "Subscription"}


def hx(s):
    b = s.encode("utf-8")
    return b.hex() if b else "-"


# ---------------------------------------------------------------- generators

class Gen:
    """Builds one sequence; tracks only the number of modules and a tag counter."""

    def __init__(self, names):
        self.names = [hx(n) for n in names]
        self.ops = []
        self.nm = 1
        self.tag = 0

    def t(self):
        self.tag += 1
        return self.tag

    def reg(self, kind, *names, sep=":"):
        return sep.join([kind] + list(names) + [str(self.t())])

    def add(self, op):
        self.ops.append(op)
        if op.startswith("cl:"):
            if int(op.split(":")[1]) < self.nm:
                self.nm += 1
        elif op == "nw":
            self.nm += 1

    def sweep(self):
        for m in range(self.nm):
            for n in self.names:
                self.ops.append("ca:%d:%s" % (m, n))

    def line(self):
        return " ".join(self.ops)


def random_seq(rng, names, length, bad_rate=0.01):
    g = Gen(names)
    N = g.names
    for _ in range(length):
        m = rng.randrange(g.nm) if rng.random() >= bad_rate else g.nm + rng.randrange(2)
        r = rng.random()
        if r < 0.30:
            g.add("%s:%d:%s:%d" % (rng.choice("mab"), m, rng.choice(N), g.t()))
        elif r < 0.43:
            g.add("%s:%d:%s:%s:%d" % (rng.choice("sr"), m, rng.choice(N), rng.choice(N), g.t()))
        elif r < 0.54:
            g.add("al:%d:%s:%s" % (m, rng.choice(N), rng.choice(N)))
        elif r < 0.62:
            g.add("mm:%d:%d" % (m, rng.randrange(g.nm) if rng.random() >= bad_rate else g.nm))
        elif r < 0.70:
            regs = []
            for _ in range(rng.choice([0, 1, 1, 2, 2, 3])):
                if rng.random() < 0.7:
                    regs.append("%s.%s.%d" % (rng.choice("mab"), rng.choice(N), g.t()))
                else:
                    regs.append("%s.%s.%s.%d" % (rng.choice("sr"), rng.choice(N), rng.choice(N), g.t()))
            g.add("mn:%d:%s" % (m, ",".join(regs) or "_"))
        elif r < 0.82:
            g.add("rv:%d:%s" % (m, rng.choice(N)))
        elif r < 0.89:
            if g.nm < MAXMODS:
                g.add("cl:%d" % m)
            else:
                g.add("rv:%d:%s" % (m, rng.choice(N)))
        elif r < 0.91:
            if g.nm < MAXMODS:
                g.add("nw")
        else:
            g.add("ca:%d:%s" % (m, rng.choice(N)))
    return g


def exhaustive(names, length, maxmods):
    """Every sequence of exactly `length` ops over the reduced op alphabet, each followed by a call sweep."""
    N = [hx(n) for n in names]
    rot = itertools.cycle("mab")
    rot2 = itertools.cycle("sr")

    def choices(nm):
        out = []
        for m in range(nm):
            for n in N:
                out.append(("reg", m, n))
            for s in N:
                for u in N:
                    out.append(("sub", m, s, u))
            for a in N:
                for e in N:
                    out.append(("al", m, a, e))
            for j in range(nm):
                out.append(("mm", m, j))
            out.append(("mn", m, ()))
            out.append(("mn", m, (("m", N[0]),)))
            out.append(("mn", m, (("s", N[0], N[-1]),)))
            out.append(("mn", m, (("m", N[-1]), ("m", N[-1]))))
            for n in N:
                out.append(("rv", m, n))
            if nm < maxmods:
                out.append(("cl", m))
        if nm < maxmods:
            out.append(("nw",))
        return out

    def rec(prefix, nm, k):
        if k == 0:
            g = Gen(names)
            for c in prefix:
                if c[0] == "reg":
                    g.add("%s:%d:%s:%d" % (next(rot), c[1], c[2], g.t()))
                elif c[0] == "sub":
                    g.add("%s:%d:%s:%s:%d" % (next(rot2), c[1], c[2], c[3], g.t()))
                elif c[0] == "al":
                    g.add("al:%d:%s:%s" % c[1:])
                elif c[0] == "mm":
                    g.add("mm:%d:%d" % c[1:])
                elif c[0] == "mn":
                    regs = [".".join(list(r) + [str(g.t())]) for r in c[2]]
                    g.add("mn:%d:%s" % (c[1], ",".join(regs) or "_"))
                elif c[0] == "rv":
                    g.add("rv:%d:%s" % c[1:])
                elif c[0] == "cl":
                    g.add("cl:%d" % c[1])
                else:
                    g.add("nw")
            g.sweep()
            yield g.line()
            return
        for c in choices(nm):
            yield from rec(prefix + [c], nm + (1 if c[0] in ("cl", "nw") else 0), k - 1)

    yield from rec([], 1, length)


# hand-picked edge cases, always run first (plus corpus/C13.lines when present: one sequence per line)
CORPUS = [
    "mm:0:0 m:0:61:1 mm:0:0 ca:0:61",                                        # merging one's own clone: empty ok, else clash
    "cl:0 m:0:61:1 m:1:61:2 ca:0:61 ca:1:61",                                # same name, different handlers per clone
    "s:0:61:62:1 cl:0 rv:0:61 rv:0:62 ca:1:61 ca:1:62 ca:0:61 ca:0:62",      # clone keeps both subscription methods
    "m:0:61:1 al:0:62:61 rv:0:61 ca:0:62 ca:0:61 al:0:61:62 ca:0:61",        # alias survives removal of the original
    "s:0:61:61:1 m:0:61:2 s:0:61:61:3 r:0:61:62:4 r:0:62:61:5 s:0:62:63:6 ca:0:62 ca:0:63",
    "m:0:61:1 cl:0 m:1:61:2 m:0:62:3 ca:1:62 ca:1:61 ca:0:62",               # failed register on a shared module
    "al:0:61:61 m:0:61:1 al:0:61:61 al:0:62:63 al:0:61:63",                  # alias error precedence
    "mn:0:s.61.62.1 mn:0:s.62.63.2 mn:0:m.63.3,m.63.4 ca:0:61 ca:0:62 ca:0:63",
    "m:0:61:1 nw m:1:62:2 mm:0:1 mm:1:0 rv:1:62 mm:1:0 ca:1:61 ca:1:62 ca:0:62",
    "m:0:-:1 ca:0:- rv:0:- ca:0:- m:0:2d:2 ca:0:2d",                         # the empty name is a name
    "m:0:61:1 m:3:61:2 mm:0:7 cl:9 ca:5:61 rv:4:61 al:2:61:61 mn:6:_",       # modules that do not exist
]


def gen_cases(ctx):
    """Generator of (bucket, line)."""
    rng = ctx.rng
    for l in CORPUS:
        yield ("corpus", l)
    try:
        import os
        with open(os.path.join(vlib.ROOT, "corpus", "C13.lines")) as fh:
            for l in fh:
                if l.strip() and not l.startswith("#"):
                    yield ("corpus", l.strip())
    except OSError:
        pass
    weights = [w for _, w in ALPHABETS]
    for _ in range(ctx.scale(100000, 1000000)):
        names = rng.choices([a for a, _ in ALPHABETS], weights)[0]
        g = random_seq(rng, names, rng.randint(1, 14))
        if rng.random() < 0.7:
            g.sweep()
        if g.ops:
            yield ("random", g.line())
    # (names, exact length, max number of modules)
    ex = [(["a", "b"], 1, 3), (["a", "b"], 2, 3), (["a", "b"], 3, 3)]
    if ctx.thorough or ctx.search_mode:
        ex += [(["a", "b"], 4, 3), (["a", "b"], 5, 1), (["a", "b", "c"], 2, 2), (["a", "b", "c"], 3, 2),
               (["a", "b", "c", "d"], 2, 2), (["a", "b", "c", "d"], 3, 2)]
    for names, length, maxmods in ex:
        bucket = "exhaustive-%dnames-len%d-mods%d" % (len(names), length, maxmods)
        for line in exhaustive(names, length, maxmods):
            yield (bucket, line)


# ---------------------------------------------------------------- parsing of result lines

def parse_dump(d):
    mods = []
    for part in d.split("/"):
        if part == "_":
            mods.append({})
            continue
        m = {}
        dup = False
        for e in part.split(","):
            n, _, k = e.partition(".")
            if n in m:
                dup = True
            m[n] = k
        if dup:
            m["#dup"] = "dup"
        mods.append(m)
    return mods


MERGE_NAME = re.compile(r"E:already-merge:[0-9a-f-]+")


def canon(line):
    """what is compared between implementation and model: the name inside a failed merge's error is hash-order dependent"""
    return MERGE_NAME.sub("E:already-merge", line)


# ---------------------------------------------------------------- direct oracle (dict based, independent of the Coq model)

def check_reg(fields, pm, tags, obs, fail):
    """One registration against module contents `pm` (name->kind) and `tags` (name->tag).
    Returns the entries that must have been added ({} on failure) or None after reporting a wrong result."""
    k = fields[0]
    if k in "mab":
        n, t = fields[1], int(fields[2])
        if n in pm:
            if obs != "E:already:" + n:
                fail("wrong-result:register", "name %s taken but result %s" % (n, obs))
                return None
            return {}
        if obs != "ok":
            fail("wrong-result:register", "name %s free but result %s" % (n, obs))
            return None
        return {n: (KINDS[k], t)}
    s, u, t = fields[1], fields[2], int(fields[3])
    must_fail = s == u or s in pm or u in pm
    if obs == "ok":
        if must_fail:
            fail("wrong-result:subscription", "sub=%s unsub=%s equal or taken but registration succeeded" % (s, u))
            return None
        return {s: ("Subscription", t), u: ("Unsubscription", t)}
    if not must_fail:
        fail("wrong-result:subscription", "sub=%s unsub=%s distinct and free but result %s" % (s, u, obs))
        return None
    kind, _, nm = obs[2:].partition(":")
    justified = (kind == "conflict" and s == u and nm == s) or (kind == "already" and nm in (s, u) and nm in pm)
    if not justified:
        fail("wrong-result:subscription", "error %s not justified for sub=%s unsub=%s" % (obs, s, u))
        return None
    return {}


def oracle(line, result, fail):
    """Replays the property text on the implementation's own outputs.  `fail(key, detail)` reports."""
    ops = line.split()
    res = result.split(" ")
    if len(res) != len(ops) or any("@" not in r for r in res):
        fail("harness-output-malformed", result[:200])
        return
    P = [{}]          # name -> kind, per module, as dumped by the implementation
    T = [{}]          # name -> tag, tracked from the implementation's reported successes
    for i, (op, r) in enumerate(zip(ops, res)):
        obs, _, d = r.partition("@")
        Q = parse_dump(d)
        f = op.split(":")
        where = "op %d %s -> %s" % (i, op, obs)
        if "INCONSISTENT" in obs or "PANIC" in r or "CRASH" in r or "?" in obs or "odd" in obs or "multi" in obs:
            fail("harness-inconsistent", where)
            return
        if any("#dup" in q for q in Q):
            fail("names-not-unique", where + " dump " + d)
            return
        m = int(f[1]) if len(f) > 1 else None
        expect = [dict(p) for p in P]     # expected dump after the op
        newT = None

        def wrong(key, detail):
            fail(key, where + ": " + detail)

        if f[0] != "nw" and (m >= len(P) or (f[0] == "mm" and int(f[2]) >= len(P))):
            if obs != "bad":
                wrong("harness-inconsistent", "module does not exist")
                return
        elif f[0] in ("m", "a", "b", "s", "r"):
            added = check_reg([f[0]] + f[2:], P[m], T[m], obs, wrong)
            if added is None:
                return
            for n, (k, t) in added.items():
                expect[m][n] = k
            newT = (m, {n: t for n, (k, t) in added.items()})
        elif f[0] == "al":
            a, e = f[2], f[3]
            must_fail = a in P[m] or e not in P[m]
            if obs == "ok":
                if must_fail:
                    wrong("wrong-result:alias", "alias taken or target missing but succeeded")
                    return
                expect[m][a] = P[m][e]
                newT = (m, {a: T[m][e]})
            else:
                ok_err = (obs == "E:already:" + a and a in P[m]) or (obs == "E:notfound:" + e and e not in P[m])
                if not must_fail or not ok_err:
                    wrong("wrong-result:alias", "error not justified")
                    return
        elif f[0] in ("mm", "mn"):
            if f[0] == "mm":
                j = int(f[2])
                other, otags = dict(P[j]), dict(T[j])
                mobs = obs
            else:
                mo = re.fullmatch(r"mn\[(.*)\](.*)", obs)
                if not mo:
                    wrong("harness-output-malformed", "merge-new observation")
                    return
                built = mo.group(1).split(",") if mo.group(1) else []
                regs = [] if f[2] == "_" else f[2].split(",")
                if len(built) != len(regs):
                    wrong("harness-output-malformed", "merge-new observation")
                    return
                other, otags = {}, {}
                for rg, bo in zip(regs, built):
                    added = check_reg(rg.split("."), other, otags, bo, wrong)
                    if added is None:
                        return
                    for n, (k, t) in added.items():
                        other[n], otags[n] = k, t
                mobs = mo.group(2)
            shared = set(other) & set(P[m])
            if mobs == "ok":
                if shared:
                    wrong("wrong-result:merge", "modules share %s but merge succeeded" % sorted(shared))
                    return
                expect[m].update(other)
                newT = (m, otags)
            else:
                nm = mobs[len("E:already-merge:"):] if mobs.startswith("E:already-merge:") else None
                if not shared or nm not in shared:
                    wrong("wrong-result:merge", "error %s but shared names are %s" % (mobs, sorted(shared)))
                    return
        elif f[0] == "rv":
            n = f[2]
            if n in P[m]:
                want = "rm:%s:%d" % (P[m][n], T[m][n])
                if obs != want:
                    wrong("dispatch-wrong-handler" if obs.startswith("rm:" + P[m][n]) else "wrong-result:remove",
                          "removed handler should be %s" % want)
                    return
                del expect[m][n]
                newT = (m, None, n)
            elif obs != "rm:none":
                wrong("wrong-result:remove", "name unbound but something was removed")
                return
        elif f[0] == "cl":
            if obs != "h:%d" % len(P):
                wrong("harness-inconsistent", "handle")
                return
            expect.append(dict(P[m]))
            T.append(dict(T[m]))
        elif f[0] == "nw":
            if obs != "h:%d" % len(P):
                wrong("harness-inconsistent", "handle")
                return
            expect.append({})
            T.append({})
        elif f[0] == "ca":
            n = f[2]
            if n in P[m]:
                want = "call:%s:%d" % (P[m][n], T[m][n])
                if obs == "call:nf":
                    wrong("not-found-mismatch", "name is bound (%s) but the call answered method-not-found" % want)
                    return
                if obs != want:
                    wrong("dispatch-wrong-handler", "bound handler is %s" % want)
                    return
            elif obs != "call:nf":
                wrong("not-found-mismatch", "name is unbound but the call was answered")
                return
        # state after the op
        if Q != expect:
            failed_op = obs.startswith("E:") or "]E:" in obs
            if len(Q) == len(expect) and m is not None and m < len(Q) and any(Q[k] != expect[k] for k in range(len(Q)) if k != m):
                wrong("clone-not-isolated", "a module other than the target changed: %s" % d)
            elif failed_op:
                wrong("failed-op-changed-state", "dump %s" % d)
            elif f[0] == "rv":
                wrong("remove-wrong-state", "dump %s, expected %s" % (d, expect))
            else:
                wrong("success-added-wrong-entries", "dump %s, expected %s" % (d, expect))
            return
        if newT is not None:
            if len(newT) == 3:
                T[newT[0]].pop(newT[2], None)
            else:
                T[newT[0]].update(newT[1])
        P = expect


# ---------------------------------------------------------------- run / shrink / replay

def run_both(lines):
    ri = vlib.run_lines([vlib.rust_bin("registry")], lines, min_shard=100)
    rm = vlib.run_lines([vlib.model_bin("registry")], lines, min_shard=100)
    return ri, rm


def verdict(line, a, b):
    """(kind, key, detail) list for one case"""
    out = []
    oracle(line, a, lambda key, detail: out.append(("oracle", key, detail)))
    if canon(a) != canon(b):
        ia, ib = a.split(" "), b.split(" ")
        k = next((i for i, (x, y) in enumerate(zip(ia, ib)) if canon(x) != canon(y)), min(len(ia), len(ib)))
        ops = line.split()
        cls = ops[k].split(":")[0] if k < len(ops) else "len"
        out.append(("diff", "registry-model-differs:" + cls,
                    {"op_index": k, "impl": ia[k] if k < len(ia) else None, "model": ib[k] if k < len(ib) else None}))
    return out


def shrink(line, kind, key):
    """Greedy removal of ops while the same failure (kind, key) persists."""
    ops = line.split()
    changed = True
    rounds = 0
    while changed and rounds < 6 and len(ops) > 1:
        changed = False
        rounds += 1
        cands = [" ".join(ops[:i] + ops[i + 1:]) for i in range(len(ops))]
        ri, rm = run_both(cands)
        for c, a, b in zip(cands, ri, rm):
            if any(k == kind and ky == key for k, ky, _ in verdict(c, a, b)):
                ops = c.split()
                changed = True
                break
    return " ".join(ops)


def run(ctx):
    ctx.engines = ["registry (harness/src/bin/registry.rs vs modelrun/registry_driver.ml over coq/Model/Registry.v)"]
    cases = gen_cases(ctx)
    shrunk = {}
    nops = 0
    BATCH = 60000     # result lines carry a dump per op: keep only one batch of them in memory
    while True:
        batch = list(itertools.islice(cases, BATCH))
        if not batch:
            break
        ri, rm = run_both([l for _, l in batch])
        for (bucket, line), a, b in zip(batch, ri, rm):
            ctx.count(bucket)
            ops = line.split()
            nops += len(ops)
            for o in ops:
                ctx.count("op:" + o.split(":")[0])
            for tok in a.split(" "):
                o = tok.partition("@")[0]
                ctx.count("obs:" + ("error" if (o.startswith("E:") or "]E:" in o) else "not-found" if o == "call:nf" else
                                    "dispatched" if o.startswith("call:") else
                                    "removed" if o.startswith("rm:") and o != "rm:none" else "other"))
            nontrivial = ("E:" in a) or ("call:" in a) or ("rm:" in a)
            ctx.record({"line": line}, a, nontrivial=nontrivial)
            for kind, key, detail in verdict(line, a, b):
                case = {"line": line}
                if (kind, key) not in shrunk:
                    shrunk[(kind, key)] = shrink(line, kind, key)
                    case = {"line": shrunk[(kind, key)], "original": line}
                ctx.fail(kind, key, case, detail)
    ctx.extra["ops_executed"] = nops
    ctx.exhaustive = True


def replay(payload):
    case = payload["case"]
    line = case["line"] if isinstance(case, dict) else str(case)
    print(json.dumps({k: v for k, v in payload.items() if k != "case"}, indent=1)[:2000])
    print("sequence:", line)
    ri, rm = run_both([line])
    ops = line.split()
    for i, o in enumerate(ops):
        ia = ri[0].split(" ")[i] if i < len(ri[0].split(" ")) else "?"
        ib = rm[0].split(" ")[i] if i < len(rm[0].split(" ")) else "?"
        print("  %-28s impl %-60s model %s%s" % (o, ia, ib, "" if canon(ia) == canon(ib) else "   <-- differ"))
    vs = verdict(line, ri[0], rm[0])
    for kind, key, detail in vs:
        print("verdict[%s] %s: %s" % (kind, key, detail))
    if not vs:
        print("verdict: property holds on this case, model and implementation agree")
    return 1 if vs else 0
