"""C14 -- host filter: only allow-listed authorities ever reach the RPC service."""
import itertools, json, re
import vlib

TRANSLATORS = ["ports"]
MODELS = ["hostfilter"]
BINS = {"release": ["hostfilter"]}
RULE = ("cases = (allow-list | filter off, Host header lines as raw bytes, optional request-target) run through the real "
        "HostFilterLayer around a recording inner tower service and through the extracted Coq model; plus `auth` cases "
        "(one string through Authority::try_from).  Generated from: allow-lists (0-4 entries) over a pattern alphabet "
        "(literal labels, leading/inner `*`/`*name`/`:name` segments, empty labels, IPv4/IPv6 literals; ports "
        "none/fixed/`*`/empty/overflow/signed; schemes with and without default ports; userinfo; paths) derived from the same "
        "base host as the request so that matches, near-misses, ranking ties and shadowed entries are frequent; Host headers: "
        "valid authorities, case variants, userinfo, IPv6, extra colons, schemes, byte mutations incl. control and non-ASCII "
        "bytes, 0/1/2 header lines; request-target absent / origin-form / absolute-form agreeing or contradicting / junk.  "
        "Cases where a header value or the request-target cannot even be constructed are reported as nohdr/nouri by both "
        "sides and carry no verdict.  distinct non-trivial = distinct result lines in which an authority was decided "
        "(status 200 or 403)")
TRUSTED = [
    "translator tools/translators/ports.py (regex reader of authority.rs::default_port), pinned by theorem C14_default_ports_wellknown and exercised by the scheme cases of the differential run",
    "modelled, not verified: http 1.5.0 Uri/Authority/Scheme/PathAndQuery parsing and HeaderValue::to_str, route-recognizer 0.3.1 "
    "(Router::add/recognize, NFA thread order and Metadata ranking) -- coq/Model/HostFilter.v, tied to the compiled crates by the differential run only",
    "the direct oracle's own Python reading of an authority string and of a host pattern (tools/props/c14.py: py_match, known_auth)",
]
ASSUMPTIONS = [
    "host comparison is byte-exact (case-sensitive), as the code does it; an upper-case spelling of an allowed host is answered 403",
    "the request-target's authority is compared without its scheme (the code re-parses `uri.authority()` alone), so `Host: h` with target `http://h:80/` is a disagreement (400); the oracle does not assert either way there",
    "route-recognizer NFA states are identified with class sequences (Model/HostFilter.v header); the leading-'/' strip and non-ASCII character sets of the router are unreachable for hosts cut from a URI authority (proved: parse_authority_host_no_slash) and are not modelled",
    "generator domain: allow-list entries are valid UTF-8 strings; URIs and header values up to a few hundred bytes (plus single boundary cases at the 65534-byte URI limit)",
    "completeness is claimed for a single configured entry only (with several entries a better-ranked or same-shaped route may shadow a matching one, which the property allows)",
]

WELLKNOWN = {"http": 80, "ws": 80, "https": 443, "wss": 443}      # the oracle's own table (property text)


def hx(b):
    return "h" + b.hex()


def L(items):
    return ",".join(hx(x) for x in items) if items else "-"


# ------------------------------------------------------------------ independent matcher (restates host_matches)

def py_match(pattern, host):
    """pattern/host: bytes.  Segments are split at '.' and '/'; a segment starting with '*' stands for one or more
    arbitrary bytes, one starting with ':' for one or more bytes other than '/', anything else for itself."""
    rx = b""
    for tok in re.split(rb"([./])", pattern):
        if tok == b"":
            continue
        if tok[:1] == b"*":
            rx += b"(?s:.+)"
        elif tok[:1] == b":":
            rx += b"[^/]+"
        else:
            rx += re.escape(tok)
    return re.fullmatch(rx, host, re.S) is not None


def port_allows(entry, req):
    """normalised ports: 'D' | 'A' | int"""
    return entry == "A" or entry == req


# ------------------------------------------------------------------ structured strings

class Parts:
    """scheme://userinfo@host:port/path with the pieces remembered, so that the expected reading is known by
    construction rather than by parsing."""
    def __init__(self, host, port=None, scheme=None, userinfo=None, path=b"", plain_host=True):
        self.host, self.port, self.scheme, self.userinfo, self.path, self.plain_host = host, port, scheme, userinfo, path, plain_host

    def text(self):
        s = b""
        if self.scheme is not None:
            s += self.scheme + b"://"
        if self.userinfo is not None:
            s += self.userinfo + b"@"
        s += self.host
        if self.port is not None:
            s += b":" + self.port
        return s + self.path

    def authority_text(self):
        s = b""
        if self.userinfo is not None:
            s += self.userinfo + b"@"
        s += self.host
        if self.port is not None:
            s += b":" + self.port
        return s


PLAIN_HOST = re.compile(rb"(?:[A-Za-z0-9_*~!$&'()+,;=\-]+)(?:\.[A-Za-z0-9_*~!$&'()+,;=\-]*)*|\[[0-9A-Fa-f:.]+\]")
PLAIN_PATH = re.compile(rb"(?:/[A-Za-z0-9_.\-/]*)?(?:\?[A-Za-z0-9=&]*)?(?:#[A-Za-z0-9]*)?")


def known_auth(p, with_scheme=True):
    """('ok', host, port) | ('invalid',) | None (the oracle has no opinion on this spelling)."""
    if p is None:
        return None
    if p.scheme is not None and (not with_scheme or len(p.scheme) > 64 or not re.fullmatch(rb"[a-z][a-z0-9+.\-]*", p.scheme)):
        return None
    if p.userinfo is not None and (not re.fullmatch(rb"[A-Za-z0-9_.\-]+", p.userinfo) or p.host.startswith(b"[")):
        return None        # (userinfo before an IPv6 literal is refused by the code: its port slice starts inside the brackets)
    if not p.plain_host or not PLAIN_HOST.fullmatch(p.host) or p.host in (b"*",) or p.host.count(b":") > 8:
        return None
    if p.path:
        if not PLAIN_PATH.fullmatch(p.path):
            return None
        if p.scheme is None:
            return ("invalid",)
    if p.port is None:
        port = "D"
    elif p.port == b"*":
        port = "A"
    elif re.fullmatch(rb"[0-9]+", p.port):
        n = int(p.port)
        if n > 65535:
            return ("invalid",)
        sch = p.scheme.decode() if p.scheme is not None else None
        port = "D" if WELLKNOWN.get(sch) == n else n
        if sch is not None and sch not in WELLKNOWN and sch != "x" and not sch.startswith("chrome"):
            return None       # some other scheme may have a default port the oracle does not know
    elif p.port == b"" or re.fullmatch(rb"-[0-9]+|[0-9]*[A-Zg-z][0-9]*", p.port):
        return ("invalid",)
    else:
        return None
    return ("ok", p.host, port)


def crude_host(t):
    """host pattern of an entry whose spelling the oracle has no structured reading for"""
    if b"://" in t:
        t = t.split(b"://", 1)[1]
    t = re.split(rb"[/?#]", t)[0].rsplit(b"@", 1)[-1]
    return t[:t.find(b"]") + 1] if t.startswith(b"[") and b"]" in t else t.split(b":")[0]


def port_s(p):
    return "D" if p == "D" else "A" if p == "A" else "F%d" % p


# ------------------------------------------------------------------ generators

LABELS = [b"a", b"b", b"ab", b"io", b"parity", b"web3", b"site", b"x1", b"A", b"Io"]
WILD_ALL = [b"*", b"*", b"*", b"*x", b"*y", b"*x", b"*", b":p"]
ODD_ALL = [b"", b"a*b", b"*a*", b"-", b"_", b"a:b", b"~"]
IPS = [b"127.0.0.1", b"[::1]", b"[2001:db8::1]", b"[::ffff:1.2.3.4]", b"[1.:2]", b"[fe80::1%25eth0]", b"[1:2:3:4:5:6:7:8]",
       b"[1:2:3:4:5:6:7:8:9]", b"[::1", b"::1]", b"[]", b"[*]", b"[1.*]"]
PORTS_OK = [None, None, None, b"80", b"443", b"8080", b"9944", b"*", b"1", b"65535"]
PORTS_ODD = [b"", b"65536", b"+1", b"+80", b"-1", b"080", b"0", b"00000443", b"99999999999999999999", b"8O", b" 80", b"80 ",
             b"+", b"++1", b"**", b"*1", b"80:81", b"0x50"]
SCHEMES = [b"http", b"https", b"ws", b"wss", b"ftp", b"HTTP", b"Https", b"WS", b"wSs", b"chrome-extension", b"x", b"", b"a~b", b"1a",
           b"s" * 64, b"s" * 65, b"a_b"]
USERINFO = [b"a", b"user", b"u:p", b"u:pw", b"ab:1", b"", b"a@b", b"%41", b"u:p:q", b"x.y"]
PATHS = [b"/", b"/rpc", b"/a/b?c=d", b"?q", b"#f", b"/a b", b"/\xc3\xa4", b"/\xff", b"/%7B\"x\"}", b"/a#b c", b"/a?b#\x01", b"/<", b"/a?b<"]
JUNK = [b"", b" ", b"/", b"*", b"//", b"/foo/bar", b"user:password", b"parity.io/somepath", b"127.0.0.1:8545/somepath", b"127.0.0.1:-1337",
        b"http://", b"http:///x", b"https://", b"://", b"://h", b"://h:1", b"a://", b"h:1:2", b"a%b", b"a%b@c", b"%", b"a@", b"@", b"@@", b"@a",
        b"a@@b", b"[a@b]", b"x[@y]", b"[a]@[b]", b"a b", b"a\tb", b"a\"b", b"a<b", b"a\\b", b"a^b", b"a`b", b"a{b}", b"a|b", b"?", b"#", b"a?b", b"a#b",
        b"\xe4", b"ex\xc3\xa4mple.com", b":", b"::", b":80", b":*", b"*:*", b".", b"..", b".a", b"a.", b"a..b", b"http:/a", b"http:a", b"http//a",
        b"htt://a", b"httpx://a", b"https:/a", b"http://a:80:90", b"http://[::1]:80:1", b"http://a/ b", b"http://u@", b"http://u@/"]


def base_host(rng):
    r = rng.random()
    if r < 0.12:
        return None, rng.choice(IPS)
    n = rng.choice([1, 2, 2, 3, 3, 4])
    labs = [rng.choice(LABELS[:8]) for _ in range(n)]
    return labs, b".".join(labs)


WILD_CLEAN = [b"*", b"*", b"*x", b"*y"]
ODD_CLEAN = [b"", b"a*b", b"*a*", b"-", b"_", b"~"]
SCHEMES_CLEAN = [b"http", b"https", b"ws", b"wss", b"ftp", b"x", b"chrome-extension"]


def vary_labels(rng, labs, pattern, clean=False):
    """a relative of the base host: as a pattern (wildcards allowed) or as a request host"""
    labs = list(labs)
    WILD = WILD_CLEAN if clean else WILD_ALL
    ODD_LABELS = ODD_CLEAN if clean else ODD_ALL
    r = rng.random()
    if r < 0.35:
        pass
    elif r < 0.75 and pattern:
        k = rng.choice([1, 1, 1, 2])
        for _ in range(k):
            i = rng.randrange(len(labs))
            labs[i] = rng.choice(WILD)
        if rng.random() < 0.25 and len(labs) > 1:      # one wildcard for several labels
            i = rng.randrange(len(labs))
            labs = labs[:i] + [rng.choice(WILD)] + labs[i + rng.choice([1, 2]):]
    elif r < 0.82:
        i = rng.randrange(len(labs))
        labs[i] = labs[i].swapcase()
    elif r < 0.88:
        labs.insert(rng.randrange(len(labs) + 1), rng.choice(LABELS))
    elif r < 0.93 and len(labs) > 1:
        labs.pop(rng.randrange(len(labs)))
    elif r < 0.97:
        labs[rng.randrange(len(labs))] = rng.choice(ODD_LABELS)
    else:
        labs = [rng.choice(LABELS) for _ in range(rng.choice([1, 2, 3]))]
    return b".".join(labs)


def decorate(rng, host, port, exotic, clean=False):
    """wrap host[:port] with scheme / userinfo / path"""
    p = Parts(host, port)
    r = rng.random()
    if clean:
        if r < exotic:
            p.scheme = rng.choice(SCHEMES_CLEAN)
            if rng.random() < 0.5 and p.scheme in (b"http", b"ws", b"https", b"wss", b"ftp"):
                p.port = rng.choice([b"80", b"443", b"21", None, port])
            if rng.random() < 0.4:
                p.path = rng.choice(PATHS[:5])
        if rng.random() < exotic * 0.3 and not host.startswith(b"["):
            p.userinfo = rng.choice([b"a", b"user", b"x.y"])
        return p
    if r < exotic:
        p.scheme = rng.choice(SCHEMES[:5] * 3 + SCHEMES)
        # make the default-port cases frequent
        if rng.random() < 0.5 and p.scheme.lower() in (b"http", b"ws", b"https", b"wss", b"ftp"):
            p.port = rng.choice([b"80", b"443", b"21", None, port])
        if rng.random() < 0.5:
            p.path = rng.choice(PATHS[:5] * 3 + PATHS)
    if rng.random() < exotic * 0.5:
        p.userinfo = rng.choice(USERINFO)
    if rng.random() < exotic * 0.15 and p.scheme is None:
        p.path = rng.choice(PATHS)
    return p


def mutate(rng, b):
    b = bytearray(b)
    for _ in range(rng.choice([1, 1, 2])):
        r = rng.random()
        pos = rng.randrange(len(b) + 1)
        ch = rng.choice([rng.randrange(256), rng.choice(b":@[]/.*%?#+- \t\x00\x7f\xff")])
        if r < 0.4 or not b:
            b.insert(pos, ch)
        elif r < 0.7:
            del b[min(pos, len(b) - 1)]
        else:
            b[min(pos, len(b) - 1)] = ch
    return bytes(b)


def gen_case(rng):
    """returns dict(filter=None|[bytes], hosts=[bytes], uri=None|bytes, meta...)"""
    labs, base = base_host(rng)
    bport = rng.choice(PORTS_OK)
    clean = rng.random() < 0.75           # keep most allow-lists well-formed so that the layer gets built
    c = {"tag": ["list-clean" if clean else "list-exotic"]}
    # ---- allow-list
    r = rng.random()
    if r < 0.03:
        c["filter"], c["entries"] = None, None
        c["tag"].append("filter-off")
    else:
        n = rng.choice([0, 1, 1, 1, 1, 2, 2, 2, 3, 4])
        ents = []
        for _ in range(n):
            if labs is not None and rng.random() < 0.9:
                h = vary_labels(rng, labs, True, clean)
            elif rng.random() < 0.7:
                h = base
            else:
                h = rng.choice(IPS[:7] if clean else IPS)
            pr = rng.random()
            port = bport if pr < 0.45 else rng.choice(PORTS_OK) if pr < (0.995 if clean else 0.9) else rng.choice(PORTS_ODD)
            if pr > 0.45 and pr < 0.6:
                port = b"*"
            ents.append(decorate(rng, h, port, 0.12 if clean else 0.25, clean))
        if rng.random() < (0.003 if clean else 0.04):
            ents.append(None)
        c["entries"] = ents
        c["filter"] = [e.text() if e is not None else rng.choice(JUNK) for e in ents]
        c["tag"].append("allow-%d" % len(ents))
    # ---- Host header
    r = rng.random()
    hp = None
    if r < 0.05:
        hosts = []
        c["tag"].append("host-absent")
    else:
        rh = rng.random()
        if labs is not None and rh < 0.85:
            h = vary_labels(rng, labs, False)
        elif rh < 0.95:
            h = base
        else:
            h = rng.choice(IPS)
        pr = rng.random()
        port = bport if pr < 0.6 else rng.choice(PORTS_OK) if pr < 0.9 else rng.choice(PORTS_ODD)
        hp = decorate(rng, h, port, 0.2)
        text = hp.text()
        m = rng.random()
        if m < 0.08:
            text, hp = mutate(rng, text), None
            c["tag"].append("host-mutated")
        elif m < 0.12:
            text, hp = rng.choice(JUNK), None
            c["tag"].append("host-junk")
        else:
            c["tag"].append("host-structured")
        hosts = [text]
        if rng.random() < 0.03:
            hosts.append(text if rng.random() < 0.5 else base)
            c["tag"].append("host-twice")
    c["hosts"], c["host_parts"] = hosts, hp
    # ---- request-target
    r = rng.random()
    up = None
    if r < 0.5:
        uri = None
        c["tag"].append("uri-absent")
    elif r < 0.62:
        uri = rng.choice([b"/", b"/rpc", b"/a?b=c", b"*", b"/a b", b"/\xc3\xa4"])
        c["tag"].append("uri-origin")
    elif r < 0.95:
        if hp is not None and rng.random() < 0.6:
            up = Parts(hp.host, hp.port, userinfo=hp.userinfo if rng.random() < 0.5 else None)
            c["tag"].append("uri-agreeing")
        else:
            h = vary_labels(rng, labs, False) if labs is not None else rng.choice(IPS)
            up = Parts(h, rng.choice([bport, bport, rng.choice(PORTS_OK), rng.choice(PORTS_ODD)]))
            c["tag"].append("uri-other")
        if rng.random() < 0.85:
            up.scheme = rng.choice([b"http", b"http", b"https", b"ws", b"x", b"HTTP"])
            up.path = rng.choice([b"", b"/", b"/rpc", b"/a?b"])
        uri = up.text()
        if rng.random() < 0.06:
            uri, up = mutate(rng, uri), None
    else:
        uri = rng.choice(JUNK)
        c["tag"].append("uri-junk")
    c["uri"], c["uri_parts"] = uri, up
    return c


def exhaustive_cases():
    """every allow-list of <= 2 entries over a small alphabet x a set of request authorities"""
    pats = [b"a.b", b"*.b", b"a.*", b"*", b"*.*", b"*x.b", b":p.b", b"a.b.c", b"*.b.c", b"A.b", b"a..b", b"[::1]"]
    ports = [None, b"80", b"*"]
    entries = [Parts(h, p) for h in pats for p in ports]
    reqs = [Parts(h, p) for h in [b"a.b", b"x.b", b"a.b.c", b"a", b"A.b", b"a..b", b"x.y.b", b"[::1]"] for p in [None, b"80", b"81"]]
    lists = [[]] + [[e] for e in entries] + [[e, f] for e in entries for f in entries]
    for ents in lists:
        for rq in reqs:
            yield {"tag": ["exhaustive"], "filter": [e.text() for e in ents], "entries": ents, "hosts": [rq.text()], "host_parts": rq,
                   "uri": None, "uri_parts": None}


def exhaustive_cases3():
    """every allow-list of <= 3 entries over a smaller alphabet (ranking ties, shadowing, port lists of one host)"""
    entries = [Parts(h, p) for h in [b"a.b", b"*.b", b"a.*", b"*x.b"] for p in [b"1", b"2"]]
    reqs = [Parts(h, p) for h in [b"a.b", b"x.b", b"a.x", b"a.b.b"] for p in [b"1", b"2", b"3"]]
    lists = [list(l) for n in (1, 2, 3) for l in itertools.product(entries, repeat=n)]
    for ents in lists:
        for rq in reqs:
            yield {"tag": ["exhaustive3"], "filter": [e.text() for e in ents], "entries": ents, "hosts": [rq.text()], "host_parts": rq,
                   "uri": None, "uri_parts": None}


def line_of(c):
    return "req %s %s %s" % ("off" if c["filter"] is None else L(c["filter"]), L(c["hosts"]), hx(c["uri"]) if c["uri"] is not None else "-")


def show(c):
    return {"filter": None if c["filter"] is None else [e.decode("latin1") for e in c["filter"]],
            "hosts": [h.decode("latin1") for h in c["hosts"]], "uri": None if c["uri"] is None else c["uri"].decode("latin1"),
            "line": line_of(c)}


# ------------------------------------------------------------------ direct oracle

def parse_result(a):
    """'<status> <ran> <auth>' -> (status, ran, None | (host bytes, port))"""
    m = re.fullmatch(r"(\d+) (\d+) (none|h([0-9a-f]*):(D|A|F(\d+)))", a)
    if not m:
        return None
    auth = None
    if m.group(3) != "none":
        auth = (bytes.fromhex(m.group(4)), "D" if m.group(5) == "D" else "A" if m.group(5) == "A" else int(m.group(6)))
    return int(m.group(1)), int(m.group(2)), auth


def oracle(ctx, c, a):
    """Restates the property on the implementation's answer alone."""
    res = parse_result(a)
    if c["filter"] is not None and a not in ("nohdr", "nouri", "nostr"):
        # the allow-list is accepted exactly when every entry reads as an authority (where the oracle knows the reading)
        ks = [known_auth(e) for e in c["entries"]]
        if all(k is not None for k in ks) and (a == "badlist") != any(k[0] == "invalid" for k in ks):
            ctx.fail("oracle", "allow-list-acceptance-differs", show(c), a)
    if res is None:
        if a in ("nohdr", "nouri", "badlist", "nostr"):
            return None
        ctx.fail("oracle", "unexpected-output", show(c), a)
        return None
    status, ran, auth = res
    # (1) nothing runs unless the request is passed on; the filter's own answers are 403 / 400
    if status not in (200, 403, 400) or ran != (1 if status == 200 else 0):
        ctx.fail("oracle", "rejected-request-reached-service" if ran else "unexpected-status", show(c), a)
    # (2) 400 exactly when no single authority was determined
    if (status == 400) != (auth is None):
        ctx.fail("oracle", "400-iff-no-authority", show(c), a)
    # (3) the decided authority is what the request says, where the oracle knows the reading by construction
    kh = known_auth(c["host_parts"]) if len(c["hosts"]) == 1 else None
    uri_has_auth = c["uri"] is not None and c["uri_parts"] is not None
    ku = known_auth(c["uri_parts"], with_scheme=True) if uri_has_auth else None
    if ku is not None and ku[0] == "ok" and c["uri_parts"].scheme is not None:
        # the target's authority is re-read without its scheme: only assert when no default port is involved
        if c["uri_parts"].port is not None and re.fullmatch(rb"[0-9]+", c["uri_parts"].port) and int(c["uri_parts"].port) in (80, 443, 21):
            ku = None
        elif c["uri_parts"].scheme not in (b"http", b"https", b"ws", b"x"):
            ku = None
    no_uri_auth = c["uri"] is None or c["uri"].startswith(b"/") or c["uri"] == b"*"
    expect = "skip"
    if not c["hosts"] and no_uri_auth:
        expect = None
    elif len(c["hosts"]) == 1 and kh is not None and no_uri_auth:
        expect = (kh[1], kh[2]) if kh[0] == "ok" else None
    elif len(c["hosts"]) == 1 and kh is not None and ku is not None and kh[0] == "ok" and ku[0] == "ok":
        expect = (kh[1], kh[2]) if (kh[1], kh[2]) == (ku[1], ku[2]) else None
    elif not c["hosts"] and ku is not None:
        expect = (ku[1], ku[2]) if ku[0] == "ok" else None
    elif len(c["hosts"]) >= 2 and len(set(c["hosts"])) >= 2 and no_uri_auth:
        # several Host headers naming different authorities: no single authority can be determined
        expect = None
    if expect != "skip":
        ctx.count("oracle:authority-known")
        if expect != auth:
            ctx.fail("oracle", "decided-authority-differs", show(c),
                     {"impl": a, "expected": "none" if expect is None else "%r:%s" % (expect[0], port_s(expect[1]))})
    # (3b) Host header and request-target name the SAME authority text (host and port written identically): one authority is
    # determined, and it is that one -- whatever scheme the target carries and whether or not the port is that scheme's default
    hp_, up_ = c.get("host_parts"), c.get("uri_parts")
    if (len(c["hosts"]) == 1 and hp_ is not None and up_ is not None and kh is not None and kh[0] == "ok"
            and hp_.scheme is None and hp_.host == up_.host and hp_.port == up_.port and hp_.userinfo is None and up_.userinfo is None
            and up_.scheme in (None, b"http", b"https", b"ws", b"x", b"HTTP") and c["hosts"][0] == hp_.text()):
        ctx.count("oracle:identical-host-and-target-authority")
        if auth != (kh[1], kh[2]):
            ctx.fail("oracle", "identical-host-and-uri-authority-not-decided", show(c),
                     {"impl": a, "expected": "%r:%s" % (kh[1], port_s(kh[2]))})
    # the decided host is literally part of what the client sent
    if auth is not None and not any(auth[0] in t for t in c["hosts"] + ([c["uri"]] if c["uri"] else [])):
        ctx.fail("oracle", "decided-host-not-in-request", show(c), a)
    if c["filter"] is None or auth is None:
        return res
    # (4) soundness: passed on => some entry matches in host and in port (entries read by construction)
    ents = [known_auth(e) for e in c["entries"]]
    if status == 200:
        if all(e is not None for e in ents):
            ctx.count("oracle:soundness-checked")
            ok = any(e[0] == "ok" and py_match(e[1], auth[0]) and port_allows(e[2], auth[1]) for e in ents)
            if not ok:
                ctx.fail("oracle", "admitted-without-matching-entry", show(c), a)
        else:
            # exotic spelling of an entry: fall back to "the host pattern is a substring of some entry and matches"
            ok = False
            for e, t in zip(c["entries"], c["filter"]):
                if py_match(e.host if e is not None else crude_host(t), auth[0]):
                    ok = True
            if not ok:
                ctx.fail("oracle", "admitted-without-matching-entry", show(c), a)
    # (5) completeness for a single entry
    if len(ents) == 1 and ents[0] is not None and ents[0][0] == "ok":
        e = ents[0]
        if py_match(e[1], auth[0]) and port_allows(e[2], auth[1]):
            ctx.count("oracle:single-entry-match")
            if status != 200:
                ctx.fail("oracle", "single-matching-entry-refused", show(c), a)
    return res


AUTH_EXPECT = None


def auth_cases(rng, n, boundaries=True):
    out = [(j, None) for j in JUNK] if boundaries else []
    for _ in range(n):
        labs, base = base_host(rng)
        h = vary_labels(rng, labs, rng.random() < 0.5) if labs is not None else base
        pr = rng.random()
        p = decorate(rng, h, rng.choice(PORTS_OK) if pr < 0.7 else rng.choice(PORTS_ODD), 0.5)
        t = p.text()
        if rng.random() < 0.15:
            t, p = mutate(rng, t), None
        try:
            t.decode("utf-8")
        except UnicodeDecodeError:
            if rng.random() < 0.7:
                continue
        out.append((t, p))
    if not boundaries:
        return out
    # boundary: URI length limit, scheme length limit, colon limit
    out.append((b"http://a/" + b"a" * (65534 - 9), None))
    out.append((b"http://a/" + b"a" * (65535 - 9), None))
    out.append((b"a" * 65534, None))
    out.append((b"a" * 65535, None))
    for k in (63, 64, 65, 66):
        out.append((b"s" * k + b"://h:1", None))
    for k in range(6, 11):
        out.append((b"[" + b":".join([b"1"] * (k + 1)) + b"]:80", None))
    return out


def run_auth_batch(ctx, impl, model, acs):
    lines = ["auth " + hx(t) for t, _ in acs]
    ri, rm = vlib.run_lines([impl], lines), vlib.run_lines([model], lines)
    for (t, p), a, b in zip(acs, ri, rm):
        case = {"kind": "auth", "text": t[:300].decode("latin1"), "line": "auth " + hx(t) if len(t) < 2000 else "auth <%d bytes>" % len(t)}
        ctx.count("auth:" + a.split(" ")[0])
        if a != b:
            ctx.fail("diff", "hostfilter-model-differs:auth", case, {"impl": a, "model": b})
        if a.startswith("PANIC") or a.startswith("CRASH"):
            ctx.fail("oracle", "hostfilter-panic", case, a)
        ctx.record(case, a, nontrivial=a.startswith("ok"))
        k = known_auth(p)
        if k is not None:
            exp = "err" if k[0] == "invalid" else "ok %s %s" % (hx(k[1]), port_s(k[2]))
            ctx.count("oracle:auth-known")
            if a != exp:
                ctx.fail("oracle", "authority-reading-differs", case, {"impl": a, "expected": exp})


def run_req_batch(ctx, impl, model, cases):
    lines = [line_of(c) for c in cases]
    ri, rm = vlib.run_lines([impl], lines), vlib.run_lines([model], lines)
    for c, a, b in zip(cases, ri, rm):
        for t in c["tag"]:
            ctx.count(t)
        ctx.count("result:" + a.split(" ")[0])
        if a != b:
            ctx.fail("diff", "hostfilter-model-differs:req", show(c), {"impl": a, "model": b})
        if a.startswith("PANIC") or a.startswith("CRASH"):
            ctx.fail("oracle", "hostfilter-panic", show(c), a)
        validated = a not in ("nohdr", "nouri", "nostr")
        ctx.record(show(c), a, nontrivial=a.startswith("200") or a.startswith("403"), validated=validated)
        oracle(ctx, c, a)


def seq_cases(rng, n):
    """sequences of requests through ONE HostFilterLayer: the decision for a request must not depend on what the layer saw before
    (an admitted request followed by the same Host with a disagreeing / allow-listed / unparsable URI authority, the same URI
    with another Host, exact repeats, ...)"""
    out = []
    while len(out) < n:
        c0 = gen_case(rng)
        if c0["filter"] is None:
            continue
        reqs = [(c0["hosts"], c0["uri"])]
        pool = [gen_case(rng) for _ in range(3)]
        evil = [b"evil.com", b"evil.com:80", b"evil.com/x", b"[::1]", b""]
        for _ in range(rng.choice([2, 3, 4, 6])):
            r = rng.random()
            h0, u0 = rng.choice(reqs)
            if r < 0.2:
                reqs.append((h0, u0))                                            # exact repeat
            elif r < 0.45:
                reqs.append((h0, b"http://" + rng.choice(evil[:2]) + b"/"))      # same Host, another authority in the request-target
            elif r < 0.6:
                a = h0[0] if h0 else b"example.com"
                reqs.append(([rng.choice(evil)], b"http://" + a + b"/"))         # another/unparsable Host, the admitted authority in the URI
            elif r < 0.75:
                reqs.append(([rng.choice(evil)], None))                          # that Host alone
            elif r < 0.85:
                reqs.append((h0, None))
            else:
                q = rng.choice(pool)
                reqs.append((q["hosts"], q["uri"]))
        out.append({"filter": c0["filter"], "reqs": reqs})
    return out


def run_seq_batch(ctx, impl, model, seqs):
    def item(h, u):
        return "%s|%s" % (L(h), hx(u) if u is not None else "-")
    lines = ["seq %s %s" % (L(q["filter"]), " ".join(item(h, u) for h, u in q["reqs"])) for q in seqs]
    ri = vlib.run_lines([impl], lines)
    # every request alone on a fresh layer: implementation (for the oracle) and model (for the diff)
    singles = sorted({line_of({"filter": q["filter"], "hosts": h, "uri": u}) for q in seqs for h, u in q["reqs"]})
    alone_i = dict(zip(singles, vlib.run_lines([impl], singles)))
    alone_m = dict(zip(singles, vlib.run_lines([model], singles)))
    short = lambda r: " ".join(r.split(" ")[:2]) if r[:1].isdigit() else r
    for q, line, a in zip(seqs, lines, ri):
        ctx.count("sequence-on-one-layer")
        case = {"filter": [e.decode("latin1") for e in q["filter"]],
                "requests": [{"hosts": [x.decode("latin1") for x in h], "uri": None if u is None else u.decode("latin1")} for h, u in q["reqs"]], "line": line}
        parts = a.split(";") if a not in ("nostr", "badlist") and not a.startswith("?") else None
        ctx.record(case, a, nontrivial=bool(parts) and any(p.startswith("200") for p in parts))
        if a.startswith(("PANIC", "CRASH", "?")):
            ctx.fail("oracle", "hostfilter-panic", case, a)
            continue
        if parts is None:
            continue
        keys = [line_of({"filter": q["filter"], "hosts": h, "uri": u}) for h, u in q["reqs"]]
        want_i = [short(alone_i[k]) for k in keys]
        want_m = [short(alone_m[k]) for k in keys]
        if parts != want_m:
            ctx.fail("diff", "hostfilter-model-differs:seq", case, {"impl": a, "model": ";".join(want_m)})
        for j, (got, want) in enumerate(zip(parts, want_i)):
            if got != want:
                ctx.fail("oracle", "decision-depends-on-earlier-requests", case,
                         "request %d answered `%s` after the earlier requests of the sequence, `%s` on a fresh layer" % (j, got, want))
                break


BATCH = 200000


def run(ctx):
    ctx.engines = ["hostfilter (harness/src/bin/hostfilter.rs: HostFilterLayer + Authority vs modelrun/hostfilter_driver.ml over coq/Model/HostFilter.v)"]
    impl, model = vlib.rust_bin("hostfilter"), vlib.model_bin("hostfilter")
    rng = ctx.rng
    # ---- (1) single strings through Authority::try_from
    n = ctx.scale(12000, 450000)
    first = True
    while n > 0 and len(ctx.failures) < 2000:
        k = min(n, BATCH)
        acs = auth_cases(rng, k, boundaries=first)
        run_auth_batch(ctx, impl, model, acs)
        n -= k
        first = False
    # ---- (2) requests through the layer
    ex = list(exhaustive_cases()) + list(exhaustive_cases3())
    if ctx.thorough or ctx.search_mode:
        ctx.exhaustive = True
    else:
        ex = rng.sample(ex, 6000)
    run_req_batch(ctx, impl, model, ex)
    n = ctx.scale(100000, 3200000)
    while n > 0 and len(ctx.failures) < 2000:
        k = min(n, BATCH)
        run_req_batch(ctx, impl, model, [gen_case(rng) for _ in range(k)])
        n -= k
    # ---- (3) sequences of requests through one layer (in the model the decision is a function of allow-list and request alone; this family checks the same of the implementation)
    run_seq_batch(ctx, impl, model, seq_cases(rng, ctx.scale(3000, 60000)))


def replay(payload):
    case = payload["case"]
    print(json.dumps(payload, indent=1)[:3000])
    if isinstance(case, dict) and case.get("line", "").startswith("seq "):
        # one layer, the requests in order (implementation) vs every request alone (implementation and model)
        toks = case["line"].split()
        rc, out = vlib.sh([vlib.rust_bin("hostfilter")], input=case["line"] + "\n")
        print("impl, one layer ->", out.strip())
        for it in toks[2:]:
            h, _, u = it.partition("|")
            single = "req %s %s %s" % (toks[1], h, u or "-")
            for name, cmd in (("impl alone ", vlib.rust_bin("hostfilter")), ("model alone", vlib.model_bin("hostfilter"))):
                rc, out = vlib.sh([cmd], input=single + "\n")
                print("  ", name, it[:60], "->", out.strip())
        return 0
    if isinstance(case, dict) and "line" in case and not case["line"].endswith("bytes>"):
        for name, cmd in (("impl", vlib.rust_bin("hostfilter")), ("model", vlib.model_bin("hostfilter"))):
            rc, out = vlib.sh([cmd], input=case["line"] + "\n")
            print(name, "->", out.strip())
    return 0
