"""C15 -- wire types round-trip; only valid JSON-RPC 2.0 is emitted; error code <-> kind."""
import itertools, json, os, re
import vlib
from gen import jsongen as G

TRANSLATORS = ["error_codes", "limits_wiring", "error_consts"]
MODELS = ["wire"]
BINS = {"release": ["wire", "srvlimits"]}
RULE = ("cases = (kind, text) lines run through the real jsonrpsee-types parsers/serialisers and through the extracted "
        "Coq model; generated from: well-formed serialisations over all id forms/payloads, all orders/subsets/duplications "
        "of response members (<=5) with value variants, structural mutations, byte mutations, deep nesting, the SEQUENCE "
        "forms of every derived struct (right/short/long, null and wrong types per slot, nested, each text to every reader); plus the "
        "2^32 error-code sweep (counted as one evaluation).  distinct non-trivial = distinct result lines that are not "
        "the reject line '-'")
TRUSTED = [
    "translator tools/translate.py:error_codes (regex reader of types/src/error.rs), cross-checked against the compiled code on all 2^32 i32 values",
    "modelled, not verified: serde/serde_json parsing, formatting and derive semantics (Json/*.v, Model/Wire.v), tied by the differential run only",
]
ASSUMPTIONS = [
    "sequence forms (serde visit_seq) ARE modelled: Model/Wire.v de_struct dispatches on the first non-whitespace byte ('{' -> map reader, '[' -> sequence reader) for every derived struct -- ErrorObject [code,message,data], Request [jsonrpc,id,method,params], Notification [jsonrpc,method,params], InvalidRequest [id], SubscriptionPayload [subscription,result], SubscriptionPayloadError [subscription,error] -- with exactly as many elements as non-skipped fields, `null` = None in Option slots, nested in either form; Response (hand-written visitor, visit_map only) never reads an array.  The generators feed sequence-form texts (right length / too short / too long / null and wrong types in every slot / nested) to every reader.  Still not modelled: serde_json's recursion limit applied to the struct nesting itself (at most two levels deep here), and which error message a rejected text gets (a reject is the line '-')",
    "Option<RawValue> members (params, data) cannot carry the text `null` (it denotes absence); round-trip is stated on the parser's image",
    "floats are carried as lexemes, never interpreted; out-of-range float literals (1e999) are outside the generators",
]


HUGE = re.compile(rb"[eE][+-]?\d{3,}|\d{25,}")


def hx(b):
    return b.hex() if b else "-"


def q(s):
    return json.dumps(s).encode()


def gen_cases(ctx):
    rng = ctx.rng
    n = ctx.scale(1500, 40000)
    cases = []

    def add(kind, text, tag):
        cases.append((kind, text, tag))

    # ---- ids / subscription ids
    for _ in range(n):
        t = G.ws(rng) + G.id_text(rng) + G.ws(rng)
        add("id", t, "id")
        add("subid", t, "subid")
    for b in range(0x80):   # every single ASCII byte as a string id body
        add("id", b'"' + bytes([b]) + b'"', "id-byte")
    for k in [0, 1, 2**63 - 1, 2**63, 2**64 - 2, 2**64 - 1, 2**64]:
        add("id", str(k).encode(), "id-boundary")
        add("subid", str(k).encode(), "id-boundary")
    # ---- raw / json values
    for _ in range(n):
        v = G.value(rng, depth=rng.choice([1, 2, 3, 4]), lenient=rng.random() < 0.3)
        if rng.random() < 0.25:
            v = G.mutate_bytes(rng, v)
        add("raw", G.ws(rng) + v + G.ws(rng), "raw")
        if not HUGE.search(v):   # float range (1e999 is an error for Value) is outside the model: see ASSUMPTIONS
            add("json", G.ws(rng) + v + G.ws(rng), "json")
    for d in [1, 2, 126, 127, 128, 129, 200]:
        add("json", G.deep(rng, d), "deep")
        add("raw", G.deep(rng, d), "deep")
    # ---- requests / notifications / invalid requests
    def member_list(kinds):
        ms = []
        for k in kinds:
            if k == "jsonrpc":
                ms.append((b'"jsonrpc"', rng.choice([b'"2.0"'] * 6 + [b'"2\\u002e0"', b'"1.0"', b"2.0", b"null", b'"2.0 "'])))
            elif k == "id":
                ms.append((b'"id"', G.id_text(rng)))
            elif k == "method":
                ms.append((b'"method"', rng.choice([G.string(rng)] * 5 + [b"1", b"null", b'"m"'])))
            elif k == "params":
                ms.append((b'"params"', rng.choice([G.value(rng, 2, lenient=rng.random() < 0.2)] * 4 + [b"null", b"[]", b"{}"])))
            elif k == "result":
                ms.append((b'"result"', G.value(rng, 2, lenient=rng.random() < 0.2)))
            elif k == "error":
                ms.append((b'"error"', errobj_text()))
            else:
                ms.append((G.string(rng) if rng.random() < 0.5 else q(k), G.value(rng, 2, lenient=True)))
        return ms

    def errobj_text():
        code = rng.choice([0, 1, -1, -32700, -32600, -32601, -32602, -32603, -32000, -32009, -32007, 2**31 - 1, -2**31, 2**31, -2**31 - 1, 7])
        ms = [(b'"code"', str(code).encode() if rng.random() < 0.9 else rng.choice([b"1.0", b'"1"', b"null"])),
              (b'"message"', G.string(rng) if rng.random() < 0.9 else b"1")]
        r = rng.random()
        if r < 0.4:
            ms.append((b'"data"', G.value(rng, 2)))
        elif r < 0.5:
            ms.append((b'"data"', b"null"))
        if rng.random() < 0.1:
            ms.append((b'"extra"', b"1"))
        if rng.random() < 0.1:
            ms.append(rng.choice(ms))
        rng.shuffle(ms)
        return obj(ms)

    def obj(ms):
        parts = [G.ws(rng, 0.15) + k + G.ws(rng, 0.15) + b":" + G.ws(rng, 0.15) + v + G.ws(rng, 0.15) for k, v in ms]
        return b"{" + b",".join(parts) + b"}"

    base = {"req": ["jsonrpc", "id", "method", "params"], "notif": ["jsonrpc", "method", "params"], "inv": ["id"],
            "resp": ["jsonrpc", "id", "result"], "err": None}
    for _ in range(n):
        for kind in ("req", "notif", "inv", "resp"):
            ks = list(base[kind])
            r = rng.random()
            if kind == "resp" and rng.random() < 0.4:
                ks[2] = "error"
            if r < 0.15 and ks:
                ks.remove(rng.choice(ks))
            elif r < 0.3:
                ks.append(rng.choice(ks + ["x", "id", "result", "error"]))
            elif r < 0.4:
                ks.append("unknown")
            rng.shuffle(ks)
            t = G.ws(rng) + obj(member_list(ks)) + G.ws(rng)
            if rng.random() < 0.08:
                t = G.mutate_bytes(rng, t)
            # every text goes to every struct parser: a request text is also a notification candidate etc.
            for k2 in ("req", "notif", "inv", "resp"):
                if k2 == kind or rng.random() < 0.25:
                    add(k2, t, kind + "-text")
        add("err", G.ws(rng) + errobj_text() + G.ws(rng), "errobj")
        sid = rng.choice([b"1", b"0", b'"s"', G.string(rng), b"null", b"1.5", b"18446744073709551615"])
        key = rng.choice([b'"result"', b'"error"'])
        inner = [(b'"subscription"', sid), (key, G.value(rng, 2))]
        if rng.random() < 0.15:
            inner.append(rng.choice(inner + [(b'"z"', b"0")]))
        rng.shuffle(inner)
        outer = [(b'"jsonrpc"', b'"2.0"'), (b'"method"', G.string(rng)), (b'"params"', obj(inner))]
        if rng.random() < 0.1:
            outer.pop(rng.randrange(3))
        rng.shuffle(outer)
        t = obj(outer)
        add("subn", t, "subnotif")
        add("sube", t, "subnotif")
    # ---- sequence forms of the derived structs (serde visit_seq): right length, too short, too long, `null` in every slot,
    #      wrong element types, nested sequence forms; every text goes to every struct reader
    def arr(items, wsp=0.15):
        return b"[" + b",".join(G.ws(rng, wsp) + it + G.ws(rng, wsp) for it in items) + b"]"

    def f_two():
        return rng.choice([b'"2.0"'] * 14 + [b'"2\\u002e0"', b'"1.0"', b"2.0", b"null", b'"2.0 "'])

    def f_id():
        return G.id_text(rng)

    def f_method():
        return rng.choice([G.string(rng)] * 5 + [b'"m"', b'"ev1"', b"1", b"null", b'["m"]'])

    def f_opt():   # Option<RawValue> slot
        return rng.choice([G.value(rng, 2, lenient=rng.random() < 0.2)] * 4 + [b"null", b"null", b"[]", b"{}", b" null", b"nul", b"[null]"])

    def f_code():
        c = rng.choice([0, 1, -1, -32700, -32600, -32000, -32009, 2**31 - 1, -2**31, 2**31, -2**31 - 1, 7])
        return str(c).encode() if rng.random() < 0.85 else rng.choice([b"1.0", b'"1"', b"null", b"-0", b"[1]", b"1e2"])

    def f_msg():
        return G.string(rng) if rng.random() < 0.85 else rng.choice([b"1", b"null", b'["m"]'])

    def f_sid():
        return rng.choice([b"1", b"0", b'"s"', G.string(rng), b"18446744073709551615"] * 3 + [b"null", b"1.5", b"18446744073709551616", b"[1]"])

    def f_raw():
        return G.value(rng, 2, lenient=rng.random() < 0.2)

    SLOTS = {"req": [f_two, f_id, f_method, f_opt], "notif": [f_two, f_method, f_opt], "inv": [f_id],
             "err": [f_code, f_msg, f_opt], "pay": [f_sid, f_raw]}

    def seq_fields(kind):
        """field texts of one sequence form + the name of the variation applied"""
        fs = [f() for f in SLOTS[kind]]
        r = rng.random()
        if r < 0.45:
            return fs, "exact"
        if r < 0.55:
            return fs[:-1], "short"                       # missing trailing (Option) field
        if r < 0.60:
            del fs[rng.randrange(len(fs))]
            return fs, "short"
        if r < 0.70:
            return fs + [rng.choice([b"null", b"1", b"{}", f_raw()])], "long"
        if r < 0.75:
            return fs + [b"null"] * rng.randint(2, 3), "long"
        if r < 0.83:
            fs[rng.randrange(len(fs))] = b"null"          # null in a slot (None only where the field is an Option)
            return fs, "null-slot"
        if r < 0.91 and len(fs) > 1:
            i, j = rng.sample(range(len(fs)), 2)           # wrong element types
            fs[i], fs[j] = fs[j], fs[i]
            return fs, "swapped"
        if r < 0.95:
            return [], "empty"
        return [arr(fs)], "wrapped"                        # the whole struct one level too deep

    def payload_text(key):
        """SubscriptionPayload / SubscriptionPayloadError in map or sequence form"""
        if rng.random() < 0.5:
            fs, var = seq_fields("pay")
            return arr(fs), "pseq-" + var
        inner = [(b'"subscription"', f_sid()), (key, f_raw())]
        if rng.random() < 0.15:
            inner.append(rng.choice(inner + [(b'"z"', b"0")]))
        rng.shuffle(inner)
        return obj(inner), "pobj"

    ALL_READERS = ("req", "notif", "inv", "resp", "err", "subn", "sube")

    def add_seq(t, home, tag):
        t = G.ws(rng) + t + G.ws(rng)
        if rng.random() < 0.06:
            t = G.mutate_bytes(rng, t)
            tag += "-mut"
        for k2 in ALL_READERS:
            if k2 == home or rng.random() < 0.3:
                add(k2, t, tag)

    nseq = ctx.scale(1200, 30000)
    for _ in range(nseq):
        for kind in ("req", "notif", "inv", "err"):
            fs, var = seq_fields(kind)
            add_seq(arr(fs), kind, "seq-%s-%s" % (kind, var))
        # a response whose error member is a sequence-form ErrorObject (the only place a Response meets a sequence form)
        fs, var = seq_fields("err")
        ms = [(b'"jsonrpc"', f_two()), (b'"id"', G.id_text(rng)), (b'"error"', arr(fs))]
        if rng.random() < 0.1:
            ms.append((b'"result"', b"1"))
        rng.shuffle(ms)
        add_seq(obj(ms), "resp", "seq-resp-error-" + var)
        # subscription notifications: Notification in map / sequence form x payload in map / sequence form
        key = rng.choice([b'"result"', b'"error"'])
        ptxt, pvar = payload_text(key)
        if rng.random() < 0.5:
            outer = [(b'"jsonrpc"', f_two()), (b'"method"', f_method()), (b'"params"', ptxt)]
            if rng.random() < 0.08:
                outer.pop(rng.randrange(3))
            rng.shuffle(outer)
            t, tag = obj(outer), "seq-sub-oobj-" + pvar
        else:
            fs = [f_two(), f_method(), ptxt]
            r = rng.random()
            ovar = "exact"
            if r < 0.08:
                fs, ovar = fs[:-1], "short"
            elif r < 0.16:
                fs, ovar = fs + [rng.choice([b"null", b"{}"])], "long"
            elif r < 0.22:
                i, j = rng.sample(range(3), 2)
                fs[i], fs[j] = fs[j], fs[i]
                ovar = "swapped"
            t, tag = arr(fs), "seq-sub-oseq-%s-%s" % (ovar, pvar)
        t = G.ws(rng) + t + G.ws(rng)
        if rng.random() < 0.05:
            t = G.mutate_bytes(rng, t)
        for k2 in ("subn", "sube", "notif", "req", "resp"):
            if k2 in ("subn", "sube") or rng.random() < 0.3:
                add(k2, t, tag)
    # the frames measured by hand (kept as fixed cases: they document what serde does)
    FIXED = [b'[-32000,"boom",null]', b'[-32000,"boom"]', b'[-32000,"boom",null,1]', b'[-32000,"boom",{"a":1}]', b"[]", b"[[]]",
             b'{"jsonrpc":"2.0","id":0,"error":[-32000,"boom",null]}', b'{"jsonrpc":"2.0","id":0,"error":[-32000,"boom"]}',
             b'["2.0",5,1]', b'[null,{"x":1},1]', b'["2.0",5,"echo",[1]]', b'["2.0",5,"echo",null]', b'["2.0",5,"echo"]',
             b'["2.0",5,"echo",[1],{}]', b'["2.0","alpha",[7]]', b'["2.0","alpha",null]', b'["2.0","alpha"]', b'[1]', b'[null]', b'[1,2]',
             b'{"jsonrpc":"2.0","method":"ev1","params":[1,5]}', b'["2.0","ev1",{"subscription":1,"result":5}]', b'["2.0","ev1",[1,5]]',
             b'["2.0","ev1",[1,5,6]]', b'["2.0","ev1",[1]]', b'["2.0","ev1",[1,null]]', b'["2.0","ev1",{"subscription":1,"error":5}]',
             b'["2.0","ev1",{"subscription":1,"result":5},null]', b'[null,"ev1",[1,5]]', b'[1,"m",1,', b'[1,"m",1,]', b'[1,"m",1 2]',
             b'[1,"m",]', b'[,1,"m",1]', b'[1,"m",1]x', b'[1,"m","\xff"]']
    for t in FIXED:
        for k2 in ALL_READERS:
            add(k2, t, "seq-fixed")
    # ---- exhaustive: response members, all subsets / orders / one duplication, with value variants
    variants = {
        "jsonrpc": [b'"2.0"', b"null", b'"1.0"'],
        "id": [b"1", b"null", b'"a"', b"1.5"],
        "result": [b"null", b"[1, 2]"],
        "error": [b'{"code":-32000,"message":"m"}', b'{"code":1}', b"null", b'[-32000,"m",null]', b'[-32000,"m"]'],
        "zz": [b"{}"],
    }
    names = list(variants)
    seqs = set()
    for r in range(0, 6):
        for sub in itertools.permutations(names, r):
            seqs.add(sub)
    for r in range(1, 4):
        for sub in itertools.permutations(names, r):
            for d in sub:
                for pos in range(len(sub) + 1):
                    seqs.add(sub[:pos] + (d,) + sub[pos:])
    seqs = sorted(seqs)
    if not (ctx.thorough or ctx.search_mode):
        seqs = rng.sample(seqs, 600)
    for sub in seqs:
        choice = {k: rng.choice(variants[k]) for k in names} if not ctx.thorough else None
        combos = [choice] if choice else [dict(zip(names, c)) for c in itertools.product(*[variants[k] for k in names])][:: 7]
        for c in combos:
            t = b"{" + b",".join(q(k) + b":" + c[k] for k in sub) + b"}"
            add("resp", t, "resp-exhaustive")
    return cases


def expected_resp_accept(text):
    """Direct oracle for 'the response parser accepts an object exactly when ...' on texts Python can
    parse with member lists preserved.  Returns True/False/None (None = outside the oracle's domain)."""
    try:
        pairs = json.loads(text.decode("utf-8"), object_pairs_hook=lambda p: ("obj", p), parse_int=lambda s: ("int", s))
    except Exception:
        return None
    if not (isinstance(pairs, tuple) and pairs[0] == "obj"):
        return False

    def has_lone_surrogate(v):
        if isinstance(v, str):
            return any(0xD800 <= ord(ch) <= 0xDFFF for ch in v)
        if isinstance(v, tuple) and v and v[0] == "obj":
            return any(has_lone_surrogate(k) or has_lone_surrogate(x) for k, x in v[1])
        if isinstance(v, (list, tuple)):
            return any(has_lone_surrogate(x) for x in v)
        return False
    if has_lone_surrogate(pairs):
        # Python's json keeps an unpaired \uD800..\uDFFF escape, serde_json rejects it wherever the string is really parsed and
        # lets it pass where the value is only skipped: outside this oracle's domain (the model/implementation diff judges it)
        return None
    ms = pairs[1]
    cnt = lambda k: sum(1 for kk, _ in ms if kk == k)
    get = lambda k: next(v for kk, v in ms if kk == k)
    if cnt("id") != 1 or cnt("jsonrpc") > 1 or cnt("result") > 1 or cnt("error") > 1:
        return False
    i = get("id")
    isint = lambda v: isinstance(v, tuple) and v[0] == "int"
    if not (i is None or (isint(i) and not i[1].startswith("-") and int(i[1]) < 2**64) or isinstance(i, str)):
        return False
    if cnt("jsonrpc") == 1 and get("jsonrpc") not in (None, "2.0"):
        return False
    if cnt("result") + cnt("error") != 1:
        return False
    if cnt("error") == 1:
        e = get("error")
        if isinstance(e, list):
            # ErrorObject is a derived struct: serde also reads its sequence form [code, message, data], all three present
            return (len(e) == 3 and isint(e[0]) and e[0][1] != "-0" and -2**31 <= int(e[0][1]) < 2**31
                    and isinstance(e[1], str))
        if not (isinstance(e, tuple) and e[0] == "obj"):
            return False
        em = e[1]
        ec = lambda k: sum(1 for kk, _ in em if kk == k)
        eg = lambda k: next(v for kk, v in em if kk == k)
        if any(kk not in ("code", "message", "data") for kk, _ in em):
            return False
        if ec("code") != 1 or ec("message") != 1 or ec("data") > 1:
            return False
        c = eg("code")
        if not (isint(c) and c[1] != "-0" and -2**31 <= int(c[1]) < 2**31) or not isinstance(eg("message"), str):
            return False
    return True


def run(ctx):
    ctx.engines = ["wire (harness/src/bin/wire.rs vs modelrun/wire_driver.ml over coq/Model/Wire.v)",
                   "srvlimits (only: the bodies of the server's HTTP rejections must be JSON-RPC 2.0 error responses)"]
    # (0) "only valid JSON-RPC 2.0 is emitted", on the wire: every HTTP rejection class of the body-reading path, every entry point
    from props import c07
    c07.http_error_bodies(ctx)
    impl, model = vlib.rust_bin("wire"), vlib.model_bin("wire")
    # (1) the 2^32 sweep against the translated table
    rc, out = vlib.sh([impl, "sweep"], timeout=600)
    ctx.evaluations += 1
    named_impl = dict((int(c), k) for c, k in re.findall(r"^named (-?\d+) (\S+)$", out, re.M))
    bad = re.findall(r"^bad (-?\d+)$", out, re.M)
    kinds = re.findall(r"^kind (\S+) (-?\d+) (\S+)$", out, re.M)
    ctx.extra["code_sweep"] = {"swept": int(re.search(r"swept (\d+)", out).group(1)) if rc == 0 else 0, "named": named_impl}
    gen = open(os.path.join(vlib.COQ, "Gen", "ErrorCodesGen.v")).read()
    named_model = dict((int(c), k) for c, k in re.findall(r"if c =\? \((-?\d+)\) then K(\w+) else", gen))
    for c in bad:
        ctx.fail("oracle", "code-roundtrip", {"code": int(c)}, "ErrorCode::from(%s).code() != %s or kind not stable" % (c, c))
    for k, c, k2 in kinds:
        if k != k2:
            ctx.fail("oracle", "kind-roundtrip:" + k, {"kind": k, "code": int(c), "back": k2},
                     "ErrorCode::%s -> %s -> %s" % (k, c, k2))
    if named_impl != named_model:
        ctx.fail("diff", "code-table-differs", {"impl": named_impl, "model": named_model},
                 "compiled From<i32> and the translated kind_of_code differ")
    # (1b) error objects built through the public constructors round-trip (incl. data that serialises to `null`)
    datas = [b"", b"null", b"1", b'"x"', b"[null]", b'{"a":null}', b"false", b"0", b'""', b"[]"]
    r = vlib.run_lines([impl], ["mkerr %s" % hx(d) for d in datas])
    for d, a in zip(datas, r):
        ctx.evaluations += 1
        if "eq=false" in a or "same_bytes=false" in a or a.startswith(("PANIC", "CRASH", "?")):
            ctx.fail("oracle", "errobj-constructed-roundtrip", {"kind": "mkerr", "text_hex": d.hex(), "data": d.decode()}, a)
    # (1c) values built through the public API: serialise, parse back, compare, re-serialise -- the round-trip clause of the
    #      property stated on the implementation alone, over strings needing every kind of escape
    STR = ["", "a", "a\"b", "back\\slash", "line\nfeed", "tab\t", "nul\u0000", "\u001f", "\u007f", "é", "€", "😀", "\u2028", "/", " ",
           "]},{[", "null", "2.0", "0", "-1", "18446744073709551616", "\b\f\r", "'", "\ud7ff", "\ufffd"]
    NUM = [0, 1, 2**31, 2**53, 2**63 - 1, 2**63, 2**64 - 1]
    PAY = [b"null", b"1", b'"x"', b"[]", b"{}", b'[1,"a",{"b":[null]}]', b"-0.5", b'"\u00e9"', b"true", b'{"a":{"a":{"a":1}}}']
    idspecs = ["null"] + ["n%d" % n for n in NUM] + ["s" + hx(x.encode()).replace("-", "") for x in STR]
    subspecs = [x for x in idspecs if x != "null"]
    rt = []
    for i in idspecs:
        rt.append(("id", [i]))
    for i in subspecs:
        rt.append(("subid", [i]))
    rngl = ctx.rng
    for i in idspecs:
        rt.append(("req", [i, hx(rngl.choice(STR).encode()) or "-", rngl.choice([hx(p_) for p_ in PAY if p_ != b"null"] + ["-"])]))
        rt.append(("resp", [i, "r", hx(rngl.choice(PAY))]))
        rt.append(("resp", [i, "e", str(rngl.choice([0, -1, 1, -32700, -32009, 2**31 - 1, -2**31])), hx(rngl.choice(STR).encode()) or "-",
                            rngl.choice([hx(p_) for p_ in PAY] + ["-"])]))
    for me in STR:
        rt.append(("notif", [hx(me.encode()) or "-", rngl.choice([hx(p_) for p_ in PAY if p_ != b"null"] + ["-"])]))
    for i in subspecs:
        rt.append(("subn", [i, hx(rngl.choice(STR).encode()) or "-", hx(rngl.choice(PAY))]))
        rt.append(("sube", [i, hx(rngl.choice(STR).encode()) or "-", hx(rngl.choice(PAY))]))
    rr = vlib.run_lines([impl], ["rt %s %s" % (hx(w.encode()), " ".join(a)) for w, a in rt])
    for (w, a), o in zip(rt, rr):
        ctx.evaluations += 1
        ctx.count("api-roundtrip:" + w)
        if not o.startswith("eq=true same=true"):
            ctx.fail("oracle", "api-roundtrip:" + w, {"kind": "rt", "what": w, "args": a}, o[:300])
    # (2) text cases
    cases = gen_cases(ctx)
    lines = ["%s %s" % (k, hx(t)) for k, t, _ in cases]
    ri = vlib.run_lines([impl], lines)
    rm = vlib.run_lines([model], lines)
    second = []
    for (kind, text, tag), a, b in zip(cases, ri, rm):
        ctx.count(tag)
        ctx.count("accepted" if a != "-" else "rejected")
        a_cmp = a
        if kind == "json" and b.startswith("ok "):
            b = "ok"     # serde_json::Value is not re-serialised by the impl side (map order, float format)
        if a_cmp != b:
            ctx.fail("diff", "wire-model-differs:" + kind, {"kind": kind, "text_hex": text.hex(), "text": text.decode("latin1")},
                     {"impl": a, "model": b})
        ctx.record({"kind": kind, "text": text.decode("latin1")}, a, nontrivial=(a != "-"))
        if a.startswith("PANIC") or a.startswith("CRASH"):
            ctx.fail("oracle", "wire-panic", {"kind": kind, "text_hex": text.hex()}, a)
        # direct oracle: response acceptance
        if kind == "resp":
            exp = expected_resp_accept(text)
            if exp is not None and exp != (a != "-"):
                ctx.fail("oracle", "response-accept-iff", {"kind": kind, "text_hex": text.hex(), "text": text.decode("latin1")},
                         "parser %s the object; the property says it should %s" % ("accepted" if a != "-" else "rejected", "accept" if exp else "reject"))
        # direct oracle: round-trip on the implementation alone (second pass)
        if a != "-" and kind not in ("json", "raw", "inv") and " " in a:
            canon, _, reser = a.rpartition(" ")
            second.append((kind, canon, reser))
        if kind == "resp" and a.startswith("resp j:1"):
            reser = bytes.fromhex(a.rpartition(" ")[2])
            try:
                o = json.loads(reser.decode("utf-8"), object_pairs_hook=lambda p: p)
                ks = [k for k, _ in o]
                good = ks.count("jsonrpc") == 1 and dict(o)["jsonrpc"] == "2.0" and ks.count("id") == 1 and ks.count("result") + ks.count("error") == 1
            except Exception:
                good = False
            if not good:
                ctx.fail("oracle", "emitted-response-invalid", {"text_hex": text.hex()}, reser.decode("latin1"))
    l2 = ["%s %s" % (k, r) for k, _, r in second]
    r2 = vlib.run_lines([impl], l2)
    for (kind, canon, reser), a in zip(second, r2):
        ctx.evaluations += 1
        if a != canon + " " + reser:
            ctx.fail("oracle", "roundtrip:" + kind, {"kind": kind, "text_hex": reser},
                     {"first": canon + " " + reser, "second": a})
    ctx.count("roundtrip-second-pass", len(second))


def replay(payload):
    case = payload["case"]
    print(json.dumps(payload, indent=1)[:3000])
    if isinstance(case, dict) and "text_hex" in case:
        line = "%s %s\n" % (case.get("kind", "resp"), case["text_hex"] or "-")
        for name, cmd in (("impl", vlib.rust_bin("wire")), ("model", vlib.model_bin("wire"))):
            rc, out = vlib.sh([cmd], input=line)
            print(name, "->", out.strip())
    return 0
