"""C16 -- params decoding agrees with a plain JSON parse and fails only with -32602."""
import json, re
import vlib
from gen import jsongen as G

TRANSLATORS = ["error_codes"]
MODELS = ["params"]
BINS = {"release": ["params"]}
RULE = ("case = (params text | None, read script of next:<ty>/opt:<ty>/parse:<ty>/one:<ty> over the 27 concrete Rust types "
        "listed by `params types`), run through the real jsonrpsee_types::Params/ParamsSequence and through the extracted Coq "
        "model; generated from: type-directed arrays (matching and mismatching elements, whitespace-heavy), random nested "
        "values, scalars/objects/None as params, a fixed list of edge texts (`[ ]`, `[\\n]`, nested empties, strings holding "
        "`],[`, missing/extra commas, Unicode white space, depth 126..129) under random scripts, and byte mutations; thorough adds "
        "every ordered pair of sequence reads over the universe on 5 arrays.  Direct oracle (Python json.loads + a small type checker, "
        "independent of Coq): on JSON texts every read equals the element at its position decoded at the type / absent / -32602, "
        "parse/one equal the decoded whole value; on every text: only -32602, no panic, no element after a failed read.  "
        "distinct non-trivial = distinct result lines containing at least one decoded value")
TRUSTED = [
    "translator tools/translate.py:error_codes (the -32602 constant is read from types/src/error.rs)",
    "modelled, not verified: serde/serde_json typed deserialisation = strict parse (Json/JsonParse.v) followed by `decode` at the "
    "type; StreamDeserializer::next/peek_end_of_value; str::trim/trim_start as Unicode White_Space on UTF-8 -- tied by the differential run only",
    "model driver canonicalisation of serde_json::Value output (object keys sorted, last duplicate wins) is OCaml glue, not Coq",
]
ASSUMPTIONS = [
    "params texts are valid UTF-8 (a Rust &str); the generators only emit valid UTF-8",
    "floats are lexemes in the model: numbers that are not i64/u64 integers are compared as Python float(lexeme) on both sides with "
    "relative tolerance 1e-14 (serde_json's default, non-float_roundtrip, float parser is not correctly rounded, e.g. 9007199254740993.0, "
    "2.5e-31); literals outside the f64 range (1e999), which serde rejects, are outside the generators",
    "which serde error message is produced is not compared: every failure is reduced to its code",
    "the theorems speak about texts that a plain JSON parse accepts (JSON white space only around the value); texts that are JSON only "
    "after Params::new's Unicode trim are covered by C16_typed_agrees_stored and by the model diff, the direct oracle is silent there",
    "texts that are not JSON (never produced by the request parser) are only required to give -32602 / no panic / no element after a "
    "failed read: e.g. `[1 [2]]` and `[1 <U+00A0>,2]` are read as two elements by the code and by the model",
]

U64MAX, I64MIN, I64MAX = 2**64 - 1, -2**63, 2**63 - 1
RUST_WS = "\t\n\x0b\x0c\r \x85\xa0\u1680" + "".join(chr(c) for c in range(0x2000, 0x200b)) + "\u2028\u2029\u202f\u205f\u3000"
UWS = [c.encode("utf-8") for c in RUST_WS]
BAD_FLOAT = re.compile(rb"9007199254740993|[eE][+-]?\d{3,}|\d{200,}")


# ------------------------------------------------------------------ types
def parse_ty(s):
    pos = [0]

    def word():
        m = re.compile(r"[a-z0-9]+").match(s, pos[0])
        pos[0] = m.end()
        return m.group(0)

    def eat(c):
        assert s[pos[0]] == c, s
        pos[0] += 1

    def go():
        w = word()
        if w in ("u64", "i64", "bool", "str", "val"):
            return (w,)
        if w in ("opt", "vec"):
            eat("(")
            t = go()
            eat(")")
            return (w, t)
        if w == "pair":
            eat("(")
            a = go()
            eat(",")
            b = go()
            eat(")")
            return (w, a, b)
        raise ValueError(s)

    t = go()
    assert pos[0] == len(s), s
    return t


# ------------------------------------------------------------------ python-side JSON (the direct oracle's reading of a text)
class Bad(Exception):
    pass


def _const(_):
    raise Bad("constant")


def norm_num(lex):
    """serde_json's classification: u64 / i64 integer, otherwise f64."""
    if re.fullmatch(r"-?\d+", lex) and lex != "-0":
        n = int(lex)
        if I64MIN <= n <= U64MAX:
            return ("int", n)
    f = float(lex)
    if f in (float("inf"), float("-inf")):
        raise Bad("float range")
    return ("float", repr(f))


class Obj:
    """an object as written: every member, duplicates included (serde rejects a bad string even in a shadowed member)"""
    def __init__(self, pairs):
        self.pairs = pairs


def loads(text):
    """text (str) -> tagged tree; raises on anything serde_json would reject (within the generators' domain)."""
    v = json.loads(text, parse_int=norm_num, parse_float=norm_num, parse_constant=_const, object_pairs_hook=Obj)
    check(v, 0)
    return plain(v)


def check(v, d):
    if isinstance(v, str):
        if any("\ud800" <= c <= "\udfff" for c in v):
            raise Bad("lone surrogate")
    elif isinstance(v, list):
        if d + 1 > 127:
            raise Bad("depth")
        for x in v:
            check(x, d + 1)
    elif isinstance(v, Obj):
        if d + 1 > 127:
            raise Bad("depth")
        for k, x in v.pairs:
            check(k, d + 1)
            check(x, d + 1)


def plain(v):
    """serde_json::Value view: the last duplicate of a key wins"""
    if isinstance(v, list):
        return [plain(x) for x in v]
    if isinstance(v, Obj):
        return {k: plain(x) for k, x in v.pairs}
    return v


NO = object()


def decode(t, v):
    """the small type checker: value of Rust type t denoted by the JSON value v, or NO"""
    k = t[0]
    if k == "u64":
        return v if isinstance(v, tuple) and v[0] == "int" and 0 <= v[1] <= U64MAX else NO
    if k == "i64":
        return v if isinstance(v, tuple) and v[0] == "int" and I64MIN <= v[1] <= I64MAX else NO
    if k == "bool":
        return v if isinstance(v, bool) else NO
    if k == "str":
        return v if isinstance(v, str) else NO
    if k == "val":
        return v
    if k == "opt":
        return None if v is None else decode(t[1], v)
    if k == "vec":
        if not isinstance(v, list):
            return NO
        r = [decode(t[1], x) for x in v]
        return NO if any(x is NO for x in r) else r
    if k == "pair":
        if not isinstance(v, list) or len(v) != 2:
            return NO
        a, b = decode(t[1], v[0]), decode(t[2], v[1])
        return NO if a is NO or b is NO else [a, b]
    raise ValueError(t)


def expected(text, script):
    """What the property demands of each read, or None where it only demands 'error code / no panic / sticky'.
       text: str or None.  Returns (list of expectations | None, class name)."""
    if text is None:
        tree, cls = None, "none"
        elems = []
    else:
        try:
            tree = loads(text)          # plain JSON parse of the text as given (JSON white space only)
        except (Bad, ValueError, RecursionError):
            try:
                loads(text.strip(RUST_WS))
                # JSON only after Params::new's Unicode trim: the property is silent, the model diff covers it
                return None, "json-after-unicode-trim"
            except (Bad, ValueError, RecursionError):
                return None, "not-json"
        if isinstance(tree, list):
            elems, cls = list(tree), "array"
        else:
            elems, cls = None, "object" if isinstance(tree, dict) else "scalar"
    exp = []
    for kind, ty in script:
        t = parse_ty(ty)
        if kind == "parse":
            r = decode(t, tree)
            exp.append(("err",) if r is NO else ("ok", r))
        elif kind == "one":
            if isinstance(tree, list) and len(tree) == 1:
                r = decode(t, tree[0])
                exp.append(("err",) if r is NO else ("ok", r))
            else:
                exp.append(("err",))
        elif elems is None:
            exp.append(("err",))           # an object / scalar handed to sequence(): every read is an error
        elif not elems:
            exp.append(("err",) if kind == "next" else ("absent",))
        else:
            v = elems[0]
            if kind == "opt" and v is None:
                exp.append(("absent",))
                elems = elems[1:]
                continue
            r = decode(t, v)
            if kind == "opt" and r is None:      # Option<Option<T>> etc. cannot happen for non-null v
                r = NO
            if r is NO:
                exp.append(("err",))
                elems = []
            else:
                exp.append(("ok", r))
                elems = elems[1:]
    return exp, cls


# ------------------------------------------------------------------ output comparison (floats by value, with tolerance)
TOK = re.compile(r'"(?:[^"\\]|\\.)*"|-?\d+(?:\.\d+)?(?:[eE][+-]?\d+)?')
FTOL = 1e-14      # serde_json's default float parser may be off in the last bits; floats are not the property's subject


def feq(a, b):
    """two ('int', n) / ('float', repr) numbers denote the same serde number (floats up to FTOL, sign of zero kept)"""
    if a[0] != b[0]:
        return False
    if a[0] == "int":
        return a[1] == b[1]
    x, y = float(a[1]), float(b[1])
    if x == y:
        return (a[1][0] == "-") == (b[1][0] == "-")
    return abs(x - y) <= FTOL * max(abs(x), abs(y))


def tree_eq(a, b):
    if isinstance(a, tuple) and isinstance(b, tuple):
        return feq(a, b)
    if type(a) != type(b):
        return False
    if isinstance(a, list):
        return len(a) == len(b) and all(tree_eq(x, y) for x, y in zip(a, b))
    if isinstance(a, dict):
        return a.keys() == b.keys() and all(tree_eq(a[k], b[k]) for k in a)
    return a == b


def json_tokens(s):
    """compact JSON text -> token list: text between numbers verbatim, numbers classified as serde does"""
    out, pos = [], 0
    for m in TOK.finditer(s):
        x = m.group(0)
        if x[0] == '"':
            continue
        out.append(s[pos:m.start()])
        try:
            out.append(norm_num(x))
        except Bad:
            out.append(x)
        pos = m.end()
    out.append(s[pos:])
    return out


def tokens_eq(a, b):
    if len(a) != len(b):
        return False
    for x, y in zip(a, b):
        if isinstance(x, tuple) and isinstance(y, tuple):
            if not feq(x, y):
                return False
        elif x != y:
            return False
    return True


def lines_agree(a, b):
    """implementation line vs model line: equal up to the float format of serde_json::Value numbers"""
    if a == b:
        return True
    pa, pb = a.split(" "), b.split(" ")
    if len(pa) != len(pb):
        return False
    for x, y in zip(pa, pb):
        if x == y:
            continue
        if not (x.startswith("ok:") and y.startswith("ok:")):
            return False
        try:
            tx, ty = bytes.fromhex(x[3:]).decode("utf-8"), bytes.fromhex(y[3:]).decode("utf-8")
        except ValueError:
            return False
        if not tokens_eq(json_tokens(tx), json_tokens(ty)):
            return False
    return True


# ------------------------------------------------------------------ generators
def wsx(rng, p=0.5):
    return G.ws(rng, p)


def good_value(rng, depth=2):
    while True:
        v = G.value(rng, depth, wsp=0.4)
        if not BAD_FLOAT.search(v):
            return v


def value_of(rng, t, good=True):
    """JSON text of a value that the Rust type t accepts (good) or a near miss / random value (not good)."""
    k = t[0]
    if not good:
        r = rng.random()
        if r < 0.5:
            return good_value(rng, 2)
        miss = {
            "u64": [b"-1", b"1.0", b"18446744073709551616", b'"1"', b"null", b"-0", b"1e2", b"[1]", b"true"],
            "i64": [b"9223372036854775808", b"-9223372036854775809", b"1.5", b'"-1"', b"null", b"-0", b"{}"],
            "bool": [b"0", b"1", b'"true"', b"null", b"[true]"],
            "str": [b"1", b"null", b'["a"]', b"true", b"{}"],
            "val": [b"nul", b"tru", b"1.", b"-", b'"\\ud800"', b"[1,]", b"{,}", b"01"],
            "opt": [b"[]", b"{}", b'"x"', b"1.5", b"-1", b"false", b"0"],
            "vec": [b"{}", b"1", b'"[]"', b"[1,\"a\"]", b"[null]", b"[[1],2]", b"[-1]", b"[1.5]", b"null"],
            "pair": [b"[]", b"[1]", b'[1,"a",2]', b'["a",1]', b"{}", b"null", b'[1,"a"', b"[[1],[2]]"],
        }[k]
        return rng.choice(miss)
    if k == "u64":
        return str(rng.choice([0, 1, 2, 7, 42, 255, 2**32, 2**53, 2**63 - 1, 2**63, 2**64 - 1, rng.randrange(0, 100000)])).encode()
    if k == "i64":
        return str(rng.choice([0, 1, -1, 42, -42, 2**31, -2**31, 2**63 - 1, -2**63, rng.randrange(-1000, 1000)])).encode()
    if k == "bool":
        return rng.choice([b"true", b"false"])
    if k == "str":
        return G.string(rng)
    if k == "val":
        return good_value(rng, 2)
    if k == "opt":
        return b"null" if rng.random() < 0.3 else value_of(rng, t[1])
    if k == "vec":
        n = rng.choice([0, 0, 1, 2, 3])
        items = [wsx(rng) + value_of(rng, t[1]) + wsx(rng) for _ in range(n)]
        return b"[" + (b",".join(items) if items else wsx(rng)) + b"]"
    if k == "pair":
        return b"[" + wsx(rng) + value_of(rng, t[1]) + wsx(rng) + b"," + wsx(rng) + value_of(rng, t[2]) + wsx(rng) + b"]"
    raise ValueError(t)


def outer_ws(rng):
    r = rng.random()
    if r < 0.5:
        return b""
    if r < 0.9:
        return wsx(rng, 1.0)
    return b"".join(rng.choice(UWS) for _ in range(rng.randint(1, 2)))


def array_text(rng, elems):
    body = b",".join(wsx(rng) + e + wsx(rng) for e in elems) if elems else wsx(rng)
    return outer_ws(rng) + b"[" + body + b"]" + outer_ws(rng)


EDGE_TEXTS = [
    b"[]", b"[ ]", b"[\n]", b"[\t\r\n ]", b" [] ", b"\t[ ]\n", b"[[]]", b"[[],[]]", b"[ [ ] , [ ] ]", b"[{}]", b"[{},[]]", b"[[[]]]",
    b'["],["]', b'["a,b","]"]', b'["[","]",","]', b'["\\"]",1]', b'["\\\\",2]', b'[" ] , [ ", 3]', b'["\\u005d",4]',
    b"[null]", b"[null,null]", b"[null, 1, null]", b"[1,null]", b"[ null ]",
    b"[1,]", b"[,1]", b"[1 2]", b"[1[2]]", b'[1"a"]', b"[1,,2]", b"[", b"]", b",", b"[1", b"[1,", b"[1, ", b"[ ", b", 1]", b"] 1", b"]]",
    b"[tru]", b"[truex]", b"[nullx,1]", b"[1x]", b"[1 x]", b"[-]", b"[1.]", b"[01]", b"[1:2]", b"[true:1]", b"[1}2]", b"[1{}]", b"[null{}]",
    b"[1]x", b"[1] 2", b"[1],[2]", b"[1]]", b"[[1]", b"{}", b"{ }", b'{"a":1}', b'{"a":[1,2]}', b"1", b"-1", b"1.5", b'"s"', b'"[1]"', b"true", b"null",
    b"", b" ", b"\n", b"nul", b"[1]\x0b", b"\x0c[1]", b"[1,\x0b2]", b"[1\x0b,2]", b"[1\x0c]", b"[1 \xc2\xa0, 2]", b"[1,\xc2\xa0 2]", b"\xc2\xa0[1]\xe2\x80\xa8",
    b"\xe3\x80\x80[ ]\xc2\x85", b"[1\xe2\x80\x8a]", b"[1\xe2\x80\x8b]", b"[\xc2\xa0]", b"[\xc2\xa0 1]",
    b"[18446744073709551615,18446744073709551616,-9223372036854775808,-9223372036854775809]", b"[-0,0,-0.0,0.0]",
    b"[1e3,1E+2,2.5e-3,0e0,1.5,0.25,-2.5]", b"[1000000000000000000000000000000]",
    b'[{"a":1,"a":2}]', b'[{"b":1,"a":2}]', b'[{"":null}]', b'["\\ud83d\\ude00","\xf0\x9f\x98\x80"]', b'["\\ud800"]', b'["\\udc00",1]', b'[1,"\\ud800"]',
]


def gen_cases(ctx, types, n, first_round=True):
    rng = ctx.rng
    tys = [(t, parse_ty(t)) for t in types]
    cases = []

    def rnd_read(kinds=("next", "next", "next", "opt", "opt", "parse", "one")):
        return (rng.choice(kinds), rng.choice(types))

    def rnd_script(maxlen=4):
        return [rnd_read() for _ in range(rng.randint(1, maxlen))]

    def add(text, script, tag):
        cases.append((text, script, tag))

    # (A) type-directed arrays: the script reads what the text holds, with mismatches and reads past the end
    for _ in range(int(n * 0.45)):
        k = rng.choice([0, 1, 1, 2, 2, 3, 3, 4])
        chosen = [rng.choice(tys) for _ in range(k)]
        elems, script = [], []
        for name, t in chosen:
            kind = rng.choice(["next", "next", "opt"])
            good = rng.random() < 0.85
            if kind == "opt" and rng.random() < 0.25:
                elems.append(b"null")
            else:
                elems.append(value_of(rng, t, good))
            script.append((kind, name))
        # skip-reads: sometimes read fewer, sometimes more
        r = rng.random()
        if r < 0.15 and script:
            script = script[:rng.randrange(len(script))] or [rnd_read(("next", "opt"))]
        elif r < 0.6:
            script += [rnd_read(("next", "opt", "opt")) for _ in range(rng.choice([1, 1, 2]))]
        if rng.random() < 0.25:
            whole = rng.choice(["vec(val)", "val", "opt(vec(val))", "vec(u64)", "vec(str)", "pair(u64,str)", "pair(val,bool)", "vec(opt(i64))"])
            script.insert(rng.randrange(len(script) + 1), ("parse", whole))
        if rng.random() < 0.2:
            script.insert(rng.randrange(len(script) + 1), ("one", chosen[0][0] if chosen and rng.random() < 0.7 else rng.choice(types)))
        text = array_text(rng, elems)
        if BAD_FLOAT.search(text):
            continue
        add(text, script[:6] or [rnd_read(("next", "opt"))], "typed-array")
    # (B) random nested values as params (arrays most of the time), random scripts
    for _ in range(int(n * 0.2)):
        v = good_value(rng, rng.choice([1, 2, 3]))
        if rng.random() < 0.7 and not v.startswith(b"["):
            v = array_text(rng, [good_value(rng, 2) for _ in range(rng.choice([0, 1, 2, 3, 5]))])
        else:
            v = outer_ws(rng) + v + outer_ws(rng)
        if BAD_FLOAT.search(v):
            continue
        add(v, rnd_script(), "random-value")
    # (C) whole-value reads: parse:<ty> / one:<ty> on a value of that type (or a near miss)
    for _ in range(int(n * 0.1)):
        name, t = rng.choice(tys)
        good = rng.random() < 0.8
        v = value_of(rng, t, good)
        if rng.random() < 0.5:
            text, script = outer_ws(rng) + v + outer_ws(rng), [("parse", name), rnd_read()]
        else:
            text, script = array_text(rng, [v] if rng.random() < 0.85 else [v, v]), [("one", name), ("parse", "vec(%s)" % name if "vec(%s)" % name in types else "val"), rnd_read()]
        if BAD_FLOAT.search(text):
            continue
        add(text, script, "whole-value")
    # (D) absent params
    for _ in range(max(60, int(n * 0.01))):
        add(None, rnd_script(), "none")
    # (E) edge texts under many scripts (all single reads, then random scripts)
    deep = [b"[" + G.deep(rng, d) + b"]" for d in (1, 2, 125, 126, 127, 128, 129)] + [G.deep(rng, d) for d in (127, 128, 129)]
    per = max(4, int(n * 0.12) // (len(EDGE_TEXTS) + len(deep)))
    for t in EDGE_TEXTS + deep:
        for kind in ("next", "opt"):
            for ty in ("u64", "val", "opt(u64)", "vec(u64)", "vec(val)", "str"):
                add(t, [(kind, ty), rnd_read(("next", "opt")), rnd_read(("next", "opt"))], "edge-text")
        for _ in range(per):
            add(t, rnd_script(), "edge-text")
    # (F) malformed: byte mutations of well-formed cases
    base = [c for c in cases if c[0]]
    for _ in range(int(n * 0.13)):
        text, script, _ = rng.choice(base)
        m = G.mutate_bytes(rng, text)
        try:
            m.decode("utf-8")
        except UnicodeDecodeError:
            continue
        if BAD_FLOAT.search(m):
            continue
        add(m, script if rng.random() < 0.6 else rnd_script(), "mutated")
    # exhaustive small space (thorough): every ordered pair of sequence reads over the universe on a few arrays
    if (ctx.thorough or ctx.search_mode) and first_round:
        reads = [(k, t) for k in ("next", "opt") for t in types]
        for text in (b'[1, "a"]', b"[null,[1,2]]", b'[ [1,"a"] , true ]', b"[ ]", b'[-1, {"k":[1]}]'):
            for a in reads:
                for b in reads:
                    add(text, [a, b, ("opt", "val")], "exhaustive-pairs")
    return cases


def line_of(text, script):
    h = "-" if text is None else ("e" if text == b"" else text.hex())
    return " ".join([h] + ["%s:%s" % r for r in script])


def parse_results(line):
    """impl output -> (is_object, list of results) or None (PANIC / CRASH / bad line)"""
    ps = line.split(" ")
    if not ps or not ps[0].startswith("obj="):
        return None
    res = []
    for p in ps[1:]:
        if p == "absent":
            res.append(("absent",))
        elif p.startswith("err:"):
            res.append(("err", int(p[4:])))
        elif p.startswith("ok:"):
            res.append(("ok", bytes.fromhex(p[3:]).decode("utf-8")))
        else:
            return None
    return ps[0] == "obj=1", res


def oracle(ctx, text, script, a, case):
    """The property, restated on the implementation's output alone."""
    if a.startswith("PANIC") or a.startswith("CRASH"):
        ctx.fail("oracle", "params-panic", case, a)
        return
    pr = parse_results(a)
    if pr is None or len(pr[1]) != len(script):
        ctx.fail("oracle", "params-bad-output", case, a)
        return
    is_obj, res = pr
    # every error is -32602
    for r in res:
        if r[0] == "err" and r[1] != -32602:
            ctx.fail("oracle", "error-code-not-32602", case, a)
            return
    # stickiness over the sequence reads
    dead = False
    for (kind, _), r in zip(script, res):
        if kind in ("next", "opt"):
            if dead and r[0] == "ok":
                ctx.fail("oracle", "element-after-error", case, a)
                return
            if r[0] == "err":
                dead = True
    try:
        s = None if text is None else text.decode("utf-8")
    except UnicodeDecodeError:
        return
    exp, cls = expected(s, script)
    ctx.count("oracle:" + cls)
    if exp is None:
        if cls != "not-json":
            return
        # not JSON (even after trimming): whole-value reads must fail
        for (kind, _), r in zip(script, res):
            if kind in ("parse", "one") and r[0] != "err":
                ctx.fail("oracle", "parse-accepts-non-json", case, a)
                return
        return
    if is_obj != (cls == "object"):
        ctx.fail("oracle", "is-object-wrong", case, a)
    for i, (e, r) in enumerate(zip(exp, res)):
        if e[0] != r[0]:
            ctx.fail("oracle", "read-disagrees-with-json-parse:%s-for-%s" % (r[0], e[0]), case,
                     {"read": i, "expected": repr(e)[:200], "got": repr(r)[:200], "out": a})
            return
        if e[0] == "ok":
            try:
                got = loads(r[1])
            except (Bad, ValueError) as ex:
                ctx.fail("oracle", "output-not-json", case, {"read": i, "got": r[1], "why": str(ex)})
                return
            if not tree_eq(got, e[1]):
                ctx.fail("oracle", "read-disagrees-with-json-parse:value", case,
                         {"read": i, "expected": repr(e[1])[:200], "got": r[1][:200]})
                return


def run(ctx):
    ctx.engines = ["params (harness/src/bin/params.rs vs modelrun/params_driver.ml over coq/Model/Params.v)"]
    impl, model = vlib.rust_bin("params"), vlib.model_bin("params")
    rc, out = vlib.sh([impl, "types"])
    types = [l for l in out.split("\n") if l]
    for t in types:
        parse_ty(t)
    ctx.extra["type_universe"] = types
    # quick: one round of 200 000 cases; thorough: 8 rounds of 320 000 (bounded memory), the exhaustive pairs in the first
    rounds, per_round = ctx.scale((1, 200000), (8, 320000))
    for rnd in range(rounds):
        cases = gen_cases(ctx, types, per_round, first_round=(rnd == 0))
        lines = [line_of(t, s) for t, s, _ in cases]
        ri = vlib.run_lines([impl], lines)
        rm = vlib.run_lines([model], lines)
        for (text, script, tag), line, a, b in zip(cases, lines, ri, rm):
            ctx.count(tag)
            ctx.count("script-len-%d" % len(script))
            case = {"line": line, "text": None if text is None else text.decode("utf-8", "replace"), "script": ["%s:%s" % r for r in script]}
            if not lines_agree(a, b):
                ctx.fail("diff", "params-model-differs", case, {"impl": a, "model": b})
            oracle(ctx, text, script, a, case)
            ctx.record(case, a, nontrivial=(" ok:" in a))
            for p in a.split(" ")[1:]:
                ctx.count("result:" + p.split(":")[0])


def replay(payload):
    case = payload["case"]
    print(json.dumps(payload, indent=1)[:3000])
    if isinstance(case, dict) and "line" in case:
        outs = {}
        for name, cmd in (("impl", vlib.rust_bin("params")), ("model", vlib.model_bin("params"))):
            rc, out = vlib.sh([cmd], input=case["line"] + "\n")
            outs[name] = out.strip()
            print(name, "->", out.strip())
            print("   ", " ".join((p[:3] + bytes.fromhex(p[3:]).decode("utf-8", "replace")) if p.startswith("ok:") else p
                                  for p in out.strip().split(" ")))

        class C:
            failures = []
            def fail(self, *a): self.failures.append(a)
            def count(self, *a): pass
        c = C()
        h = case["line"].split(" ")[0]
        text = None if h == "-" else (b"" if h == "e" else bytes.fromhex(h))
        script = [tuple(r.split(":", 1)) for r in case["line"].split(" ")[1:]]
        oracle(c, text, script, outs["impl"], case)
        print("oracle:", "holds" if not c.failures else "FAILS %s" % (c.failures[0][1],))
        print("model == impl:", lines_agree(outs["impl"], outs["model"]))
        return 1 if c.failures else 0
    return 0
