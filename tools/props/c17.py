"""C17 -- generated APIs: client stub calls reach the server method with equal arguments.

Engine `macroapi`: a fixed family of `#[rpc(client, server, ..)]` traits compiled into harness/src/bin/macroapi.rs with
recording server impls, the REAL async client connected to the generated server's RpcModule through an in-process
transport, against the extracted Coq model (coq/Model/MacroApi.v) run on the API descriptions that
tools/translators/macroapi.py derives from the same trait text.  The direct oracle below is a Python reference of the
property (names, argument passing, result passing) that knows nothing of the Coq model."""
import itertools, json, os, unicodedata
import vlib
from translators import macroapi as T


def impl_bin():
    """the implementation binary; VERIF_MACROAPI_BIN overrides it (used to run the check against a scratch build)"""
    return os.environ.get("VERIF_MACROAPI_BIN") or vlib.rust_bin("macroapi")

TRANSLATORS = ["error_codes", "macroapi", "error_consts"]     # error_consts: Model/MacroApi.v err_invalid_params / err_not_found
MODELS = ["macroapi"]
BINS = {"release": ["macroapi"]}
RULE = ("case = one call on one of the compiled APIs (8 traits, 57 methods/subscriptions: 0..6 parameters, Option tails of 1, 2, 3 and 4 "
        "(positional methods and a positional subscription; every None/Some pattern of the tail is driven through the generated stub), "
        "Option parameters spelled `std::option::Option<T>`, `core::option::Option<T>`, `::core::option::Option<T>`, `option::Option<T>` next to the "
        "prelude `Option<T>` (trait Spell: sync/async/blocking methods and subscriptions, positional and by-name; for each of them every "
        "positional presentation is enumerated: tail omitted at every length x every null/value pattern of the Option arguments given), "
        "an Option in the middle, all-Option, param_kind array/map, renamed arguments, parameters written as raw identifiers (`r#type`, `r#ref`, .. "
        "un-renamed by name and positional, in a by-name subscription, renamed, as an Option tail) and with leading / trailing underscores and "
        "digits (`_lead`, `trail_`, `mid1dle`, `r#type_`), parameters renamed to wire names that are not identifiers (trait Ren, param_kind = map, "
        "sync/async/blocking methods and a subscription: `dir\\name` with a backslash, `say \"hi\"` / `\"` / `a\"b` with double quotes, `gr\u00f6\u00dfe in \u00b5m` with spaces and "
        "non-ASCII letters, `col<TAB>umn` with a control character, ` ` a single space, next to ordinary parameters; one rename literal is written with "
        "`\\u{..}` escapes), namespace with default/custom/empty separator, "
        "aliases, sync/async/blocking, async and sync subscriptions with parameters and typed items, a method without return type, "
        "two labelled negative examples).  `stub` cases call the generated client method with typed argument values (integer "
        "boundaries of u8..u64/i8..i64, Unicode strings incl. escapes/controls/non-BMP, nested structs/enums, Vec, BTreeMap, Option, "
        "serde_json::Value) and a dictated handler outcome (value computed from the received arguments, or an error object with "
        "boundary codes / Unicode message / nested data); `raw` cases hand a hand-built request to the module: positional with "
        "trailing optionals given / null / omitted, absent params, extra elements, whitespace, by-name with any of the three keys "
        "per parameter in any order with unknown members, duplicates, member keys in non-canonical JSON spellings (any character as a `\\uXXXX` escape, "
        "surrogate pairs, `\\/`: serde decodes keys, so they must be accepted; forced for every method of trait Ren), near-miss keys that must not be "
        "accepted (`type` for an un-renamed `r#type`, other separators / cases / affixes; for the names of trait Ren every mis-reading of an escape: the "
        "escape sequence taken literally, the backslash dropped or doubled, `\\n` / `\\t` of an unescaped name read as line feed / tab, other white space, "
        "look-alike and differently normalised letters -- each enumerated), missing and ill-typed arguments, every alias and near-miss "
        "method names, subscriptions through aliases with unsubscribe through every unsubscribe name.  Implementation and extracted "
        "model print: method and params text of the frame the stub sent (compared byte for byte: a correspondence `diff`, key "
        "macroapi-wire-differs, never an oracle failure), identity of the trait method that ran, the argument tuple it received, what "
        "the client got.  Direct oracle (Python reference, independent of Coq; judges only what the property says): "
        "the intended handler ran and RECEIVED values equal to those the stub was called with (None for null/omitted optionals), the client got exactly "
        "the value computed from them / the dictated error object field by field / the items of the subscription, and nothing ran on "
        "-32601/-32602; a generated stub that panics is caught by the harness and judged as a failed call (key panic).  distinct non-trivial = distinct result lines in which a trait method ran")
TRUSTED = [
    "translator tools/translators/macroapi.py: reads the #[rpc] trait text of harness/src/bin/macroapi.rs (the text the macro reads) into the API "
    "descriptions of coq/Gen/MacroApiGen.v; cross-checked on every run against RpcModule::method_names() of the compiled modules and by the differential run; "
    "it also reads how the by-name member key is derived on each side (RpcFnArg::name in rpc_macro.rs, the ParamKind::Map branch of render_client.rs, the "
    "ParamsObject fields of render_server.rs: a small fragment of string expressions, anything else is an anchor error) and writes the resulting client key / "
    "server keys of every parameter as `family_keys` (C17_by_name_keys_agree); that syn::Ident::to_string() keeps `r#` is taken from the token text and judged by the differential run; "
    "and it reads the rule by which the macro takes a parameter for optional (helpers::is_option: last-segment test, whitelist of full paths or ends_with over the path "
    "segments, anything else is an anchor error; that render_params_decoding is its only caller and picks optional_next/next by it is checked textually), applies it to "
    "the spelling of every parameter type and writes the decisions as p_opt and as `family_options` (C17_option_spellings_are_optional); the Python oracle does not use "
    "this reading (it goes by the declared type), step 0d compares the reading with a fixed reference",
    "modelled, not verified: the proc-macro's expansion step (syn/quote) is not translated -- coq/Model/MacroApi.v models the code it emits "
    "(render_client.rs / render_server.rs read by hand), tied to the compiled expansion only by the differential run over the compiled family",
    "modelled, not verified: serde's typed (de)serialisation of argument/result types is a parameter (enc/dec) of the theorems; the driver instance "
    "accepts exactly the canonical serde_json encoding of each type of the family; heck's snake_case/lowerCamelCase is transcribed char by char with the "
    "Unicode classes and case mappings of U+0000..U+00FF (Coq; from U+0100 on: caseless alphanumerics) and ported over Python's Unicode tables (Python oracle); "
    "the two are compared on generated names and on every char of U+0000..U+00FF in every position, the real heck is exercised only through the aliases of the "
    "family's parameter names (incl. `gr\u00f6\u00dfe in \u00b5m` -> `gr\u00f6\u00dfeIn\u039cm`, ` ` -> the empty alias)",
    "translator: the string literal of `#[argument(rename = \"..\")]` (and of every other attribute) is read with Rust's escape processing (quote, ASCII, "
    "`\\xHH`, `\\u{..}` escapes, line continuation; anything else is an anchor error); names that are not printable ASCII are written to the Gen file as byte lists",
    "composition with C20 (builders), C15 (request/response/notification wire types), C13 (registry), C16 (params reader): their models are "
    "used as they are; their own ties to the code are the respective checks",
]
ASSUMPTIONS = [
    "the proc-macro's expansion is modelled, not verified: the theorems are about the emitted code as read from render_client.rs/render_server.rs, "
    "for ALL API descriptions; the tie to the real expansion is the differential run over the compiled family only",
    "argument, result and item types round-trip through serde (dec (enc v) = v, values nested < 127 deep), and the payload type T of an "
    "`Option<T>` parameter never serialises to `null` (Option<Option<_>>, Option<()>: labelled negative example optopt, C17_null_payload_refuted)",
    "for by-name calls no two parameters of a method share a wire name / snake_case alias / lowerCamelCase alias (labelled negative example "
    "collide(a_b, aB), C17_collision_refuted); declared method names, aliases, subscribe and unsubscribe names are pairwise distinct (the macro "
    "rejects a clash at compile time)",
    "optional parameters are those declared with std's Option under one of the spellings `Option`, `option::Option` (with `use std::option`), `std::option::Option`, "
    "`core::option::Option`, with or without a leading `::`; the macro decides from the spelling (helpers::is_option, read from the source on every run: "
    "C17_option_spellings_are_optional for the compiled family).  A type alias of Option (not recognisable by any spelling rule: such a parameter accepts null but "
    "cannot be omitted) and a user type that is merely named `Option` are outside",
    "error objects returned by a method have a data member that is not the JSON text `null` (C15: Option<RawValue> reads null back as absent)",
    "methods WITHOUT a return type are outside the property: the stub sends a notification and a jsonrpsee server never runs a handler for a "
    "notification (shown as the labelled boundary case Plain::note: frame sent, no handler ran)",
    "by-name calls: serde skips unknown members without interpreting them; the model reads the whole object strictly, so unknown members with lone "
    "surrogate escapes or nested deeper than 127 are outside the generators; the `data` string of -32602 errors is not compared",
    "no floats: argument values are integers, strings, booleans, null and containers thereof",
    "Serialize impls that fail (the stub panics, as documented), with_extensions, generic traits and response size limits are not covered",
]

U64 = 2**64


def hx(b):
    return b.hex() if b else "-"


def hxs(s):
    return s.encode("utf-8").hex()


# ------------------------------------------------------------------ description helpers (from the translator)

def rpc_identifier(a, name):
    if a["namespace"] is None:
        return name
    return a["namespace"] + ("_" if a["separator"] is None else a["separator"]) + name


def p_name(q):
    return q["rename"] if q["rename"] is not None else q["ident"]


def unsub_name(s):
    return s["unsub"] if s["unsub"] is not None else "unsubscribe" + s["name"][len("subscribe"):]


# heck 0.5 `transform` (snake_case / lowerCamelCase), ported from the Rust source: one port, in the translator module
heck_words, snake, camel = T.heck_words, T.snake, T.camel


def keys_of(q):
    """the reference: a parameter is accepted under its wire name (rename, else the identifier as written, `r#` included:
    that is the key the stub of the unchanged macro writes) and the two heck aliases of it.  Fixed here, NOT taken from the
    translator's reading of the macro sources (T.key_rules): that reading is compared with this in run() step (0c)"""
    n = p_name(q)
    return [n, snake(n), camel(n)]


def ref_is_option(path):
    """the reference for helpers::is_option: a type is taken for optional iff it is a path whose last segment is `Option`
    (path = (leading `::`, segments), None for a tuple / unit).  Fixed here, NOT taken from the translator's reading of
    helpers.rs (T.option_rule): that reading is compared with this in run() step (0d)"""
    return path is not None and path[1][-1] == "Option"


# spellings beyond those of the family on which the reading of is_option is compared with the reference
OPTION_PROBES = sorted(T.OPTION_SPELLINGS) + [(False, ("settings", "Option")), (False, ("my", "option", "Option")), (True, ("alloc", "option", "Option")),
                                              (False, ("foo", "bar", "Option", "Booyah")), (False, ("Vec",)), (False, ("Optional",)), (False, ("option",)),
                                              (False, ("Option", "Some")), (False, ("std", "option", "Opt")), None]


def qualified_option(q):
    """an Option parameter spelled otherwise than the prelude `Option<T>`"""
    return q["opt"] and T.option_spelling(*q["path"]) != "prelude"


def special_name(q):
    """the wire name is not an identifier: it has a character JSON must escape (`\\`, `"`, a control character), a space or a
    non-ASCII letter (`#[argument(rename = "..")]` takes any string)"""
    return any(not (c.isascii() and (c.isalnum() or c in "_#")) for c in p_name(q))


def near_keys(q):
    """spellings close to a parameter's keys that the generated server must NOT take for it (filtered against the accepted
    keys of the whole method by the caller): the raw identifier without `r#`, other separators and cases, affixes; for a wire
    name with characters JSON escapes: the strings a WRONG reading of an escape yields (the escape sequence taken literally, the
    backslash dropped, `\\n` / `\\t` of an unescaped `dir\\name` read as a line feed / tab, ..), other white space, look-alike and
    differently normalised letters"""
    n = p_name(q)
    bare = q["ident"][2:] if q["ident"].startswith("r#") else q["ident"]
    ws = heck_words(n)
    out = [bare, "r#" + bare, "r#" + n, n.upper(), n + "_", "_" + n, "__" + n, n.replace("#", "-"), n.replace("#", ""), n.replace("#", "##"),
           "-".join(w.lower() for w in ws), "_".join(w.upper() for w in ws), "".join(w[:1].upper() + w[1:].lower() for w in ws),
           n.strip("_") + "__", n[:-1], n + "x", " " + n, n.replace("_", ""), bare.strip("_"), "R#" + bare]
    if special_name(q):
        lit = json.dumps(n)[1:-1]                # the JSON spelling taken literally (backslashes and all) as the key
        out += [lit, json.dumps(n), n.replace("\\", "\\\\"), n.replace("\\", "/"), n.replace("\\", ""), n.replace("\\", "\\u005c"),
                n.replace("\\n", "\n"), n.replace("\\t", "\t"), n.replace("\\", "\\ "), n.replace('"', "'"), n.replace('"', ""), n.replace('"', '\\"'),
                n.replace('"', "\u201d"), n.replace("\t", " "), n.replace("\t", ""), n.replace("\t", "\\t"), n.replace("\t", "\n"), n.replace("\t", "\\u0009"),
                n.replace(" ", "\t"), n.replace(" ", "\u00a0"), n.replace(" ", "  "), n.replace(" ", ""), n.replace(" ", "_", 1), n + " ", n + "\x00",
                n.replace("\u00b5", "\u03bc"), n.replace("\u00df", "ss"), n.replace("\u00f6", "o"), n.replace("\u00f6", "oe"),
                unicodedata.normalize("NFD", n), unicodedata.normalize("NFKC", n), n.lower(), n.title(), n.encode("utf-8").decode("latin-1"),
                n.encode("ascii", "ignore").decode("ascii"), n.encode("ascii", "replace").decode("ascii")]
    return [k for k in dict.fromkeys(out) if k]


def key_text(rng, k, mode="mixed"):
    """a JSON string literal that decodes to k, other than the canonical spelling: every character at random ("mixed") or always
    ("all") as a `\\uXXXX` escape (a surrogate pair beyond the BMP; hex digits in either case), else as serde_json would write it
    (`/` also as `\\/`).  serde decodes member keys like any string, so every such spelling names the same parameter"""
    out = []
    for c in k:
        if mode == "all" or rng.random() < 0.45:
            o = ord(c)
            units = [o] if o < 0x10000 else [0xD800 + ((o - 0x10000) >> 10), 0xDC00 + ((o - 0x10000) & 0x3FF)]
            for u in units:
                h = "%04x" % u
                out.append("\\u" + (h.upper() if rng.random() < 0.5 else h))
        elif c == "/" and rng.random() < 0.5:
            out.append("\\/")
        else:
            out.append(json.dumps(c, ensure_ascii=False)[1:-1])
    return '"' + "".join(out) + '"'


# ------------------------------------------------------------------ typed values (Python objects; dicts keep declaration order)

STR_ATOMS = ["a", "b", "xyz", "", " ", "[", "]", "{", "}", ",", ":", "\\", "\"", "/", "\b", "\f", "\n", "\r", "\t", "\x00", "\x1f", "\x7f",
             "\u00e9", "\u20ac", "\u00a0", "\U0001f600", "\U00010000", "\ud7ff", "\ue000", "\ufffd", "null", "2.0", "\u2028", "\u0416"]


def gen_str(rng):
    return "".join(rng.choice(STR_ATOMS) for _ in range(rng.choice([0, 1, 1, 2, 3, 5])))


def gen_int(rng, lo, hi):
    cands = [lo, lo + 1, hi, hi - 1, 0, 1, -1, 2, 7, 42, 127, 128, 255, 256, 65535, 65536, 2**31 - 1, 2**31, 2**32 - 1, 2**32,
             2**53, 2**63 - 1, 2**63, -2**31, -2**63 + 1]
    cands = [c for c in cands if lo <= c <= hi]
    return rng.choice(cands) if rng.random() < 0.8 else rng.randint(lo, hi)


def utf8_key(k):
    return k.encode("utf-8")


def gen_any(rng, depth=2, allow_null=True):
    r = rng.random()
    if depth <= 0 or r < 0.5:
        k = rng.random()
        if k < 0.12 and allow_null:
            return None
        if k < 0.25:
            return rng.random() < 0.5
        if k < 0.6:
            return gen_int(rng, -2**63, 2**64 - 1)
        return gen_str(rng)
    n = rng.choice([0, 1, 2, 3])
    if r < 0.75:
        return [gen_any(rng, depth - 1) for _ in range(n)]
    ks = sorted(set(gen_str(rng) for _ in range(n)), key=utf8_key)
    return {k: gen_any(rng, depth - 1) for k in ks}


def gen_value(rng, t, types, depth=0):
    k = t[0]
    if k == "u":
        return gen_int(rng, 0, t[1])
    if k == "i":
        return gen_int(rng, -t[1], t[2])
    if k == "bool":
        return rng.random() < 0.5
    if k == "str":
        return gen_str(rng)
    if k == "unit":
        return None
    if k == "any":
        return gen_any(rng)
    if k == "opt":
        return None if rng.random() < 0.3 else gen_value(rng, t[1], types, depth + 1)
    if k == "vec":
        return [gen_value(rng, t[1], types, depth + 1) for _ in range(rng.choice([0, 1, 2, 3] if depth < 3 else [0, 1]))]
    if k == "map":
        ks = sorted(set(gen_str(rng) for _ in range(rng.choice([0, 1, 2, 3]))), key=utf8_key)
        return {kk: gen_value(rng, t[1], types, depth + 1) for kk in ks}
    if k == "tuple":
        return [gen_value(rng, x, types, depth + 1) for x in t[1]]
    if k == "struct":
        return {f: gen_value(rng, x, types, depth + 1) for f, x in t[1]}
    if k == "named":
        d = types[t[1]]
        if d[0] == "struct":
            return {f: gen_value(rng, x, types, depth + 1) for f, x in d[1]}
        alts = [("u", u) for u in d[1]] + [("t", v, tt) for v, tt in d[2]]
        c = rng.choice(alts)
        return c[1] if c[0] == "u" else {c[1]: gen_value(rng, c[2], types, depth + 1)}
    raise ValueError(t)


def is_int(v):
    return isinstance(v, int) and not isinstance(v, bool)


def conforms(t, v, types):
    """v (parsed with member order kept) is the canonical serde_json encoding of a value of type t"""
    k = t[0]
    if k == "u":
        return is_int(v) and 0 <= v <= t[1]
    if k == "i":
        return is_int(v) and -t[1] <= v <= t[2]
    if k == "bool":
        return isinstance(v, bool)
    if k == "str":
        return isinstance(v, str)
    if k == "unit":
        return v is None
    if k == "any":
        return True
    if k == "opt":
        return v is None or conforms(t[1], v, types)
    if k == "vec":
        return isinstance(v, list) and all(conforms(t[1], x, types) for x in v)
    if k == "map":
        if not isinstance(v, dict):
            return False
        ks = [utf8_key(x) for x in v]
        return all(conforms(t[1], x, types) for x in v.values()) and all(a < b for a, b in zip(ks, ks[1:]))
    if k == "tuple":
        return isinstance(v, list) and len(v) == len(t[1]) and all(conforms(x, y, types) for x, y in zip(t[1], v))
    if k == "struct":
        return isinstance(v, dict) and list(v) == [f for f, _ in t[1]] and all(conforms(x, v[f], types) for f, x in t[1])
    if k == "named":
        d = types[t[1]]
        if d[0] == "struct":
            return conforms(("struct", d[1]), v, types)
        if isinstance(v, str):
            return v in d[1]
        if isinstance(v, dict) and len(v) == 1:
            (kk, x), = v.items()
            for name, tt in d[2]:
                if name == kk:
                    return conforms(tt, x, types)
        return False
    raise ValueError(t)


def bad_value(rng, t, types):
    """a value that is certainly not of type t (and not a lenient alternative encoding serde would accept)"""
    k = t[0]
    if k == "opt":
        return bad_value(rng, t[1], types)
    if k == "u":
        return rng.choice([t[1] + 1, -1, "1", True, [1], None]) if t[1] < 2**64 - 1 else rng.choice([-1, "1", True, None])
    if k == "i":
        return rng.choice([t[2] + 1, -t[1] - 1, "x", False, None]) if t[2] < 2**63 - 1 else rng.choice([2**63, "x", False, None])
    if k == "bool":
        return rng.choice([0, 1, "true", None])
    if k == "str":
        return rng.choice([0, True, ["a"], None])
    if k == "any":
        return None      # nothing is ill-typed for serde_json::Value: callers skip
    if k in ("vec", "tuple"):
        return rng.choice([0, "v", True, {"a": 1}, None])
    return rng.choice([0, True, None])       # map, struct, enum


def dumps(v, rng=None):
    return json.dumps(v, ensure_ascii=bool(rng and rng.random() < 0.3), separators=(",", ":")).encode("utf-8")


WS = [" ", "\t", "\n", "\r"]


def ws(rng, p=0.25):
    return "".join(rng.choice(WS) for _ in range(rng.randint(1, 2))) if rng.random() < p else ""


def emit_array(rng, vals):
    if not vals:
        return ("[" + ws(rng, 0.5) + "]").encode()
    return ("[" + ",".join(ws(rng) + dumps(v, rng).decode() + ws(rng) for v in vals) + "]").encode()


def emit_object(rng, members, keymode=None):
    """keymode None: keys as json.dumps writes them (now and then in another spelling, key_text); "mixed" / "all": key_text"""
    if not members:
        return ("{" + ws(rng, 0.5) + "}").encode()

    def key(k):
        if keymode is not None:
            return key_text(rng, k, keymode)
        return key_text(rng, k) if rng.random() < 0.12 else dumps(k, rng).decode()
    return ("{" + ",".join(ws(rng) + key(k) + ws(rng) + ":" + ws(rng) + dumps(v, rng).decode() + ws(rng)
                           for k, v in members) + "}").encode()


# ------------------------------------------------------------------ what the recording handlers compute (same formulas as macroapi.rs)

def point_items(start, tag):
    k = 1 + start % 3
    out = []
    for i in range(k):
        out.append({"x": start - i, "y": (start + i) % 2**32, "label": tag if tag is not None else "",
                    "tags": ["t%d" % j for j in range(i)],
                    "inner": {"flag": tag is not None, "w": start % 65536, "m": {}} if i % 2 == 1 else None})
    return out


RET = {
    "0.m0": lambda a: 7,
    "0.m1": lambda a: a[0],
    "0.m2": lambda a: [a[1], a[0]],
    "0.m3": lambda a: {"c": a[2], "b": a[1], "a": a[0]},
    "0.m4": lambda a: [a[3], a[2], a[1], a[0]],
    "0.m5": lambda a: a[1],
    "0.m6": lambda a: list(a),
    "0.m7": lambda a: list(a),
    "0.m8": lambda a: list(a),
    "0.m9": lambda a: a[0],
    "0.m10": lambda a: None,
    "0.m11": lambda a: None,
    "0.m12": lambda a: list(a),
    "0.m13": lambda a: list(a),
    "0.m14": lambda a: list(a),
    "1.s2": lambda a: [[(a[0] + i) % 2**32, a[1], a[2], a[3]] for i in range(1 + a[0] % 3)],
    "1.m0": lambda a: list(a),
    "1.m1": lambda a: [a[1], a[0]],
    "1.m2": lambda a: list(a),
    "1.m3": lambda a: {"weights": a[3], "first": a[2][0] if a[2] else None, "point": a[1], "id": a[0]},
    "1.m4": lambda a: list(a),
    "1.s0": lambda a: point_items(a[0], a[1]),
    "1.s1": lambda a: [(a[1] + i) % U64 for i in range(1 + a[0] % 3)],
    "2.m0": lambda a: "dot",
    "2.m1": lambda a: list(reversed(a)),
    "2.m2": lambda a: a[1],
    "2.s0": lambda a: [[(a[0] + i) % U64, a[1] + str(i)] for i in range(1 + a[0] % 3)],
    "3.m0": lambda a: list(reversed(a[0])),
    "4.m0": lambda a: list(a),
    "5.m0": lambda a: list(a),
    "5.m1": lambda a: [a[1], a[0]],
    "5.m2": lambda a: [a[1], a[0]],
    "5.m3": lambda a: list(a),
    "5.m4": lambda a: list(reversed(a)),
    "5.m5": lambda a: list(a),
    "5.s0": lambda a: [[(a[0] + i) % 2**32, a[1] + str(i)] for i in range(1 + a[0] % 3)],
    "5.s1": lambda a: [((a[1] if a[1] is not None else 5) + i) % U64 for i in range(1 + a[0] % 3)],
    "6.m0": lambda a: list(a),
    "6.m1": lambda a: list(a),
    "6.m2": lambda a: list(a),
    "6.m3": lambda a: list(a),
    "6.m4": lambda a: list(a),
    "6.m5": lambda a: list(a),
    "6.m6": lambda a: list(a),
    "6.m7": lambda a: list(a),
    "6.m8": lambda a: list(a),
    "6.s0": lambda a: [[(a[0] + i) % 2**32, a[1], a[2]] for i in range(1 + a[0] % 3)],
    "6.s1": lambda a: [((a[1] if a[1] is not None else 9) + i) % U64 for i in range(1 + a[0] % 3)],
    "7.m0": lambda a: [a[1], a[0]],
    "7.m1": lambda a: [a[1], a[0]],
    "7.m2": lambda a: list(a),
    "7.m3": lambda a: list(a),
    "7.m4": lambda a: [a[1], a[0]],
    "7.m5": lambda a: list(reversed(a)),
    "7.m6": lambda a: list(a),
    "7.s0": lambda a: [[(a[1] + i) % 2**32, a[0] + str(i)] for i in range(1 + a[1] % 3)],
}
# labelled examples: (api index, handler) -> why it is outside the property's hypotheses
NEG_COLLIDE = "4.m0"      # a_b / aB: by-name decoding is ambiguous
NEG_OPTOPT = "4.m1"       # Option<Option<u8>>: Some(None) serialises to null
BOUNDARY_NOTE = "0.m11"   # no return type: the stub sends a notification


# ------------------------------------------------------------------ the Python reference of the property (direct oracle)

class Ref:
    def __init__(self, types, apis):
        self.types, self.apis = types, apis
        self.table = []
        for ai, a in enumerate(apis):
            tb = {}

            def put(n, v, tb=tb, ai=ai):
                if n in tb:
                    raise AssertionError("family api %d declares %r twice" % (ai, n))
                tb[n] = v
            for i, m in enumerate(a["methods"]):
                put(rpc_identifier(a, m["name"]), ("m", i))
            for j, s in enumerate(a["subs"]):
                put(rpc_identifier(a, unsub_name(s)), ("u", j))
                put(rpc_identifier(a, s["name"]), ("s", j))
            for i, m in enumerate(a["methods"]):
                for al in m["aliases"]:
                    put(al, ("m", i))
            for j, s in enumerate(a["subs"]):
                for al in s["aliases"]:
                    put(al, ("s", j))
                for al in s["unsub_aliases"]:
                    put(al, ("u", j))
            self.table.append(tb)

    def item(self, ai, kind, idx):
        a = self.apis[ai]
        return a["methods"][idx] if kind == "m" else a["subs"][idx]

    def decode_positional(self, params, elems):
        """elems: list of parsed values, or None for absent params -> list of args | 'invalid'"""
        elems = [] if elems is None else elems
        out = []
        for i, q in enumerate(params):
            if i >= len(elems):
                if q["opt"]:
                    out.append(None)
                    continue
                return "invalid"
            v = elems[i]
            if q["opt"] and v is None:
                out.append(None)
            elif conforms(q["ty"], v, self.types):
                out.append(v)
            else:
                return "invalid"
        return out

    def decode_named(self, params, members):
        """members: list of (key, value) in source order"""
        slots = [("absent",)] * len(params)
        for k, v in members:
            owner = next((i for i, q in enumerate(params) if k in keys_of(q)), None)
            if owner is None:
                continue
            if slots[owner] != ("absent",):
                return "invalid"
            slots[owner] = ("v", v)
        out = []
        for q, s in zip(params, slots):
            if s == ("absent",):
                if not q["opt"]:
                    return "invalid"
                out.append(None)
            elif q["opt"] and s[1] is None:
                out.append(None)
            elif conforms(q["ty"], s[1], self.types):
                out.append(s[1])
            else:
                return "invalid"
        return out


def parse_pairs(text):
    """JSON text -> value with objects as ('obj', [(k, v)..]) so duplicates and order are visible"""
    return json.loads(text.decode("utf-8"), object_pairs_hook=lambda p: ("obj", p))


def plain(v):
    if isinstance(v, tuple) and v and v[0] == "obj":
        return {k: plain(x) for k, x in v[1]}
    if isinstance(v, list):
        return [plain(x) for x in v]
    return v


# ------------------------------------------------------------------ cases

class Case:
    __slots__ = ("mode", "api", "target", "payload", "outcome", "unsub", "ret", "tag", "expect", "info")

    def line(self):
        return "%s %d %s %s %s %s %s" % (self.mode, self.api, self.target, self.payload, self.outcome, self.unsub, self.ret)


ERR_CODES = [-2**31, 2**31 - 1, -32000, -32099, -32603, -1, 0, 1, 42, -32768, 4001]


def gen_outcome(rng):
    if rng.random() < 0.82:
        return "ok", None
    code = rng.choice(ERR_CODES)
    msg = gen_str(rng)
    data = None if rng.random() < 0.4 else gen_any(rng, 2, allow_null=False)
    if data is None and rng.random() < 0.5:
        data = None
    return "err:%d:%s:%s" % (code, hx(msg.encode("utf-8")), hx(dumps(data)) if data is not None else "-"), (code, msg, data)


def gen_cases(ctx, ref):
    rng = ctx.rng
    types, apis = ref.types, ref.apis
    cases = []

    def mk(mode, ai, target, payload, outcome, unsub, ret, tag, expect, info):
        c = Case()
        c.mode, c.api, c.target, c.payload, c.outcome, c.unsub, c.ret, c.tag, c.expect, c.info = mode, ai, target, payload, outcome, unsub, ret, tag, expect, info
        cases.append(c)

    def expect_call(ai, kind, idx, args, oc, wire=None, unsub_name_used=None, unsub_res=None):
        """what the property demands when handler (kind, idx) runs with args"""
        hid = "%d.%s%d" % (ai, kind, idx)
        e = {"h": hid, "a": list(args), "wire": wire}
        if oc is not None:
            e["c"] = ("err", oc[0], oc[1], oc[2])
        elif kind == "s":
            a = apis[ai]
            s = a["subs"][idx]
            items = RET[hid](args)
            nn = rpc_identifier(a, s["notif"] if s["notif"] is not None else s["name"])
            e["c"] = ("sub", nn if items else None, items, unsub_name_used, unsub_res)
        else:
            e["c"] = ("ok", RET[hid](args))
        return e

    def ret_of(e):
        if e["h"] is None or e["c"][0] == "err":
            return "-"
        if e["c"][0] == "sub":
            return hx(dumps(e["c"][2]))
        return hx(dumps(e["c"][1]))

    n_stub, n_raw = 900, 750          # per round; run() does ctx.scale(1, 28) rounds
    for ai, a in enumerate(apis):
        entries = [("m", i, m) for i, m in enumerate(a["methods"])] + [("s", j, s) for j, s in enumerate(a["subs"])]
        names_of = {}
        for n, (k, i) in ref.table[ai].items():
            names_of.setdefault((k, i), []).append(n)
        for kind, idx, it in entries:
            hid = "%d.%s%d" % (ai, kind, idx)
            params = it["params"]
            pk = it["pkind"]
            wire_name = rpc_identifier(a, it["name"])
            uname = rpc_identifier(a, unsub_name(it)) if kind == "s" else None
            # ---------------- stub cases
            ntail = 0
            while ntail < len(params) and params[len(params) - 1 - ntail]["opt"]:
                ntail += 1
            # every None/Some pattern of the trailing run of Option parameters, several times each, then random tuples
            plans = []
            if ntail >= 1 and hid not in (NEG_OPTOPT, NEG_COLLIDE, BOUNDARY_NOTE):
                for pat in itertools.product([False, True], repeat=ntail):
                    plans += [pat] * (6 if ntail >= 2 else 2)
            plans += [None] * n_stub
            for plan in plans:
                outcome, oc = gen_outcome(rng)
                if hid == NEG_OPTOPT:
                    v = rng.choice(["none", "some-none", 0, 255, 7])
                    mk("stub", ai, "m%d" % idx, hx(dumps([v])), outcome, "-", "-", "neg-optopt", {"neg": "optopt", "sent": v, "oc": oc}, {})
                    continue
                args = [gen_value(rng, ("opt", q["ty"]) if q["opt"] else q["ty"], types) for q in params]
                if plan is not None:
                    for off, some in enumerate(plan):
                        i = len(params) - ntail + off
                        args[i] = gen_value(rng, params[i]["ty"], types) if some else None
                if not params:
                    wparams = None
                elif pk == "array":
                    wparams = {"arr": list(args)}
                else:
                    wparams = {"obj": [[p_name(q), v] for q, v in zip(params, args)]}
                wire = [wire_name, wparams]
                if hid == BOUNDARY_NOTE:
                    e = {"h": None, "a": None, "wire": wire, "c": ("notif",)}
                    mk("stub", ai, "m%d" % idx, hx(dumps(args, rng)), "ok", "-", "-", "boundary-notification", e, {})
                    continue
                if hid == NEG_COLLIDE:
                    e = {"h": None, "a": None, "wire": wire, "c": ("err", -32602, "Invalid params", "*"), "neg": "collide"}
                    mk("stub", ai, "m%d" % idx, hx(dumps(args, rng)), outcome, "-", "-", "neg-collide", e, {})
                    continue
                e = expect_call(ai, kind, idx, args, oc, wire, uname, True)
                tag = "stub-" + pk if plan is None else ("stub-spelled-tail-" if any(qualified_option(q) for q in params) else "stub-tail-") + "".join("S" if x else "N" for x in plan)
                mk("stub", ai, "%s%d" % (kind, idx), hx(dumps(args, rng)), outcome, "-", ret_of(e), tag, e, {})
            if hid == NEG_OPTOPT:
                continue
            # ---------------- raw cases
            nreq = len(params)
            while nreq > 0 and params[nreq - 1]["opt"]:
                nreq -= 1
            # methods with an Option parameter spelled `std::option::Option` / `core::option::Option` / ..: every positional
            # presentation (the array cut after any number >= nreq of arguments, every null / value pattern of the Option
            # arguments that are given), then the random presentations as for every method
            forced = []
            if any(qualified_option(q) for q in params):
                for cut in range(nreq, len(params) + 1):
                    optpos = [i for i in range(cut) if params[i]["opt"]]
                    for pat in itertools.product([False, True], repeat=len(optpos)):
                        forced += [("spell", cut, dict(zip(optpos, pat)))] * 2
            # methods with a wire name that is not an identifier (a character JSON escapes, a space, non-ASCII letters): by name with
            # the keys in other JSON spellings (must be accepted: serde decodes member keys), and every near-miss key of every
            # such parameter in turn (must not be accepted)
            if any(special_name(q) for q in params):
                forced += [("esc", "all")] * 6 + [("esc", "mixed")] * 40
                allkeys = set(k for q in params for k in keys_of(q))
                for i, q in enumerate(params):
                    if special_name(q):
                        forced += [("near", i, nk) for nk in near_keys(q) if nk not in allkeys] * 2
            for plan in forced + [None] * (n_raw * (2 if params else 1)):
                outcome, oc = gen_outcome(rng)
                if hid == BOUNDARY_NOTE:
                    outcome, oc = "ok", None          # a method without return type has no way to answer an error
                name = rng.choice(names_of[(kind, idx)])
                args = [gen_value(rng, ("opt", q["ty"]) if q["opt"] else q["ty"], types) for q in params]
                r = rng.random()
                expect_args = list(args)
                tag = None
                if not params:
                    # no decoding code is emitted: whatever the params are, the method runs
                    ptxt = rng.choice([None, b"[]", b"[ ]", b"[1,2]", b"{\"x\":1}", b"5", b"\"s\"", b"null", b"[null]"])
                    tag = "raw-noparams"
                elif plan is not None and plan[0] == "esc":
                    # by name, every key one of the parameter's keys (mostly the wire name) in a non-canonical JSON spelling
                    members = []
                    for i, (q, v) in enumerate(zip(params, args)):
                        if q["opt"] and rng.random() < 0.25:
                            expect_args[i] = None
                            continue
                        members.append((p_name(q) if rng.random() < 0.7 else rng.choice(keys_of(q)), v))
                    rng.shuffle(members)
                    ptxt = emit_object(rng, members, plan[1])
                    tag = "raw-named-esckey"
                elif plan is not None and plan[0] == "near":
                    _, i, nk = plan
                    members = [(nk if j == i else p_name(q), v) for j, (q, v) in enumerate(zip(params, args))]
                    rng.shuffle(members)
                    ptxt = emit_object(rng, members, rng.choice([None, None, "mixed"]))
                    tag = "raw-named-nearkey"
                elif plan is not None:
                    _, cut, some = plan
                    vals = []
                    for i, (q, v) in enumerate(zip(params, args)):
                        if i >= cut:
                            expect_args[i] = None
                            continue
                        if q["opt"]:
                            v = gen_value(rng, q["ty"], types) if some[i] else None
                            expect_args[i] = v
                        vals.append(v)
                    if cut == 0 and rng.random() < 0.5:
                        ptxt = rng.choice([None, b"[]", b"null"])
                    else:
                        ptxt = emit_array(rng, vals)
                    tag = "raw-spelled-omitted" if cut < len(params) else "raw-spelled-present" if all(some.values()) else "raw-spelled-null"
                elif r < 0.30:
                    # positional: trailing optionals given / null / omitted
                    cut = rng.randint(nreq, len(params))
                    vals = []
                    for i, (q, v) in enumerate(zip(params, args)):
                        if i >= cut:
                            expect_args[i] = None
                            continue
                        if q["opt"] and rng.random() < 0.35:
                            v = None
                            expect_args[i] = None
                        vals.append(v)
                    extra = []
                    if cut == len(params) and rng.random() < 0.15:
                        extra = [gen_any(rng, 1) for _ in range(rng.randint(1, 2))]       # surplus elements are never read
                        tag = "raw-pos-surplus"
                    if cut == 0 and not extra and rng.random() < 0.5:
                        ptxt = rng.choice([None, b"[]", b" [ ] ", b"[\n]", b"null"])
                        tag = "raw-pos-absent"
                    else:
                        ptxt = emit_array(rng, vals + extra)
                        tag = tag or ("raw-pos-full" if cut == len(params) else "raw-pos-omitted")
                elif r < 0.62:
                    # by name: any of the three keys, any order, optionals given / null / omitted, unknown members
                    members = []
                    for i, (q, v) in enumerate(zip(params, args)):
                        if q["opt"]:
                            how = rng.random()
                            if how < 0.3:
                                expect_args[i] = None
                                continue
                            if how < 0.5:
                                v = None
                                expect_args[i] = None
                        members.append((rng.choice(keys_of(q)) if rng.random() < 0.6 else p_name(q), v))
                    allkeys = set(k for q in params for k in keys_of(q))
                    if rng.random() < 0.3:
                        for _ in range(rng.randint(1, 2)):
                            k = rng.choice(["zz", "extra", "", "id", "Param_A", "param-a", "PARAM_A"] + [gen_str(rng)])
                            if k not in allkeys:
                                members.append((k, gen_any(rng, 1)))
                    rng.shuffle(members)
                    ptxt = emit_object(rng, members)
                    tag = "raw-named"
                    if hid == NEG_COLLIDE:
                        tag = "raw-named-collide"
                elif r < 0.66 and (any(q["ident"].startswith("r#") or "_" in p_name(q) or special_name(q) for q in params) or r < 0.63):
                    # by name, one parameter under a near-miss key no parameter of the method accepts (`type` for an un-renamed
                    # `r#type`, other separators / cases / affixes): an unknown member, so a required parameter is missing
                    # (-32602, nothing runs) and an Option parameter is None
                    allkeys = set(k for q in params for k in keys_of(q))
                    cands = [(i, k) for i, q in enumerate(params) for k in near_keys(q) if k not in allkeys]
                    if not cands:
                        continue
                    raws = [c for c in cands if params[c[0]]["ident"].startswith("r#") or special_name(params[c[0]])]
                    i, nk = rng.choice(raws if raws and rng.random() < 0.7 else cands)
                    members = [(nk if j == i else rng.choice(keys_of(q)), v) for j, (q, v) in enumerate(zip(params, args))]
                    rng.shuffle(members)
                    ptxt = emit_object(rng, members)
                    tag = "raw-named-nearkey"
                elif r < 0.70:
                    # by name with a duplicated field (same key or another key of the same parameter)
                    members = [(p_name(q), v) for q, v in zip(params, args)]
                    i = rng.randrange(len(params))
                    members.insert(rng.randint(0, len(members)), (rng.choice(keys_of(params[i])), args[i]))
                    ptxt = emit_object(rng, members)
                    tag = "raw-named-dup"
                elif r < 0.78:
                    # a required argument missing (positional too short / by name omitted)
                    if nreq == 0:
                        continue
                    if rng.random() < 0.5:
                        ptxt = emit_array(rng, args[:rng.randint(0, nreq - 1)])
                        if rng.random() < 0.2:
                            ptxt = None
                    else:
                        i = rng.choice([i for i, q in enumerate(params) if not q["opt"]])
                        ptxt = emit_object(rng, [(p_name(q), v) for j, (q, v) in enumerate(zip(params, args)) if j != i])
                    tag = "raw-missing"
                elif r < 0.90:
                    # one ill-typed argument
                    i = rng.randrange(len(params))
                    if params[i]["ty"][0] == "any":
                        continue
                    bv = bad_value(rng, params[i]["ty"], types)
                    if bv is None and params[i]["opt"]:
                        continue
                    vals = list(args)
                    vals[i] = bv
                    if rng.random() < 0.5:
                        ptxt = emit_array(rng, vals)
                    else:
                        ptxt = emit_object(rng, [(p_name(q), v) for q, v in zip(params, vals)])
                    tag = "raw-illtyped"
                else:
                    # params that are neither an array nor an object
                    ptxt = rng.choice([b"5", b"\"s\"", b"true", b" 7 "])
                    tag = "raw-scalar"
                # the reference decides what must happen
                if not params:
                    dec = []
                else:
                    if ptxt is None:
                        pv = None
                    else:
                        pv = parse_pairs(ptxt)
                    if pv is None:
                        dec = ref.decode_positional(params, None)
                    elif isinstance(pv, tuple):
                        dec = ref.decode_named(params, [(k, plain(v)) for k, v in pv[1]])
                    elif isinstance(pv, list):
                        dec = ref.decode_positional(params, [plain(v) for v in pv])
                    else:
                        dec = "invalid"
                un_used, un_res = "-", None
                if kind == "s":
                    # unsubscribe through any unsubscribe name of this subscription, of another one, or an unknown name
                    ur = rng.random()
                    if ur < 0.6:
                        un_used, un_res = rng.choice(names_of[("u", idx)]), True
                    elif ur < 0.8 and len(a["subs"]) > 1:
                        j = rng.choice([j for j in range(len(a["subs"])) if j != idx])
                        un_used, un_res = rng.choice(names_of[("u", j)]), False
                    else:
                        un_used, un_res = rng.choice(["nope", "unsubscribe", wire_name + "x"]), "notfound"
                if dec == "invalid":
                    e = {"h": None, "a": None, "wire": None, "c": ("err", -32602, "Invalid params", "*")}
                else:
                    if tag in ("raw-pos-full", "raw-pos-omitted", "raw-pos-absent", "raw-pos-surplus", "raw-named", "raw-spelled-omitted", "raw-spelled-null",
                               "raw-spelled-present", "raw-named-esckey") and hid != NEG_COLLIDE:
                        assert dec == expect_args, (hid, ptxt, dec, expect_args)       # the generator's own bookkeeping
                    e = expect_call(ai, kind, idx, dec, oc, None, un_used if kind == "s" else None, un_res)
                    if hid == BOUNDARY_NOTE:
                        e["c"] = ("ok", None) if oc is None else e["c"]
                mk("raw", ai, hxs(name), hx(ptxt) if ptxt is not None else "-", outcome, hxs(un_used) if un_used != "-" else "-", ret_of(e), tag, e,
                   {"name": name, "params": None if ptxt is None else ptxt.decode("utf-8")})
        # ---------------- names that must NOT resolve, and unsubscribe methods called directly
        known = set(ref.table[ai])
        near = set()
        for n in list(known):
            near.update([n + "x", n[:-1], n.upper(), n.lower(), " " + n, n.replace("_", "."), n.replace(".", "_"), "_" + n])
        for m in a["methods"]:
            near.add(m["name"])
            for al in m["aliases"]:
                near.add(rpc_identifier(a, al))
        for s in a["subs"]:
            near.update([s["name"], unsub_name(s)] + [rpc_identifier(a, al) for al in s["aliases"] + s["unsub_aliases"]])
            if s["notif"] is not None:
                near.update([s["notif"], rpc_identifier(a, s["notif"])])
        for other in range(len(apis)):
            if other != ai:
                near.update(ref.table[other])
        near = sorted(n for n in near if n not in known)
        for n in (near if ctx.thorough else rng.sample(near, min(len(near), 25))):
            e = {"h": None, "a": None, "wire": None, "c": ("err", -32601, "Method not found", "*")}
            mk("raw", ai, hxs(n) if n else "-", rng.choice(["-", hx(b"[1]"), hx(b"{\"a\":1}")]), "ok", "-", "-", "raw-unknown-name", e, {"name": n})
        for (k, j), ns in names_of.items():
            if k == "u":
                for n in ns:
                    e = {"h": None, "a": None, "wire": None, "c": ("ok", False)}
                    mk("raw", ai, hxs(n), rng.choice(["-", hx(b"[1]"), hx(b"[\"x\"]"), hx(b"{}")]), "ok", "-", "-", "raw-unsub-direct", e, {"name": n})
    return cases


# ------------------------------------------------------------------ reading result lines

def unhex(h):
    return None if h == "-" else bytes.fromhex(h)


def parse_line(line):
    """-> dict(w=(name, params bytes|None)|None, h=str|None, a=value|None, c=tuple) or None when the line is not a result"""
    f = line.split(" ")
    if len(f) != 4 or not (f[0].startswith("w:") and f[1].startswith("h:") and f[2].startswith("a:") and f[3].startswith("c:")):
        return None
    try:
        wn, wp = f[0][2:].split(":")
        r = {"w": None if wn == "-" else (bytes.fromhex(wn).decode("utf-8"), unhex(wp)),
             "h": None if f[1][2:] == "-" else f[1][2:],
             "a": None if f[2][2:] == "-" else json.loads(bytes.fromhex(f[2][2:]).decode("utf-8")) if "," not in f[2][2:] else "multiple"}
        c = f[3][2:].split(":")
        if c[0] == "ok":
            r["c"] = ("ok", json.loads(bytes.fromhex(c[1]).decode("utf-8")))
        elif c[0] == "err":
            d = unhex(c[3])
            r["c"] = ("err", int(c[1]), bytes.fromhex(c[2]).decode("utf-8"), None if d is None else json.loads(d.decode("utf-8")))
        elif c[0] == "notif":
            r["c"] = ("notif",)
        elif c[0] == "sub":
            nn = unhex(c[1])
            un = bytes.fromhex(c[4]).decode("utf-8")
            if c[5] == "r":
                ur = json.loads(bytes.fromhex(c[6]).decode("utf-8"))
            elif c[5] == "e":
                ur = "notfound" if c[6] == "-32601" else "err" + c[6]
            else:
                ur = c[5]
            r["c"] = ("sub", None if nn is None else nn.decode("utf-8"), json.loads(bytes.fromhex(c[2]).decode("utf-8")), un, ur)
        elif c[0] == "fail":
            r["c"] = ("fail",)
            # the harness puts the reason after `c:fail:`; a panic (of the generated stub, of a task) is reported there, not by dying
            try:
                r["failtext"] = bytes.fromhex(c[1]).decode("utf-8", "replace") if len(c) > 1 else ""
            except ValueError:
                r["failtext"] = ""
        else:
            return None
        return r
    except Exception:
        return None


def canon(r):
    """what is compared between implementation and model"""
    if r is None:
        return None
    c = r["c"]
    if c[0] == "err" and r["h"] is None:
        c = c[:3] + ("*",)          # library error: the serde message in `data` is not modelled
    return (r["w"], r["h"], json.dumps(r["a"], sort_keys=True), json.dumps(c, sort_keys=True))


def wire_check(expect, r):
    """model correspondence, NOT the property: the frame the stub sent is the declared name with exactly the arguments in
    declaration order (array) / under the renamed names (map).  Another encoding that delivers the same tuple (e.g.
    leaving trailing None's out) is no violation of C17: a mismatch here is reported as kind `diff`."""
    e = json.loads(json.dumps(expect))
    bad = []
    if r is None or e.get("neg") == "optopt" or e.get("wire") is None:
        return bad
    if True:
        name, wp = e["wire"]
        if r["w"] is None or r["w"][0] != name:
            bad.append(("macroapi-wire-differs", "stub sent method %r, declared name is %r" % (r["w"] and r["w"][0], name)))
        else:
            got = r["w"][1]
            if wp is None:
                if got is not None:
                    bad.append(("macroapi-wire-differs", "no parameters declared but params %r sent" % got))
            else:
                try:
                    gv = parse_pairs(got)
                except Exception:
                    gv = "unparsable"
                if isinstance(gv, list):
                    gvp = {"arr": [plain(x) for x in gv]}
                elif isinstance(gv, tuple):
                    gvp = {"obj": [[k, plain(v)] for k, v in gv[1]]}
                else:
                    gvp = gv
                if not (isinstance(gvp, dict) and list(gvp) == list(wp) and same(list(gvp.values())[0], list(wp.values())[0])):
                    bad.append(("macroapi-wire-differs", "stub sent params %r, arguments are %r" % (got, wp)))
    return bad


def check(expect, r):
    """the direct oracle: list of (key, detail) violations of the property in the implementation's result r: the intended
    trait method ran, it RECEIVED the tuple the stub was called with / the request presents, and the client got exactly what
    the method returned.  The text on the wire is not judged here (wire_check).
    `expect` is what the Python reference demands for the case (JSON-friendly, also stored in replay files)"""
    e = json.loads(json.dumps(expect))
    bad = []
    if r is None:
        return [("unreadable-result", "result line not understood")]
    rc = list(r["c"])
    if rc[0] == "fail" and r.get("failtext", "").startswith("PANIC"):
        # a call that panics did not reach the method with equal arguments (the other keys below fire as well)
        bad.append(("panic", r["failtext"][:300]))
    if e.get("neg") == "optopt":
        # labelled negative: Option<Option<u8>>; Some(None) cannot be told from None on the wire
        sent = e["sent"]
        exp_dbg = "None" if sent in ("none", "some-none") else "Some(Some(%d))" % sent
        if e["oc"] is None and (r["h"] != NEG_OPTOPT or r["a"] != [exp_dbg]):
            bad.append(("negative-example-changed", "optopt(%r): handler saw %r" % (sent, r["a"])))
        return bad
    if e.get("neg") == "collide":
        if r["h"] is not None or rc[:2] != ["err", -32602]:
            bad.append(("negative-example-changed", "collide(a_b, aB) through the stub no longer fails: %r" % (rc,)))
        return bad
    # the handler and what it received
    if r["h"] != e["h"]:
        bad.append(("handler", "handler %r ran, expected %r" % (r["h"], e["h"])))
    elif e["h"] is not None and not same(r["a"], e["a"]):
        bad.append(("arguments", "handler received %r, sent %r" % (r["a"], e["a"])))
    # what the client got
    ec = e["c"]
    if ec[0] == "err" and ec[3] == "*":
        if rc[:3] != ec[:3]:
            bad.append(("library-error", "expected %r, client got %r" % (ec[:3], rc)))
    elif ec[0] == "sub":
        if rc[0] != "sub" or rc[1] != ec[1] or not same(rc[2], ec[2]):
            bad.append(("subscription-items", "expected %r, client got %r" % (ec[:3], rc[:3])))
        elif rc[3] != ec[3] or rc[4] != ec[4]:
            bad.append(("unsubscribe", "expected unsubscribe %r -> %r, got %r -> %r" % (ec[3], ec[4], rc[3], rc[4])))
    elif ec[0] == "err":
        if rc[0] != "err" or rc[1] != ec[1] or rc[2] != ec[2] or not same(rc[3], ec[3]):
            bad.append(("error-object", "method returned %r, client got %r" % (ec, rc)))
    elif ec[0] == "ok":
        if rc[0] != "ok" or not same(rc[1], ec[1]):
            bad.append(("result", "method returned %r, client got %r" % (ec[1], rc)))
    elif rc != ec:
        bad.append(("client-view", "expected %r, got %r" % (ec, rc)))
    return bad


def same(a, b):
    """equality of JSON values with bool/int kept apart (Python's True == 1)"""
    if type(a) != type(b):
        return False
    if isinstance(a, list):
        return len(a) == len(b) and all(same(x, y) for x, y in zip(a, b))
    if isinstance(a, dict):
        return set(a) == set(b) and all(same(a[k], b[k]) for k in a)
    return a == b


def load():
    types, order, apis = T.family()
    return Ref(types, apis)


def run(ctx):
    ctx.engines = ["macroapi (harness/src/bin/macroapi.rs: compiled #[rpc] family + real async client over an in-process transport, "
                   "vs modelrun/macroapi_driver.ml over coq/Model/MacroApi.v on coq/Gen/MacroApiGen.v)"]
    impl, model = impl_bin(), vlib.model_bin("macroapi")
    try:
        ref = load()
    except T.ParseError as e:
        ctx.fail("translate", "translator-anchor-missing:macroapi", "macroapi.rs", str(e))
        return
    # (0) the description against the compiled modules: registered names
    rc, out = vlib.sh([impl], input="names\n")
    got = [sorted(x.split(",")) for x in out.strip().split(" | ")] if rc == 0 else None
    want = [sorted(tb) for tb in ref.table]
    ctx.evaluations += 1
    if got != want:
        ctx.fail("diff", "registered-names-differ", {"impl": got, "description": want}, "RpcModule::method_names() of the generated modules differ from the description")
    # (0b) heck: Coq transcription against the Python port on the family's names and on generated identifiers
    rng = ctx.rng
    names = sorted(set(p_name(q) for a in ref.apis for it in a["methods"] + a["subs"] for q in it["params"]))
    parts = ["a", "b", "ab", "A", "B", "AB", "Ab", "aB", "1", "2", "_", "__", "-", " ", "x", "XML", "Http", "r#", "id", "ID", "\u00e9", "\\", "\"", "\t",
             "\u00d6", "\u00f6", "\u00df", "\u00b5", "\u00aa", "\u00b2", "\u00a0", "\u00d7", "\u00ff", "\u00c9l", "\u4e2d"]
    for _ in range(ctx.scale(1500, 20000)):
        names.append("".join(rng.choice(parts) for _ in range(rng.randint(1, 6))))
    # the Coq transcription carries the Unicode classes / case mappings of U+0000..U+00FF: every such char in word-initial, inner and
    # final position next to cased ASCII letters (from U+0100 on it knows caseless alphanumerics only: U+4E2D above)
    for o in range(0x100):
        c = chr(o)
        names += [c, "a" + c + "B", "A" + c + "b", "x_" + c + "y", c + c, "aB" + c + "C", "AB" + c]
    names = [n for n in names if all(ord(c) < 0x100 or c == "\u4e2d" for c in n)]
    res = vlib.run_lines([model], ["heck " + (hxs(n) if n else "-") for n in names], min_shard=2000)
    for n, r in zip(names, res):
        ctx.evaluations += 1
        want_h = "%s %s" % (hxs(snake(n)), hxs(camel(n)))
        if r != want_h:
            ctx.fail("diff", "heck-transcriptions-differ", {"name": n}, {"model": r, "python": want_h})
    ctx.count("heck-names", len(names))
    # (0c) the by-name key rules the translator read from the proc-macro sources (they feed Gen.family_keys and
    # C17_by_name_keys_agree) against the fixed reference of this module, on every parameter of the family
    try:
        rules = T.key_rules()
    except T.ParseError as e:
        ctx.fail("translate", "translator-anchor-missing:macroapi", "proc-macros/src", str(e))
        rules = None
    if rules is not None:
        for a in ref.apis:
            for it in a["methods"] + a["subs"]:
                for q in it["params"]:
                    ctx.evaluations += 1
                    got = T.param_keys(q, rules)
                    if got != (p_name(q), keys_of(q)):
                        ctx.fail("diff", "macro-key-rule-differs", {"trait": a["trait"], "fn": it["fn"], "param": q["ident"], "rename": q["rename"]},
                                 {"macro sources (client key, server keys)": got, "reference": (p_name(q), keys_of(q)),
                                  "rules": {k: (T.ops_text(v) if k != "server" else [T.ops_text(o) for o in v]) for k, v in rules.items()}})
        ctx.count("key-rule-params", sum(len(it["params"]) for a in ref.apis for it in a["methods"] + a["subs"]))
    # (0d) the optionality rule the translator read from helpers::is_option (it feeds p_opt of the descriptions, Gen.family_options
    # and C17_option_spellings_are_optional) against the fixed reference of this module, on every parameter type of the family
    # and on a list of further spellings
    try:
        orule = T.option_rule()
    except T.ParseError as e:
        ctx.fail("translate", "translator-anchor-missing:macroapi", "proc-macros/src/helpers.rs", str(e))
        orule = None
    if orule is not None:
        probes = [({"trait": a["trait"], "fn": it["fn"], "param": q["ident"]}, q["path"])
                  for a in ref.apis for it in a["methods"] + a["subs"] for q in it["params"]] + [({"probe": T.path_text(pp)}, pp) for pp in OPTION_PROBES]
        for desc, pp in probes:
            ctx.evaluations += 1
            got, want = T.rule_applies(orule, pp), ref_is_option(pp)
            if got != want:
                ctx.fail("diff", "macro-option-rule-differs", dict(desc, type=T.path_text(pp)),
                         {"macro source decides optional": got, "reference": want, "rule read from helpers.rs": T.rule_text(orule)})
        ctx.count("option-rule-types", len(probes))
    # (1) calls, in rounds of the quick size (bounds the memory of the thorough tier).  Oracle failures (the property) are
    # reported as they are found, correspondence diffs are kept back and reported after them (at most 300 of each key).
    diffs, ndiff = [], {}

    def diff(key, desc, detail):
        ndiff[key] = ndiff.get(key, 0) + 1
        if ndiff[key] <= 300:
            diffs.append((key, desc, detail))
    for _ in range(ctx.scale(1, 28)):
        cases = gen_cases(ctx, ref)
        lines = [c.line() for c in cases]
        ri = vlib.run_lines([impl], lines, shards=8, min_shard=400)
        rm = vlib.run_lines([model], lines, min_shard=400)
        for c, a, b in zip(cases, ri, rm):
            ctx.count(c.tag)
            ra, rb = parse_line(a), parse_line(b)
            desc = {"line": c.line(), "tag": c.tag, "api": ref.apis[c.api]["trait"], "target": c.target if c.mode == "stub" else c.info.get("name"),
                    "params": c.info.get("params")}
            viol = check(c.expect, ra)
            wviol = wire_check(c.expect, ra)
            if viol or wviol:
                desc["expect"] = c.expect
            for key, detail in viol:
                ctx.fail("oracle", key, desc, {"detail": detail, "impl": a})
            for key, detail in wviol:
                diff(key, desc, {"detail": detail, "impl": a, "model": b})
            if c.expect.get("neg") != "optopt":
                ca, cb = canon(ra), canon(rb)
                if ra is None or rb is None or ca[1:] != cb[1:]:
                    diff("macroapi-model-differs:" + c.tag, desc, {"impl": a, "model": b})
                elif ca[0] != cb[0] and not wviol:
                    diff("macroapi-wire-differs", desc, {"impl": a, "model": b})
            ctx.record(desc, a, nontrivial=bool(ra and ra["h"]))
            if a.startswith(("PANIC", "CRASH", "?")):
                ctx.fail("oracle", "harness-crash", desc, a)
        if len(ctx.failures) + len(diffs) > 2000:
            break
    for key, desc, detail in diffs:
        ctx.fail("diff", key, desc, detail)
    if ndiff:
        ctx.extra["diff_counts"] = ndiff


def replay(payload):
    case = payload["case"]
    print(json.dumps(payload, indent=1)[:3000])
    if isinstance(case, dict) and "line" in case:
        res = {}
        for name, cmd in (("impl", impl_bin()), ("model", vlib.model_bin("macroapi"))):
            rc, out = vlib.sh([cmd], input=case["line"] + "\n")
            last = out.strip().split("\n")[-1] if out.strip() else ""
            res[name] = parse_line(last)
            print(name, "->", last)
            print("   ", res[name])
        print("model and implementation agree:", canon(res["impl"]) == canon(res["model"]) and res["impl"] is not None)
        if "expect" in case:
            wv = wire_check(case["expect"], res["impl"])
            print("wire text as the model/description predict (correspondence, not the property):", "yes" if not wv else "NO " + "; ".join(v[1] for v in wv))
            viol = check(case["expect"], res["impl"])
            print("direct oracle on the implementation's result:", "holds" if not viol else "VIOLATED " + "; ".join("%s: %s" % v for v in viol))
    return 0
