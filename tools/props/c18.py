"""C18 -- client bookkeeping returns to empty."""
from props import clihist_common as C
from props._client_family import *  # noqa

RULE = ("random histories extended by a clean-up suffix that answers every call/batch, ends every subscription and acknowledges "
        "every unsubscribe that reached the wire (found by a first pass on the implementation), plus long repetitions (200 quick / "
        "2000 thorough cycles per history) of each complete cycle {call, batch, subscribe+unsubscribe, refused, server-closed, dropped, "
        "lag-closed, notification handler}.  Oracle: hook H1 reports four empty tables at quiescence.  Model diffed on every history")


def run(ctx):
    ctx.engines = ["clihist + hook H1 (Client::verif_table_sizes)"]
    hs = [C.c18_cycle_history(ctx.rng, ctx.scale(200, 2000)) for _ in range(ctx.scale(8, 24))]
    for k in ["call", "sub-unsub", "sub-refused", "sub-closed", "batch", "subm", "sub-drop", "sub-lag"]:
        hs.append(C.c18_cycle_history(ctx.rng, ctx.scale(100, 1000), kinds=[k]))
    hs += random_histories(ctx, ctx.scale(1500, 120000), misbehave_p=0.03)
    hs += C.c05_drop_full_queue_histories(ctx.rng)
    hs += C.c18_sid_reuse_histories(ctx.rng)
    hs += C.c18_lag_srvclose_histories(ctx.rng)
    C.run_histories(ctx, hs, ["c18"])
    if ctx.hist.get("c18:quiescent-histories", 0) < 50:
        ctx.fail("build", "too-few-quiescent-histories", ctx.hist.get("c18:quiescent-histories", 0), "generator produced too few quiescent histories")
