"""C19 -- HTTP: only JSON POSTs reach RPC; body chunking never changes the answer."""
import itertools, json, os, re
import vlib
from gen import jsongen as G

TRANSLATORS = ["http_gate", "sniff"]
MODELS = ["httpgate"]
BINS = {"release": ["httpgate"]}
RULE = ("cases = HTTP requests (method, Content-Type values, Content-Length values, body as an explicit frame list, "
        "max_request_body_size) sent through the real tower service without sockets "
        "(ServerBuilder::to_service_builder().build(recording methods, stop).call(req)) and to the public read_body, "
        "and through the extracted Coq model; generated from: 14 methods x ~45 content-type value lists (accepted "
        "spellings in random letter case, near misses, parameters, duplicates, missing, non-str bytes), and per body "
        "(single calls, batches, notifications, invalid JSON, leading whitespace 0..200 bytes around the 128 window) "
        "every split into <=2 frames, sampled/exhaustive splits into <=4 frames incl. empty, whitespace-only and "
        "trailers frames, with/without/wrong Content-Length, limits around the body length.  distinct non-trivial = "
        "distinct result lines of requests that passed the gate (not the fixed 405/415 refusals)")
TRUSTED = [
    "translators tools/translators/http_gate.py, sniff.py (regex readers of server/src/transport/http.rs, core/src/http_helpers.rs, "
    "server/src/transport/ws.rs); their output is exercised by the differential run (every generated spelling, the gate method, "
    "every status, the window boundary 126..129)",
    "modelled, not verified: http::HeaderValue::to_str, str::eq_ignore_ascii_case, str::parse::<u32>, http_body_util::Limited "
    "(coq/Model/HttpGate.v), tied by the differential run only",
    "the RPC layer behind read_body is a Section variable of the theorems (any function of body bytes and single/batch flag); "
    "that the real handle_rpc_call is such a function is what the direct oracle checks on every accepted group",
]
ASSUMPTIONS = [
    "the theorems speak about bodies with |body| <= max_request_body_size; above the limit (C07) the status depends on framing "
    "and Content-Length (413 vs 500) and is only recorded and compared with the model",
    "requests that are not WebSocket upgrade requests, server with HTTP enabled (the branches of the tower service before the gate)",
    "application/json-rpc (3 spellings, upstream PR #1277) is read as a JSON content type next to the 3 application/json spellings",
    "request body streams that do not fail by themselves; hyper's own framing (chunked decoding, HTTP/2) is below the frame list",
]

# ---- the property's own table (independent of the code and of the translator)
JSON_SPELLINGS = [b"application/json", b"application/json; charset=utf-8", b"application/json;charset=utf-8"]
JSONRPC_SPELLINGS = [b"application/json-rpc", b"application/json-rpc; charset=utf-8", b"application/json-rpc;charset=utf-8"]
ACCEPTED = JSON_SPELLINGS + JSONRPC_SPELLINGS
WINDOW = 128
ASCII_WS = b" \t\n\r\x0c"

METHODS = [b"GET", b"PUT", b"DELETE", b"OPTIONS", b"HEAD", b"PATCH", b"TRACE", b"CONNECT", b"POST",
           b"post", b"Post", b"POSTX", b"POS", b"custom-method"]


def ascii_lower(b):
    return bytes(c + 32 if 65 <= c <= 90 else c for c in b)


def is_str(v):
    return all(32 <= c <= 126 or c == 9 for c in v)


def ct_accepted(cts):
    """the property's reading: the first Content-Type value is one of the accepted spellings, letter case ignored"""
    return bool(cts) and is_str(cts[0]) and ascii_lower(cts[0]) in ACCEPTED


def payload(frames):
    return b"".join(f[1] for f in frames if f[0] == "d")


def first_frame_sniff_class(case):
    """class of the known defect: the first data frame is empty or whitespace-only and shorter than the sniff window
    (so the 'first chunk' test of the unrepaired read_body sees no JSON there)"""
    for f in case["frames"]:
        if f[0] == "d":
            return len(f[1]) < WINDOW and all(c in ASCII_WS for c in f[1])
    return False


def hv(v):
    return v.hex() if v else "e"


def line_of(case):
    fl = ",".join("t" if f[0] == "t" else "d" + f[1].hex() for f in case["frames"]) or "-"
    return "%s %d %s %s %s%s" % (case["method"].hex(), case["max"], ",".join(hv(v) for v in case["cts"]) or "-",
                                 ",".join(hv(v) for v in case["cls"]) or "-", fl, " H" if case.get("hint") else "")


def describe(case):
    return {"method": case["method"].decode("latin1"), "max": case["max"], "content_type": [v.decode("latin1") for v in case["cts"]],
            "content_length": [v.decode("latin1") for v in case["cls"]],
            "frames": ["<trailers>" if f[0] == "t" else f[1].decode("latin1") for f in case["frames"]],
            "tag": case["tag"], "line": line_of(case)}


def rand_case(rng, s):
    return bytes((c ^ 0x20) if (65 <= c <= 90 or 97 <= c <= 122) and rng.random() < 0.5 else c for c in s)


def splits(n, k):
    """all ways to cut [0,n) into exactly k consecutive (possibly empty) pieces: non-decreasing cut points"""
    return itertools.combinations_with_replacement(range(n + 1), k - 1)


def cut(body, points):
    pts = [0] + list(points) + [len(body)]
    return [("d", body[pts[i]:pts[i + 1]]) for i in range(len(pts) - 1)]


def bodies(ctx):
    rng = ctx.rng
    calls = [
        b'{"jsonrpc":"2.0","method":"say_hello","id":1}',
        b'{"jsonrpc":"2.0","method":"add","params":[1,2],"id":"a"}',
        b'{"jsonrpc":"2.0","method":"echo","params":{"k":[1,"x",null]},"id":7}',
        b'{"jsonrpc":"2.0","method":"fail","id":2}',
        b'{"jsonrpc":"2.0","method":"nope","id":3}',
        b'{"jsonrpc":"2.0","method":"add","params":[1],"id":4}',
        b'{"jsonrpc":"2.0","method":"say_hello"}',                       # notification
        b'{"jsonrpc":"2.0","method":"echo","params":[1]}',
        b'[{"jsonrpc":"2.0","method":"add","params":[1,2],"id":1},{"jsonrpc":"2.0","method":"echo","params":[3],"id":2}]',
        b'[{"jsonrpc":"2.0","method":"say_hello","id":1},{"jsonrpc":"2.0","method":"say_hello"},{"x":1}]',
        b'[{"jsonrpc":"2.0","method":"say_hello"}]',
        b'[]', b'[ ]', b'[1]', b'{}', b'{ }', b'{"id":5}', b'{"jsonrpc":"2.0","id":1}',
        b'{"jsonrpc":"2.0","method":"say_hello","id":1} ', b'{"jsonrpc":"2.0","method":"say_hello","id":1}\n\n',
        b'{"jsonrpc":"2.0","method":"say_hello","id":1}{', b'{"jsonrpc":"2.0","method":"say_hello","id":1', b'{', b'[', b'{x', b'[,]',
        b'hello', b'1', b'"s"', b'null', b'', b' ', b'\n\n\n', b'\x0b{}', b'\xef\xbb\xbf{}', b'\x00{}',
        b'{"jsonrpc":"2.0","method":"echo","params":["\xc3\xa9\xe2\x82\xac"],"id":1}',
    ]
    for _ in range(ctx.scale(150, 600)):
        calls.append(b'{"jsonrpc":"2.0","method":"echo","params":' + G.value(rng, 2) + b',"id":' + G.id_text(rng) + b'}')
    out = [(b, "plain") for b in calls]
    # leading whitespace, incl. around the window boundary and form feed (ascii whitespace, not JSON whitespace)
    for b in calls[:3] + [calls[8], b'{}', b'x', b'']:
        for k in [1, 2, 5, 64, 126, 127, 128, 129, 200]:
            w = bytes(rng.choice(ASCII_WS) for _ in range(k)) if rng.random() < 0.5 else b" " * k
            out.append((w + b, "leading-ws-%d" % k))
    out.append((b"\x0c\x0c" + calls[0], "leading-ws-ff"))
    return out


def gen_groups(ctx):
    """yields groups of requests with the same (payload, max): [reference, variants...]"""
    rng = ctx.rng
    spell_pool = ACCEPTED

    def mk(frames, max_, cts=None, cls=None, method=b"POST", tag=""):
        return {"method": method, "max": max_, "cts": [b"application/json"] if cts is None else cts, "cls": cls or [],
                "frames": frames, "tag": tag}

    def variants(body, max_, btag, exhaustive_k):
        n = len(body)
        g = [mk([("d", body)], max_, tag="ref:" + btag)]
        true_cl = str(n).encode()
        # -- chunking
        for p in range(n + 1):
            g.append(mk(cut(body, [p]), max_, tag="split2"))
        if exhaustive_k:
            for k in range(3, exhaustive_k + 1):
                for pts in splits(n, k):
                    g.append(mk(cut(body, pts), max_, tag="split%d-all" % k))
        lead = n - len(body.lstrip(ASCII_WS))
        for _ in range(ctx.scale(80, 300)):
            k = rng.choice([3, 3, 4, 4, 5])
            hot = [0, n, lead, max(lead - 1, 0), min(lead + 1, n), min(WINDOW, n), min(WINDOW - 1, n)]
            pts = sorted(rng.choice(hot) if rng.random() < 0.35 else rng.randint(0, n) for _ in range(k - 1))
            fr = cut(body, pts)
            if rng.random() < 0.3:
                fr.insert(rng.randint(0, len(fr)), ("t",))
            if rng.random() < 0.3:
                fr.insert(rng.randint(0, len(fr)), ("d", b""))
            g.append(mk(fr, max_, tag="split-rand"))
        g.append(mk([("t",), ("d", body), ("t",)], max_, tag="trailers"))
        g.append(mk([("d", b""), ("d", b""), ("d", body), ("d", b"")], max_, tag="empty-frames"))
        g.append(mk([("d", bytes([c])) for c in body] or [("d", b"")], max_, tag="bytewise"))
        # -- Content-Length present and true
        g.append(mk([("d", body)], max_, cls=[true_cl], tag="cl-true"))
        g.append(mk(cut(body, [n // 2]), max_, cls=[true_cl], tag="cl-true"))
        # -- spellings
        for s in spell_pool:
            g.append(mk([("d", body)], max_, cts=[rand_case(rng, s)], tag="spelling"))
        g.append(mk([("d", body)], max_, cts=[rand_case(rng, rng.choice(spell_pool)), b"text/plain"], tag="spelling-dup"))
        # -- everything at once
        for _ in range(ctx.scale(10, 40)):
            pts = sorted(rng.randint(0, n) for _ in range(rng.randint(0, 3)))
            g.append(mk(cut(body, pts), max_, cts=[rand_case(rng, rng.choice(spell_pool))],
                        cls=rng.choice([[], [true_cl]]), tag="mixed"))
        # -- outside the oracle (compared with the model only): untrue / odd Content-Length values
        for cl in [[b"0"], [b"1"], [str(n + 1).encode()], [str(max_).encode()], [str(max_ + 1).encode()], [b"+" + true_cl], [b"-1"], [b""],
                   [b"x"], [b" 5"], [b"00" + true_cl], [b"4294967295"], [b"4294967296"], [b"99999999999999999999"], [true_cl, true_cl],
                   [true_cl, str(max_ + 1).encode()], [str(max_ + 1).encode(), true_cl], [b"\xe9"]]:
            g.append(mk(cut(body, [n // 3]), max_, cls=cl, tag="cl-other"))
        return g

    bl = bodies(ctx)
    short_budget = ctx.scale(46, 56)     # exhaustive <=4-frame splits for bodies up to this length
    for body, btag in bl:
        n = len(body)
        ex = 4 if n <= short_budget else (3 if n <= ctx.scale(120, 300) else 0)
        yield variants(body, 1000, btag, ex)
    # limits around the body length (in-limit groups enter the oracle, the others are model-compared only)
    for body, btag in rng.sample(bl, ctx.scale(12, 40)):
        n = len(body)
        for max_ in sorted(set([max(n - 1, 0), n, n + 1])):
            yield variants(body, max_, btag + "@limit", 0)


def gen_gate(ctx):
    rng = ctx.rng
    body = b'{"jsonrpc":"2.0","method":"say_hello","id":1}'
    ct_lists = [[s] for s in ACCEPTED]
    for s in ACCEPTED:
        for _ in range(3):
            ct_lists.append([rand_case(rng, s)])
    ct_lists += [[s.upper()] for s in ACCEPTED]
    near = [b"application/jsonx", b"application/jso", b"text/json", b"application/json ", b" application/json", b"application/json\t",
            b"application/json;", b"application/json;  charset=utf-8", b"application/json ;charset=utf-8", b"application/json; charset=utf-16",
            b"application/json; charset=utf8", b"application/json; charset=utf-8; x=1", b"application/json;charset=utf-8;", b"application/json, application/json",
            b"application/json-rpcx", b"application/jsonrpc", b"application/json-rpc; charset=utf-16", b"application/x-json", b"application/*", b"*/*",
            b"json", b"text/plain", b"application/xml", b"multipart/form-data", b"", b"application/json\xe9", b"applicat\xc4\xb1on/json", b"\xe9",
            b"application/json; charset=\"utf-8\"", b"application/json; Charset=UTF-8"]
    ct_lists += [[v] for v in near]
    ct_lists.append([])                                                             # missing
    ct_lists += [[b"application/json", b"text/plain"], [b"text/plain", b"application/json"], [b"application/json", b"application/json"],
                 [b"", b"application/json"], [b"APPLICATION/JSON-RPC", b"\xe9"], [b"\xe9", b"application/json"]]
    # every spelling the translator found in the code goes into the pool as well, so an extra accepted spelling meets the oracle
    gen = open(os.path.join(vlib.COQ, "Gen", "HttpGateGen.v")).read()
    code_spellings = [bytes(int(x, 16) for x in re.findall(r"x([0-9a-f]{2})", l.split("(*")[0])) for l in gen.split("\n") if l.startswith("    [")]
    ct_lists += [[s] for s in code_spellings if [s] not in ct_lists]
    # one-byte edits of the accepted spellings (the oracle decides which of them are still accepted)
    for _ in range(ctx.scale(300, 3000)):
        v = bytearray(rand_case(rng, rng.choice(ACCEPTED)))
        i = rng.randrange(len(v) + 1)
        op = rng.random()
        if op < 0.4 and i < len(v):
            v[i] = rng.choice(b" ;=-/ajJ8\t\xe9_") if rng.random() < 0.5 else rng.randrange(32, 127)
        elif op < 0.7:
            v.insert(i, rng.choice(b" ;=-/x\t"))
        elif i < len(v):
            del v[i]
        ct_lists.append([bytes(v)] + ([rng.choice(ACCEPTED)] if rng.random() < 0.2 else []))
    cases = []
    for m in METHODS + [b"POST"] * 5:
        for cts in ct_lists:
            fr = rng.choice([[("d", body)], cut(body, [rng.randint(0, len(body))]), [("d", b""), ("d", body)], []])
            cases.append({"method": m, "max": 1000, "cts": cts, "cls": rng.choice([[], [str(len(payload(fr))).encode()]]), "frames": fr, "tag": "gate"})
    return cases, code_spellings


def parse_impl(l):
    p = l.split(" ")
    if len(p) != 4:
        return None
    return {"status": p[0], "rb": p[1], "body": p[2], "log": p[3]}


def impl_bin():
    return os.environ.get("VERIF_HTTPGATE_BIN") or vlib.rust_bin("httpgate")    # override: a scratch build of a proposed repair


def run(ctx):
    ctx.engines = ["httpgate (harness/src/bin/httpgate.rs vs modelrun/httpgate_driver.ml over coq/Model/HttpGate.v)"]
    impl, model = impl_bin(), vlib.model_bin("httpgate")
    gate_cases, code_spellings = gen_gate(ctx)
    if sorted(code_spellings) != sorted(ACCEPTED):
        ctx.note("spellings read from is_json differ from the property's table: code-only %s, property-only %s" % (
            sorted(set(code_spellings) - set(ACCEPTED)), sorted(set(ACCEPTED) - set(code_spellings))))
    counts = {}

    def fail(kind, key, case, detail):
        """count every failure, keep at most 40 per (kind, key) plus 40 whose one-frame reference ran a handler"""
        served = isinstance(detail, dict) and "handlers=-" not in detail.get("same_body_in_one_frame", "handlers=-")
        k = (kind, key, served)
        counts[k] = counts.get(k, 0) + 1
        if counts[k] <= 40:
            ctx.fail(kind, key, case() if callable(case) else case, detail)

    def run_both(cases):
        lines = [line_of(c) for c in cases]
        return vlib.run_lines([impl], lines, min_shard=400), vlib.run_lines([model], lines, min_shard=400)

    def check_common(c, a, b):
        """model diff + gate oracle for one case; returns parsed impl result"""
        ctx.count(c["tag"].split(":")[0])
        r = parse_impl(a)
        new, _, old = b.partition(" | ")
        if r is None or a.startswith(("PANIC", "CRASH", "?")):
            fail("oracle", "httpgate-crash", describe(c), a)
            ctx.record(describe(c), a, nontrivial=False, validated=False)
            return None
        mine = r["status"] + " " + r["rb"]
        if mine != new:
            unrepaired = (mine == old and first_frame_sniff_class(c))
            fail("diff", "first-frame-sniff" if unrepaired else "httpgate-model-differs", describe(c),
                     {"impl": mine, "model": new, "model_of_unrepaired_read_body": old})
        passed_gate = r["status"] not in ("405", "415")
        ctx.count("status-" + r["status"])
        ctx.record(describe(c) if ctx.evaluations % 64 == 0 else c["tag"], a, nontrivial=passed_gate)
        # ---- direct oracle: the gate
        if c["method"] != b"POST":
            if r["status"] != "405":
                fail("oracle", "gate-method", describe(c), "method %r answered %s, the property demands 405" % (c["method"], r["status"]))
        elif not ct_accepted(c["cts"]):
            if r["status"] != "415":
                fail("oracle", "gate-content-type", describe(c), "content type %r answered %s, the property demands 415" % (c["cts"], r["status"]))
        elif not passed_gate:
            fail("oracle", "gate-rejects-json-post", describe(c), "a POST with an accepted content type was answered " + r["status"])
        if not (c["method"] == b"POST" and ct_accepted(c["cts"])) and r["log"] != "-":
            fail("oracle", "handler-ran-behind-gate", describe(c), "handler log " + r["log"])
        return r

    def check_group(g, gi, gm):
        res = [check_common(c, a, b) for c, a, b in zip(g, gi, gm)]
        ref_c, ref = g[0], res[0]
        body = payload(ref_c["frames"])
        if ref is None or len(body) > ref_c["max"]:
            ctx.count("group-over-limit")
            return
        ctx.count("group-in-limit")
        true_cl = [str(len(body)).encode()]
        for c, r in zip(g[1:], res[1:]):
            if r is None or c["method"] != b"POST" or not ct_accepted(c["cts"]) or c["cls"] not in ([], true_cl):
                continue
            assert payload(c["frames"]) == body and c["max"] == ref_c["max"]
            if (r["status"], r["body"], r["log"]) != (ref["status"], ref["body"], ref["log"]):
                frames_differ = c["frames"] != ref_c["frames"]
                cl_differ = c["cls"] != ref_c["cls"]
                ct_differ = c["cts"] != ref_c["cts"]
                if frames_differ and first_frame_sniff_class(c) and r["rb"] == "malformed" and ref["rb"] != "malformed":
                    key = "first-frame-sniff"
                elif frames_differ and not cl_differ and not ct_differ:
                    key = "chunking-changes-answer"
                elif cl_differ and not frames_differ and not ct_differ:
                    key = "content-length-changes-answer"
                elif ct_differ and not frames_differ and not cl_differ:
                    key = "spelling-changes-answer"
                else:
                    key = "framing-or-headers-change-answer"
                d = describe(c)
                d["reference_line"] = line_of(ref_c)
                fail("oracle", key, d,
                         {"same_body_in_one_frame": "%s body=%s handlers=%s" % (ref["status"], bytes.fromhex(ref["body"].replace("-", "")).decode("latin1")[:120], ref["log"]),
                          "this_request": "%s body=%s handlers=%s" % (r["status"], bytes.fromhex(r["body"].replace("-", "")).decode("latin1")[:120], r["log"])})

    # ---- corpus first: witnesses of past failures (corpus/C19.jsonl), each with the one-frame request of the same body
    corpus = os.path.join(vlib.ROOT, "corpus", "C19.jsonl")
    rows = [json.loads(l) for l in open(corpus) if l.strip()] if os.path.exists(corpus) else []
    if rows:
        cl = [r["line"] for r in rows] + [r["reference_line"] for r in rows]
        ci, cm = vlib.run_lines([impl], cl), vlib.run_lines([model], cl)
        for i, row in enumerate(rows):
            ctx.count("corpus")
            a, ref = parse_impl(ci[i]), parse_impl(ci[i + len(rows)])
            ctx.record({"corpus": row["what"], "line": row["line"]}, ci[i], nontrivial=True)
            for j in (i, i + len(rows)):
                got = parse_impl(ci[j])
                if got is None or got["status"] + " " + got["rb"] != cm[j].partition(" | ")[0]:
                    old = cm[j].partition(" | ")[2]
                    mine = ci[j] if got is None else got["status"] + " " + got["rb"]
                    fail("diff", row["key"] if mine == old else "httpgate-model-differs", {"corpus": row["what"], "line": cl[j]},
                         {"impl": mine, "model": cm[j]})
            if a is None or ref is None or (a["status"], a["body"], a["log"]) != (ref["status"], ref["body"], ref["log"]):
                fail("oracle", row["key"], {"corpus": row["what"], "line": row["line"], "reference_line": row["reference_line"]},
                     {"same_body_in_one_frame": ci[i + len(rows)][:300], "this_request": ci[i][:300]})

    # requests the gate must turn away (other method / other content type) that ALSO announce a body above the size limit, with and
    # without an exact size hint on the body (hyper's Incoming carries one when there is a Content-Length): the method and
    # content-type decisions come first -- 405 / 415, never 413
    big = []
    for mx in (58, 256):
        for size in (mx + 1, 3 * mx):
            body = b'{"jsonrpc":"2.0","method":"say_hello","id":1,"p":"' + b"x" * (size - 53) + b'"}'
            for method, cts in ((b"GET", [b"application/json"]), (b"PUT", [b"application/json"]), (b"DELETE", []), (b"OPTIONS", [b"text/plain"]),
                                (b"POST", [b"text/plain"]), (b"POST", []), (b"POST", [b"application/jsonx"])):
                for hint in (False, True):
                    for cls in ([], [str(len(body)).encode()]):
                        for frames in ([("d", body)], [("d", body[:7]), ("d", body[7:])]):
                            big.append({"method": method, "max": mx, "cts": cts, "cls": cls, "frames": frames, "hint": hint,
                                        "tag": "gate-oversize" + (":hinted" if hint else "")})
    gate_cases = gate_cases + big
    ri, rm = run_both(gate_cases)
    for c, a, b in zip(gate_cases, ri, rm):
        check_common(c, a, b)

    # ---- direct oracle: within a group (same body bytes, same limit) every accepted request gets the reference's answer
    def batches():
        batch, size = [], 0
        for g in gen_groups(ctx):
            batch.append(g)
            size += len(g)
            if size >= 150000:
                yield batch
                batch, size = [], 0
        if batch:
            yield batch

    for batch in batches():
        flat = [c for g in batch for c in g]
        ri, rm = run_both(flat)
        pos = 0
        for g in batch:
            check_group(g, ri[pos:pos + len(g)], rm[pos:pos + len(g)])
            pos += len(g)
    ctx.extra["spellings_in_code"] = [s.decode("latin1") for s in code_spellings]
    # keep the replay small: one failure per key is enough for the decision, the counts go to the notes
    byk = {}
    for (kind, key, _), n in counts.items():
        byk[key] = byk.get(key, 0) + n
    if byk:
        ctx.note("failures by key (model differences and oracle failures together): %s" % byk)
    keep, seen = [], {}
    def weight(f):
        c = f["case"]
        if not (isinstance(c, dict) and "line" in c):
            return (0, 0)
        served = isinstance(f["detail"], dict) and "handlers=-" not in f["detail"].get("same_body_in_one_frame", "handlers=-")
        return (0 if served else 1, len(c["line"]))      # a call whose handler runs when sent in one frame makes the clearest replay
    for f in sorted(ctx.failures, key=weight):
        k = (f["kind"], f["key"])
        seen[k] = seen.get(k, 0) + 1
        if seen[k] <= 3:
            keep.append(f)
    ctx.failures[:] = keep


def replay(payload_):
    case = payload_["case"]
    print(json.dumps(payload_, indent=1)[:4000])
    if not (isinstance(case, dict) and "line" in case):
        return 0
    outs = {}
    for which in ("line", "reference_line"):
        if which not in case:
            continue
        for name, cmd in (("impl", impl_bin()), ("model", vlib.model_bin("httpgate"))):
            rc, out = vlib.sh([cmd], input=case[which] + "\n")
            outs[(which, name)] = out.strip()
            print("%-14s %-5s -> %s" % (which, name, out.strip()[:400]))
    if ("reference_line", "impl") in outs:
        a, r = parse_impl(outs[("line", "impl")]), parse_impl(outs[("reference_line", "impl")])
        same = a and r and (a["status"], a["body"], a["log"]) == (r["status"], r["body"], r["log"])
        print("oracle (same body, same answer): %s" % ("holds" if same else "FAILS"))
        return 0 if same else 1
    return 0
