"""C20 -- params builders emit JSON that parses back to what was inserted; a failed insert is harmless."""
import json, os
import vlib
from gen import jsongen as G

TRANSLATORS = []
MODELS = ["builder"]
BINS = {"release": ["builder"]}
RULE = ("cases = one builder history per line: kind (array | object | rpc_params! | tuple 1..16 | slice | vec | [T;N] | "
        "serde_json::Map | batch of those) + the values handed to it, each either a JSON text inserted as serde_json::Value, "
        "as Box<RawValue> or as a typed Rust value, or a Serialize impl that fails (after the n-th serializer event of a "
        "value, for every n; or after writing an arbitrary byte prefix).  Run through the real jsonrpsee-core builders "
        "(catch_unwind around every insert and around build) and through the extracted Coq model (repaired insert); the "
        "direct oracle re-parses the built text with Python's json and compares with the values of the successful inserts.  "
        "distinct non-trivial = distinct result lines other than the bare '=> none'")
TRUSTED = [
    "modelled, not verified: serde_json's compact serializer and RawValue::from_string (Json/*.v: ser, raw_text), tied by the differential run only",
    "the harness' failing Serialize impls (harness/src/bin/builder.rs: Walk, FailRaw); the bytes they really emit are printed "
    "by the implementation side and compared with the generator's prediction on every case",
]
ASSUMPTIONS = [
    "a successful Serialize impl leaves a complete JSON text in the writer (serde_json's Serializer contract); what a failing one leaves is arbitrary (quantified)",
    "C20_positional/C20_named (parse-back by the strict reader) are stated for values nested at most 126 deep: one level is added by the builder and "
    "serde_json's recursion limit is 128 (Example C20_depth_boundary); C20_total (no panic, output is a valid raw JSON text) has no depth bound",
    "rpc_params! panics when an insert fails: documented contract of the macro, reported as MACRO-PANIC and not counted against the property",
    "panics raised inside a user's Serialize impl are outside the property",
]

KEY_POISON = "failed-insert-poisons-builder"

# minimized witnesses, run first (corpus)
CORPUS = [
    "array x:7b2261223a",                       # failing struct after `{"a":`      -> build() panicked
    "array x:31 v:32",                          # failed `1`, then 2                -> built [12]
    "array x:",                                 # failed insert, nothing written    -> built [] instead of None
    "object k61=v:31 k62=x:5b",                 # named: key + partial left behind  -> build() panicked
    "array v:31 f:5b312c:5b312c325d:2 v:33",    # sequence failing at its 2nd element
    "batch m61 array x:7b v:31",                # poisoned ArrayParams handed to the batch builder
]


# ------------------------------------------------------------------ values as serde_json::Value would print them

class Lit:
    """a float literal that serde_json (ryu) prints back unchanged"""
    def __init__(self, text):
        self.text = text

FLOAT_LITS = ["1.5", "0.5", "-2.25", "123.456", "1e-7", "1e+300", "-0.0", "2.5e-10", "0.1"]
INTS = [0, 1, 2, 7, 42, 255, 256, 2**31 - 1, 2**32, 2**53 + 1, 2**63 - 1, 2**63, 2**64 - 1, -1, -7, -2**31, -2**63]
CHARS = ["a", "b", "z", "A", "0", " ", "_", '"', "\\", "/", "\n", "\t", "\r", "\b", "\f", "\x00", "\x1f", "\x7f",
         "\u00e9", "\u20ac", "\u2028", "\uffff", "\U0001f600", "\U0010ffff", "[", "]", "{", "}", ",", ":"]


def esc(s):
    out = bytearray(b'"')
    for ch in s:
        o = ord(ch)
        if ch == '"':
            out += b'\\"'
        elif ch == "\\":
            out += b"\\\\"
        elif ch == "\b":
            out += b"\\b"
        elif ch == "\f":
            out += b"\\f"
        elif ch == "\n":
            out += b"\\n"
        elif ch == "\r":
            out += b"\\r"
        elif ch == "\t":
            out += b"\\t"
        elif o < 0x20:
            out += b"\\u%04x" % o
        else:
            out += ch.encode("utf-8")
    out += b'"'
    return bytes(out)


def scalar(v):
    if v is None:
        return b"null"
    if v is True:
        return b"true"
    if v is False:
        return b"false"
    if isinstance(v, int):
        return str(v).encode()
    if isinstance(v, Lit):
        return v.text.encode()
    if isinstance(v, str):
        return esc(v)
    raise TypeError(v)


class Fail(Exception):
    pass


def emit(v, st, out):
    """serde_json's compact emission of v, failing at the st[0]-th event (mirror of `Walk` in the harness)"""
    if st[0] == 0:
        raise Fail()
    st[0] -= 1
    if isinstance(v, list):
        out.append(b"[")
        if not v:
            out.append(b"]")
        for i, e in enumerate(v):
            if i:
                out.append(b",")
            emit(e, st, out)
        if st[0] == 0:
            raise Fail()
        st[0] -= 1
        if v:
            out.append(b"]")
    elif isinstance(v, dict):
        out.append(b"{")
        if not v:
            out.append(b"}")
        for i, (k, e) in enumerate(v.items()):
            if i:
                out.append(b",")
            out.append(esc(k))
            out.append(b":")
            emit(e, st, out)
        if st[0] == 0:
            raise Fail()
        st[0] -= 1
        if v:
            out.append(b"}")
    else:
        out.append(scalar(v))


def ser(v):
    out = []
    emit(v, [10**9], out)
    return b"".join(out)


def events(v):
    if isinstance(v, list):
        return 2 + sum(events(e) for e in v)
    if isinstance(v, dict):
        return 2 + sum(events(e) for e in v.values())
    return 1


def partial(v, n):
    out = []
    try:
        emit(v, [n], out)
    except Fail:
        pass
    return b"".join(out)


def gen_str(rng):
    return "".join(rng.choice(CHARS) for _ in range(rng.choice([0, 1, 1, 2, 3, 6])))


def gen_val(rng, depth):
    r = rng.random()
    if depth <= 0 or r < 0.5:
        k = rng.random()
        if k < 0.1:
            return None
        if k < 0.2:
            return rng.choice([True, False])
        if k < 0.5:
            return rng.choice(INTS)
        if k < 0.6:
            return Lit(rng.choice(FLOAT_LITS))
        return gen_str(rng)
    n = rng.choice([0, 1, 1, 2, 3])
    if r < 0.78:
        if rng.random() < 0.3:   # homogeneous (typed Vec<u64> / Vec<String>)
            return [rng.choice([1, 2, 2**64 - 1]) for _ in range(n)] if rng.random() < 0.5 else [gen_str(rng) for _ in range(n)]
        return [gen_val(rng, depth - 1) for _ in range(n)]
    d = {}
    for _ in range(n):
        d[gen_str(rng)] = gen_val(rng, depth - 1)
    return dict(sorted(d.items(), key=lambda kv: kv[0].encode("utf-8")))   # BTreeMap order


# ------------------------------------------------------------------ items and cases

def hx(b):
    return b.hex()


def ok_item(rng, depth=2):
    """(token, text) of a value whose serialisation succeeds"""
    r = rng.random()
    if r < 0.3:
        raw = G.value(rng, depth=rng.choice([0, 1, 2, 3]), lenient=rng.random() < 0.15)
        return "r:" + hx(raw), raw
    t = ser(gen_val(rng, depth))
    return ("v:" if r < 0.65 else "t:") + hx(t), t


def fail_item(rng):
    r = rng.random()
    if r < 0.6:
        v = gen_val(rng, rng.choice([0, 1, 2, 2, 3]))
        n = rng.randint(0, events(v))
        return "f:%s:%s:%d" % (hx(partial(v, n)), hx(ser(v)), n), None
    if r < 0.85:   # arbitrary prefix of a JSON text
        t = G.value(rng, depth=2)
        try:
            t.decode("utf-8")
        except UnicodeDecodeError:
            t = b"[1]"
        k = rng.randint(0, len(t))
        while k < len(t) and (t[k] & 0xC0) == 0x80:   # keep the prefix UTF-8 (the harness hands it over as a &str)
            k += 1
        return "x:" + hx(t[:k]), None
    return "x:" + hx(rng.choice([b"", b",", b"]", b"}", b"1", b"1,", b"[", b"{", b'"', b'"a', b"nul", b"null", b"[1],", b'{"a":1}', b" ", b"\\"])), None


def items(rng, n, pfail):
    return [fail_item(rng) if rng.random() < pfail else ok_item(rng) for _ in range(n)]


def key_tok(k):
    return "k" + hx(k.encode("utf-8"))


def mk_line(kind, its, keys=None, ctor=None):
    word = kind + "d" if ctor == "default" and kind in ("array", "object") else kind
    if kind in ("object", "map"):
        return " ".join([word] + ["%s=%s" % (key_tok(k), tok) for k, (tok, _) in zip(keys, its)])
    return " ".join([word] + [tok for tok, _ in its])


def mk_case(kind, its, keys=None, tag=None):
    return {"kind": kind, "line": mk_line(kind, its, keys), "items": [(tok, None if t is None else t.hex()) for tok, t in its],
            "keys": keys, "tag": tag or kind}


def parse_corpus(line):
    """rebuild the case description from a protocol line (corpus / replay)"""
    toks = line.split()
    kind = toks[0]
    ctor = None
    if kind in ("arrayd", "objectd"):
        kind, ctor = kind[:-1], "default"
    if kind == "batch":
        entries, cur = [], []
        for t in toks[1:]:
            if t == "|":
                entries.append(cur)
                cur = []
            else:
                cur.append(t)
        if cur:
            entries.append(cur)
        subs = []
        for e in entries:
            sub = parse_corpus(" ".join(e[1:]))
            sub["method"] = bytes.fromhex(e[0][1:]).decode("utf-8")
            subs.append(sub)
        return {"kind": "batch", "line": line, "entries": subs, "tag": "corpus"}
    its, keys = [], []
    for t in toks[1:]:
        if kind in ("object", "map"):
            k, t = t.split("=", 1)
            keys.append(bytes.fromhex(k[1:]).decode("utf-8"))
        tag, rest = t.split(":", 1)
        its.append((t, rest if tag in ("v", "r", "t") else None))
    return {"kind": kind, "line": line, "items": its, "keys": keys if kind in ("object", "map") else None, "tag": "corpus", "ctor": ctor}


SEQ_KINDS = ["tuple", "slice", "vec", "arr"]


def gen_cases(ctx):
    rng = ctx.rng
    n = ctx.scale(5000, 600000)
    cases = [parse_corpus(l) for l in CORPUS]
    # ---- exhaustive: every failure point of fixed values, at every position of a short history, both builders
    fixed = [[1, {"a": [True, "x"]}, None], {"k": {"q": []}, "z": "\n"}, "s€", [], {}, 7, [[], [{}]]]
    if ctx.thorough or ctx.search_mode:
        fixed += [[1, 2, 3], {"a": 1, "b": [2, {"c": None}]}, [Lit("1.5"), -1, "\"\\"], None, True]
    for v in fixed:
        for nev in range(events(v) + 1):
            ftok = ("f:%s:%s:%d" % (hx(partial(v, nev)), hx(ser(v)), nev), None)
            a, b = ("v:31", b"1"), ("t:" + hx(b'"y"'), b'"y"')
            for pos, its in enumerate(([ftok], [ftok, a], [a, ftok], [a, ftok, b], [a, b, ftok], [ftok, ftok, a])):
                cases.append(mk_case("array", its, tag="exhaustive-fail-point"))
                cases.append(mk_case("object", its, keys=["k%d" % i for i in range(len(its))], tag="exhaustive-fail-point"))
            cases.append(mk_case("tuple", [a, ftok], tag="exhaustive-fail-point"))
            cases.append(mk_case("slice", [ftok, a], tag="exhaustive-fail-point"))
    # ---- exhaustive: fail after k bytes, for every k, of a few texts
    for t in [b'[1,{"a":[true,"x\\n"]},null]', b'{"k":"v","n":-12.5e3}', "\"é\U0001f600\"".encode("utf-8"), b"12345", b"null"]:
        for k in range(len(t) + 1):
            if k < len(t) and (t[k] & 0xC0) == 0x80:
                continue
            x = ("x:" + hx(t[:k]), None)
            a = ("v:32", b"2")
            for its in ([x], [x, a], [a, x], [a, x, a]):
                cases.append(mk_case("array", its, tag="exhaustive-byte-prefix"))
                cases.append(mk_case("object", its, keys=["a", "b", "a"][:len(its)], tag="exhaustive-byte-prefix"))
    # ---- all tuple / array arities, rpc_params arities
    for ar in range(1, 17):
        for _ in range(ctx.scale(10, 300)):
            cases.append(mk_case("tuple", items(rng, ar, 0.0), tag="tuple-arity"))
        cases.append(mk_case("tuple", items(rng, ar, 0.3), tag="tuple-arity"))
    for ar in range(0, 17):
        cases.append(mk_case("arr", items(rng, ar, 0.0), tag="array-arity"))
        cases.append(mk_case("arr", items(rng, ar, 0.2), tag="array-arity"))
    for ar in range(0, 13):
        cases.append(mk_case("rpc", items(rng, ar, 0.0), tag="rpc-arity"))
        cases.append(mk_case("rpc", items(rng, ar, 0.15), tag="rpc-arity"))
    # ---- random histories
    for _ in range(n):
        ln = rng.choice([0, 1, 1, 2, 3, 4, 6, 9])
        pf = rng.choice([0.0, 0.0, 0.15, 0.4, 1.0])
        cases.append(mk_case("array", items(rng, ln, pf)))
        its = items(rng, ln, pf)
        keys = [rng.choice(["a", "b", "", gen_str(rng)]) for _ in its]     # duplicates on purpose
        cases.append(mk_case("object", its, keys=keys))
    for _ in range(n // 3):
        kind = rng.choice(SEQ_KINDS)
        ln = rng.choice([1, 1, 2, 3, 5, 8]) if kind == "tuple" else rng.choice([0, 1, 2, 3, 5, 8])
        cases.append(mk_case(kind, items(rng, ln, rng.choice([0.0, 0.0, 0.0, 0.3]))))
        ln = rng.choice([0, 1, 2, 3, 5])
        its = []
        for _ in range(ln):
            t = ser(gen_val(rng, 2))
            its.append(("v:" + hx(t), t))
        cases.append(mk_case("map", its, keys=[rng.choice(["a", "b", "c", gen_str(rng)]) for _ in its]))
        cases.append(mk_case("rpc", items(rng, rng.choice([0, 1, 2, 3, 5, 8, 12]), rng.choice([0.0, 0.0, 0.0, 0.2]))))
    # ---- deep raw values (no recursion limit on the RawValue path)
    for d in [1, 2, 125, 126, 127, 128, 200]:
        t = G.deep(rng, d)
        cases.append(mk_case("array", [("r:" + hx(t), t), ("v:31", b"1")], tag="deep-raw"))
        cases.append(mk_case("object", [("r:" + hx(t), t)], keys=["d"], tag="deep-raw"))
        cases.append(mk_case("tuple", [("r:" + hx(t), t)], tag="deep-raw"))
    # ---- batch builder, 0..n entries
    for _ in range(n // 2):
        ne = rng.choice([0, 1, 1, 2, 3, 5])
        subs = []
        for _ in range(ne):
            kind = rng.choice(["array", "array", "object", "rpc", "tuple", "slice", "map", "vec", "arr"])
            pf = rng.choice([0.0, 0.0, 0.25])
            if kind == "tuple":
                sub = mk_case(kind, items(rng, rng.randint(1, 4), pf))
            elif kind == "object":
                its = items(rng, rng.randint(0, 3), pf)
                sub = mk_case(kind, its, keys=[rng.choice(["a", "b", gen_str(rng)]) for _ in its])
            elif kind == "map":
                its = []
                for _ in range(rng.randint(0, 3)):
                    t = ser(gen_val(rng, 1))
                    its.append(("v:" + hx(t), t))
                sub = mk_case(kind, its, keys=[rng.choice(["a", "b", gen_str(rng)]) for _ in its])
            else:
                sub = mk_case(kind, items(rng, rng.randint(0, 4), pf))
            sub["method"] = rng.choice(["m", "say_hello", "", gen_str(rng)])
            subs.append(sub)
        line = "batch " + " | ".join("m%s %s" % (hx(s["method"].encode("utf-8")), s["line"]) for s in subs)
        cases.append({"kind": "batch", "line": line.strip(), "entries": subs, "tag": "batch"})
    # a third of the plain builder histories use a builder obtained through `Default` (what `std::mem::take` leaves behind)
    # instead of `new()`: the two must be the same builder
    for c in cases:
        if c["kind"] in ("array", "object") and c.get("ctor") is None and rng.random() < 0.33:
            c["ctor"] = "default"
            word, _, rest = c["line"].partition(" ")
            c["line"] = (c["kind"] + "d" + (" " + rest if rest else "")).strip()
    return cases


# ------------------------------------------------------------------ the direct oracle (implementation output only)

def loads(b):
    return json.loads(b.decode("utf-8"), object_pairs_hook=lambda p: ("obj", p))


def expect_params(case):
    """What the property demands of one params object.  Returns (insert_tokens or None, outcome) with outcome one of
    ("none",) ("some", value) ("err",) ("macro-panic",)."""
    kind, its = case["kind"], case["items"]
    vals = [None if t is None else loads(bytes.fromhex(t)) for _, t in its]
    failing = [t is None for _, t in its]
    if kind in ("array", "object"):
        toks = ["err" if f else "ok" for f in failing]
        if kind == "array":
            good = [v for v, f in zip(vals, failing) if not f]
            return toks, (("some", good) if good else ("none",))
        good = [(k, v) for k, v, f in zip(case["keys"], vals, failing) if not f]
        return toks, (("some", ("obj", good)) if good else ("none",))
    if kind == "rpc":
        if any(failing):
            return None, ("macro-panic",)
        return None, (("some", vals) if vals else ("none",))
    if kind == "map":
        d = {}
        for k, v in zip(case["keys"], vals):
            d[k] = v
        return None, ("some", ("obj", sorted(d.items(), key=lambda kv: kv[0].encode("utf-8"))))
    if any(failing):
        return None, ("err",)
    return None, ("some", vals)


def check_params(case, tokens, outcome):
    """tokens: the per-item tokens printed by the implementation, outcome: text after '=>' (or after '->' in a batch).
    Returns a list of complaints."""
    bad = []
    want_toks, want = expect_params(case)
    if want_toks is not None:
        got = [t.split(":")[0] for t in tokens]
        if got != want_toks:
            bad.append("insert results %s, the property demands %s" % (got, want_toks))
    return bad, want


def judge_built(want, outcome):
    """compare a printed build outcome (none / some:<hex> / err / PANIC / MACRO-PANIC) with the demanded one"""
    if outcome == "PANIC":
        return "build() panicked"
    if want[0] == "macro-panic":
        return None if outcome == "MACRO-PANIC" else "rpc_params! with a failing value gave %s" % outcome
    if outcome == "MACRO-PANIC":
        return "rpc_params! panicked although every insert succeeds"
    if want[0] == "none":
        return None if outcome == "none" else "nothing was inserted successfully but build() gave %s, not None" % outcome[:80]
    if want[0] == "err":
        return None if outcome == "err" else "a failing element must make to_rpc_params() return Err, got %s" % outcome[:80]
    if not outcome.startswith("some:"):
        return "expected Some(json), got %s" % outcome[:80]
    raw = bytes.fromhex(outcome[5:])
    try:
        got = loads(raw)
    except Exception as e:   # noqa
        return "built text is not valid JSON: %r (%s)" % (raw[:120], e)
    if got != want[1]:
        return "built text %r does not parse back to the inserted values" % raw[:160]
    return None


def split_result(line):
    """'<tokens> => <outcome>' -> (tokens, outcome)"""
    head, _, out = line.rpartition("=> ")
    return head.split(), out.strip()


def oracle(case, a):
    """list of complaints about implementation output `a` for `case`"""
    if a.startswith("PANIC") or a.startswith("CRASH") or a.startswith("?"):
        return ["engine line failed: " + a[:200]]
    if case["kind"] != "batch":
        tokens, outcome = split_result(a)
        bad, want = check_params(case, tokens, outcome)
        if len(tokens) != len(case["items"]):
            bad.append("token count")
        if "INSERT-PANIC" in tokens:
            bad.append("insert() panicked")
        j = judge_built(want, outcome)
        if j:
            bad.append(j)
        return bad
    body, _, tail = a.partition(" || ")
    parts = body.split(" | ") if case["entries"] else []
    if len(parts) != len(case["entries"]):
        return ["batch output shape: " + a[:200]]
    bad, listed = [], []
    for sub, part in zip(case["entries"], parts):
        head, _, res = part.rpartition("-> ")
        tokens = head.split()
        b, want = check_params(sub, tokens, res)
        bad += b
        if res == "PANIC":
            bad.append("BatchRequestBuilder::insert panicked (params object: %s)" % sub["line"][:80])
        elif want[0] == "macro-panic":
            if res != "MACRO-PANIC":
                bad.append("rpc_params! with a failing value gave %s" % res)
        elif want[0] == "err":
            if res != "err":
                bad.append("failing params must make insert return Err, got %s" % res)
        else:
            if res != "ok":
                bad.append("insert of good params gave %s" % res)
            listed.append((sub["method"], want))
    t = tail.split()
    if len(t) < 2 or t[0] != str(len(listed)) or t[1] != ("built:%d" % len(listed) if listed else "built:empty"):
        bad.append("batch holds %s, expected %d entries" % (t[:2], len(listed)))
    else:
        for (m, want), ent in zip(listed, t[2:]):
            mh, _, out = ent.partition(":")
            if mh != "m" + hx(m.encode("utf-8")):
                bad.append("batch entry method differs")
            j = judge_built(want, out)
            if j:
                bad.append("batch entry %r: %s" % (m, j))
    return bad


def has_failing(case):
    if case["kind"] == "batch":
        return any(has_failing(s) for s in case["entries"])
    return any(t is None for _, t in case["items"])


BUILDER_KINDS = ("array", "object", "rpc")


def has_failed_insert(case):
    """a failing value handed to ArrayParams / ObjectParams (directly, through rpc_params!, or inside a batch)"""
    if case["kind"] == "batch":
        return any(has_failed_insert(s) for s in case["entries"])
    return case["kind"] in BUILDER_KINDS and has_failing(case)


def without_failed_inserts(case):
    """the same history with the failing inserts left out (class predicate of the known defect: the property
    fails on the history but holds on this one)"""
    if case["kind"] == "batch":
        subs = []
        for s in case["entries"]:
            t = without_failed_inserts(s)
            t["method"] = s["method"]
            subs.append(t)
        line = "batch " + " | ".join("m%s %s" % (hx(x["method"].encode("utf-8")), x["line"]) for x in subs)
        return dict(case, entries=subs, line=line.strip())
    if case["kind"] not in BUILDER_KINDS:
        return dict(case)
    keep = [i for i, (_, t) in enumerate(case["items"]) if t is not None]
    its = [case["items"][i] for i in keep]
    keys = None if case["keys"] is None else [case["keys"][i] for i in keep]
    return dict(case, items=its, keys=keys, line=mk_line(case["kind"], its, keys, case.get("ctor")))


def strip_case(case):
    return {"line": case["line"], "kind": case["kind"], "tag": case.get("tag")}


def shrink(case, impl, keep_failing):
    """drop items (non-batch) while the oracle still complains; returns the smallest failing case found"""
    if case["kind"] == "batch":
        return case
    cur = case
    changed = True
    while changed and len(cur["items"]) > 1:
        changed = False
        for i in range(len(cur["items"])):
            its = cur["items"][:i] + cur["items"][i + 1:]
            if cur["kind"] == "tuple" and not its:
                continue
            keys = None if cur["keys"] is None else cur["keys"][:i] + cur["keys"][i + 1:]
            cand = dict(cur, items=its, keys=keys)
            cand["line"] = mk_line(cur["kind"], its, keys, cur.get("ctor"))
            if keep_failing and not has_failed_insert(cand):
                continue
            rc, out = vlib.sh([impl], input=cand["line"] + "\n")
            if rc == 0 and oracle(cand, out.strip().split("\n")[-1]):
                cur, changed = cand, True
                break
    return cur


def run(ctx):
    ctx.engines = ["builder (harness/src/bin/builder.rs vs modelrun/builder_driver.ml over coq/Model/Builder.v)"]
    impl, model = vlib.rust_bin("builder"), vlib.model_bin("builder")
    cases = gen_cases(ctx)
    lines = [c["line"] for c in cases]
    ri = vlib.run_lines([impl], lines)
    rm = vlib.run_lines([model], lines)
    ro = vlib.run_lines([model, "old"], lines)
    same_old = sum(1 for a, o in zip(ri, ro) if a == o)
    verdicts = [oracle(case, a) for case, a in zip(cases, ri)]
    # classify: "poisoned by a failed insert" = fails on the history, holds on the history without the failed inserts
    # (for a bare model/implementation difference: differs on the history, agrees on the history without them -
    #  e.g. a failing serialiser that had only written a blank: the built text still parses back, but is not the same text)
    suspects = [i for i, v in enumerate(verdicts) if (v or ri[i] != rm[i]) and has_failed_insert(cases[i])]
    stripped = [without_failed_inserts(cases[i]) for i in suspects]
    rs = vlib.run_lines([impl], [s["line"] for s in stripped])
    rsm = vlib.run_lines([model], [s["line"] for s in stripped])
    poisoned = set(i for i, s, r, m in zip(suspects, stripped, rs, rsm) if not oracle(s, r) and r == m)
    ctx.evaluations += len(suspects)
    shrunk = set()
    for i, (case, a, b) in enumerate(zip(cases, ri, rm)):
        ctx.count(case.get("tag") or case["kind"])
        ctx.count("kind:" + case["kind"])
        ctx.count("with-failing-serialiser" if has_failing(case) else "all-serialisable")
        ctx.record(strip_case(case), a, nontrivial=(a.strip() != "=> none"))
        complaints = verdicts[i]
        key = None
        if complaints:
            key = KEY_POISON if i in poisoned else "params-roundtrip:" + case["kind"]
            rep = case
            if key not in shrunk:
                shrunk.add(key)
                rep = shrink(case, impl, keep_failing=(key == KEY_POISON))
            ctx.fail("oracle", key, strip_case(rep), "; ".join(complaints)[:600])
        if a != b:
            # the model is the REPAIRED code: on a tree without the repair it differs exactly where the oracle complains
            dkey = KEY_POISON if i in poisoned else "builder-model-differs:" + case["kind"]
            ctx.fail("diff", dkey, strip_case(case), {"impl": a[:400], "model": b[:400]})
    ctx.extra["agrees_with_pre_repair_model"] = "%d of %d cases" % (same_old, len(cases))
    if same_old == len(cases) and any(a != b for a, b in zip(ri, rm)):
        ctx.note("the implementation behaves exactly as insert_old (the model of the code before the C20 repair) on all %d cases" % len(cases))


def replay(payload):
    case = payload["case"]
    print(json.dumps(payload, indent=1)[:3000])
    line = case["line"] if isinstance(case, dict) else str(case)
    outs = {}
    for name, cmd in (("impl", [vlib.rust_bin("builder")]), ("model (repaired insert)", [vlib.model_bin("builder")]),
                      ("model (insert_old)", [vlib.model_bin("builder"), "old"])):
        rc, out = vlib.sh(cmd, input=line + "\n")
        outs[name] = out.strip()
        print("%-24s -> %s" % (name, out.strip()))
    full = parse_corpus(line)
    complaints = oracle(full, outs["impl"].split("\n")[-1])
    print("oracle:", "; ".join(complaints) if complaints else "property holds on this case")
    return 1 if complaints else 0
