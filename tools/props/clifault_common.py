"""Scripts for the engine `clifault` (C09: shutdown protocol of the async client) and the direct oracle.

Line protocol (both harness/src/bin/clifault.rs and modelrun/clifault_driver.ml):
    <slowclose 0|1> | step ; step ; ...
steps:  call h | newcall h | batch h n | sub h | ondisc h | isconn | next h | back <hex> | failsend | recvfault |
        peerclose | release-close | dropclient | settle
output: one segment per step (" | "-separated), tokens comma-separated:
    W<hex> C<h>=<res> D<h>=<cause> I0|I1 N<res> Xclosing Xsdrop Xrdrop ;  last segments: P<h>.<h>..  [PANIC]
The generator plays the server: ids come from a counter (call +1, batch +n, subscribe +2).
"""
import json
import vlib

J = lambda o: json.dumps(o, separators=(",", ":")).encode()

BAD_FRAMES = [
    (b"hello", "unparseable"), (b"{}", "unparseable"), (b"", "unparseable"), (b"[1]", "unparseable"),
    (b"[]", "emptybatch"),
    (b'{"jsonrpc":"2.0","id":999,"result":1}', "notpending"),
    (b'{"jsonrpc":"2.0","id":18446744073709551615,"result":1}', "notpending"),
    (b'[{"id":18446744073709551615,"result":1}]', "notpending"),
    (b'[{"id":0,"result":1},{"id":18446744073709551615,"result":1}]', "notpending"),
    (b'[{"id":18446744073709551614,"result":1}]', "notpending"),
    (b'[{"id":"x","result":1}]', "badbatchid"),
    (b'[{"id":null,"result":1}]', "badbatchid"),
]
TRANSPORT_CAUSES = ("sendfault", "recvfault", "peerclosed")


class Script:
    def __init__(self, rng, slow):
        self.rng, self.slow = rng, slow
        self.steps = []          # (text, meta)
        self.h = 0
        self.next_id = 0
        self.calls = {}          # h -> id (unanswered, presumably on the wire)
        self.subs = {}           # h -> id (pending subscribe)
        self.active = {}         # h -> sid
        self.batches = {}        # h -> (lo, n)
        self.fault_at = None
        self.cause = None        # expected cause class (None: any frame class)
        self.released = False
        self.dropped = False
        self.armed = False

    def add(self, text, **meta):
        self.steps.append((text, meta))

    def newh(self):
        self.h += 1
        return self.h

    def alive(self):
        return self.fault_at is None and not self.dropped

    def _issued(self, h, kind):
        """a call-like step: fires an armed send fault when the send task is still there"""
        if self.armed and self.alive():
            self.armed = False
            self.fault_at = len(self.steps) - 1
            self.cause = "sendfault"
            self.steps[-1][1]["fault"] = True

    def call(self, word="call"):
        h = self.newh()
        on_wire = self.alive() and not self.armed
        self.add("%s %d" % (word, h), kind="call", h=h)
        if self.alive():
            i = self.next_id
            self.next_id += 1
            if on_wire:
                self.calls[h] = i
        self._issued(h, "call")
        return h

    def batch(self):
        h = self.newh()
        n = self.rng.choice([1, 2, 3])
        on_wire = self.alive() and not self.armed
        self.add("batch %d %d" % (h, n), kind="batch", h=h)
        if self.alive():
            lo = self.next_id
            self.next_id += n
            if on_wire:
                self.batches[h] = (lo, n)
        self._issued(h, "batch")
        return h

    def sub(self):
        h = self.newh()
        on_wire = self.alive() and not self.armed
        self.add("sub %d" % h, kind="sub", h=h)
        if self.alive():
            i = self.next_id
            self.next_id += 2
            if on_wire:
                self.subs[h] = i
        self._issued(h, "sub")
        return h

    def back(self, raw, **meta):
        self.add("back %s" % (raw.hex() if raw else "-"), kind="back", **meta)

    def answer(self):
        c = []
        if self.calls:
            c.append("call")
        if self.subs:
            c.append("sub")
        if self.batches:
            c.append("batch")
        if self.active:
            c.append("push")
        if not c:
            return
        k = self.rng.choice(c)
        if not self.alive():
            # nobody reads the transport any more: the frame goes nowhere
            i = list(self.calls.values()) + list(self.subs.values()) + [lo for lo, _ in self.batches.values()] + [0]
            self.back(J({"jsonrpc": "2.0", "id": i[0], "result": "late"}), what="late")
            return
        if k == "call":
            h = self.rng.choice(sorted(self.calls))
            i = self.calls.pop(h)
            self.back(J({"jsonrpc": "2.0", "id": i, "result": "r%d" % i}), what="answer", h=h)
        elif k == "sub":
            h = self.rng.choice(sorted(self.subs))
            i = self.subs.pop(h)
            sid = "s%d" % h
            self.back(J({"jsonrpc": "2.0", "id": i, "result": sid}), what="sub-ok", h=h)
            self.active[h] = sid
        elif k == "batch":
            h = self.rng.choice(sorted(self.batches))
            lo, n = self.batches.pop(h)
            ids = list(range(lo, lo + n))
            self.rng.shuffle(ids)
            self.back(J([{"jsonrpc": "2.0", "id": i, "result": "r%d" % i} for i in ids]), what="batch-answer", h=h)
        else:
            h = self.rng.choice(sorted(self.active))
            self.back(J({"jsonrpc": "2.0", "method": "ev", "params": {"subscription": self.active[h], "result": "p%d" % len(self.steps)}}),
                      what="push", h=h)

    def fault(self, kind=None):
        kind = kind or self.rng.choice(["recvfault", "peerclose", "failsend", "badframe", "badframe"])
        if kind == "failsend":
            self.add("failsend", kind="failsend")
            self.armed = True
            self.rng.choice([self.call, self.call, self.batch, self.sub])()
            return
        if kind == "badframe":
            raw, cls = self.rng.choice(BAD_FRAMES)
            self.back(raw, what="bad", fault=True)
            if self.alive():
                self.fault_at, self.cause = len(self.steps) - 1, cls
            return
        self.add(kind, kind=kind, fault=True)
        if self.alive():
            self.fault_at = len(self.steps) - 1
            self.cause = "recvfault" if kind == "recvfault" else "peerclosed"

    def window_op(self):
        r = self.rng.random()
        if r < 0.25:
            self.call("newcall")
        elif r < 0.33:
            self.rng.choice([self.batch, self.sub])()
        elif r < 0.5:
            self.add("ondisc %d" % self.newh(), kind="ondisc", h=self.h)
        elif r < 0.68:
            self.add("isconn", kind="isconn")
        elif r < 0.75:
            self.add("settle", kind="settle")
        elif r < 0.85 and self.active:
            self.add("next %d" % self.rng.choice(sorted(self.active)), kind="next")
        elif r < 0.9:
            self.fault(self.rng.choice(["recvfault", "peerclose", "badframe"]))       # a second fault changes nothing
        elif r < 0.95 and (self.calls or self.subs or self.batches):
            self.answer()                                                              # nobody reads it any more
        elif self.slow and not self.released:
            self.add("release-close", kind="release")
            self.released = True
        else:
            self.add("isconn", kind="isconn")

    def text(self):
        return "%d | %s" % (self.slow, " ; ".join(t for t, _ in self.steps))


def gen_script(rng, fault_kind=None, pre=None, window=None, slow=None, release=None, drop=False):
    S = Script(rng, rng.choice([0, 1]) if slow is None else slow)
    pre = rng.choice([0, 1, 2, 3, 5, 8]) if pre is None else pre
    for _ in range(pre):
        r = rng.random()
        if r < 0.35:
            S.call()
        elif r < 0.45:
            S.batch()
        elif r < 0.58:
            S.sub()
        elif r < 0.85:
            S.answer()
        elif r < 0.9:
            S.add("isconn", kind="isconn")
        elif r < 0.95:
            S.add("ondisc %d" % S.newh(), kind="ondisc", h=S.h)       # resolves when the connection dies
        elif S.active:
            S.add("next %d" % rng.choice(sorted(S.active)), kind="next")
    if drop:
        S.add("dropclient", kind="dropclient")
        S.dropped = True
    else:
        S.fault(fault_kind)
    for _ in range(rng.choice([0, 1, 2, 4, 6]) if window is None else window):
        S.window_op()
    if S.slow and not S.released and (rng.random() < 0.8 if release is None else release):
        S.add("release-close", kind="release")
        S.released = True
        for _ in range(rng.choice([0, 1, 3])):
            S.window_op()
    for h in sorted(S.active):
        for _ in range(3):
            S.add("next %d" % h, kind="next")
    return S


# ---------------------------------------------------------------- output

def parse(line):
    segs = line.split(" | ")
    panic = False
    if segs and segs[-1] == "PANIC":
        panic = True
        segs.pop()
    pend = []
    if segs and segs[-1].startswith("P"):
        p = segs.pop()[1:]
        pend = [int(x) for x in p.split(".") if x]
    evs = []
    for seg in segs:
        d = {"W": [], "C": {}, "D": {}, "I": None, "N": None, "X": []}
        toks, depth, cur = [], 0, ""
        for ch in seg:
            depth += (ch == "[") - (ch == "]")
            if ch == "," and depth == 0:
                toks.append(cur); cur = ""
            else:
                cur += ch
        if cur:
            toks.append(cur)
        for t in toks:
            if t.startswith("W"):
                d["W"].append(t[1:])
            elif t.startswith("C"):
                h, _, r = t[1:].partition("=")
                d["C"][int(h)] = r
            elif t.startswith("D"):
                h, _, r = t[1:].partition("=")
                d["D"][int(h)] = r
            elif t.startswith("I"):
                d["I"] = t[1:]
            elif t.startswith("N"):
                d["N"] = t[1:]
            elif t.startswith("X"):
                d["X"].append(t)
        evs.append(d)
    return evs, pend, panic


def oracle(S, line, fail):
    """restates C09 on the implementation's output alone"""
    if line.startswith("CRASH") or line.startswith("?"):
        fail("client-task-panicked", "engine crashed: " + line[:200])
        return
    evs, pend, panic = parse(line)
    if panic:
        fail("client-task-panicked", "a background task or a front-end future panicked")
    if len(evs) != len(S.steps):
        fail("client-task-panicked", "engine printed %d segments for %d steps" % (len(evs), len(S.steps)))
        return
    f = S.fault_at
    cause = None
    for k, d in enumerate(evs):
        for h, r in list(d["C"].items()) + list(d["D"].items()):
            if r == "PLACEHOLDER":
                fail("disconnect-cause-missing", "handle %d got the placeholder at step %d" % (h, k))
            if r in ("svcdisc", "timeout") or r.startswith("custom:") or r.startswith("other:") or r.startswith("disc:other"):
                fail("pending-failed-without-cause", "handle %d completed with %s at step %d" % (h, r, k))
            c = r[5:] if r.startswith("disc:") else (r if h in d["D"] else None)
            if c and c != "PLACEHOLDER":
                if f is None or k < f:
                    fail("disconnected-without-fault", "handle %d failed with %s before any fault (step %d)" % (h, c, k))
                if cause is None:
                    cause = c
                elif c != cause:
                    fail("cause-mismatch", "handle %d carries cause %s, earlier ones %s" % (h, c, cause))
    if f is not None and cause is not None:
        if S.cause in TRANSPORT_CAUSES + ("unparseable", "emptybatch", "notpending", "badbatchid") and cause != S.cause:
            fail("cause-mismatch", "the injected fault is %s but callers were told %s" % (S.cause, cause))
    closed_at = None      # first step at which both transport halves are gone
    seen = set()
    for k, d in enumerate(evs):
        seen.update(d["X"])
        if closed_at is None and "Xsdrop" in seen and "Xrdrop" in seen:
            closed_at = k
    release_at = next((k for k, (t, m) in enumerate(S.steps) if m.get("kind") == "release"), None)
    done_at = {}
    for k, d in enumerate(evs):
        for h in list(d["C"]) + list(d["D"]):
            done_at.setdefault(h, k)
    if f is not None:
        for k, (t, m) in enumerate(S.steps):
            d = evs[k]
            kind = m.get("kind")
            if kind == "isconn" and d["I"] != ("1" if k < f else "0"):
                fail("is-connected-wrong", "is_connected = %s at step %d (fault at %d)" % (d["I"], k, f))
            if kind in ("call", "batch", "sub", "ondisc"):
                h = m["h"]
                if k > f:
                    r = d["D"].get(h) if kind == "ondisc" else d["C"].get(h)
                    if r is None:
                        fail("on-disconnect-not-resolved" if kind == "ondisc" else "later-call-not-failed-with-cause",
                             "handle %d issued after the fault (step %d) was not completed in its own step (completed at %s)" % (h, k, done_at.get(h)))
                elif kind != "ondisc" and h not in done_at:
                    # outstanding at the fault and never completed
                    if S.slow and release_at is None:
                        fail("pending-not-failed-until-transport-closed",
                             "handle %d, pending at the fault (step %d), is still pending at the end: the transport's close() has not returned" % (h, f))
                    else:
                        fail("pending-never-failed", "handle %d, pending at the fault (step %d), never completed" % (h, f))
                elif kind != "ondisc" and done_at[h] > f:
                    if S.slow and release_at is not None and done_at[h] >= release_at:
                        fail("pending-not-failed-until-transport-closed",
                             "handle %d, pending at the fault (step %d), was failed only at step %d when close() was released" % (h, f, done_at[h]))
                    else:
                        fail("pending-not-failed-promptly", "handle %d, pending at the fault (step %d), completed at step %d" % (h, f, done_at[h]))
                if kind == "ondisc" and k <= f and done_at.get(h, 10**9) > f:
                    fail("on-disconnect-not-resolved", "on_disconnect() %d issued before the fault did not resolve at the fault" % h)
        if (not S.slow or release_at is not None) and closed_at is None:
            fail("background-task-not-ended", "the transport halves were not both dropped by the end: %s" % sorted(seen))
    if S.dropped and (not S.slow or release_at is not None) and not ("Xsdrop" in seen and "Xrdrop" in seen):
        fail("background-task-not-ended", "client dropped but the transport halves were not both dropped: %s" % sorted(seen))
    # streams end once the connection is gone (after the buffered items)
    if closed_at is not None:
        ended = {}
        for k, (t, m) in enumerate(S.steps):
            if m.get("kind") == "next" and k > closed_at:
                h = int(t.split()[1])
                n = evs[k]["N"]
                if n == "pending" and h in S.active:
                    fail("stream-not-ended-after-shutdown", "subscription %d still pending at step %d after both tasks ended" % (h, k))
                if ended.get(h) and n and n.startswith("item"):
                    fail("stream-not-ended-after-shutdown", "subscription %d yields items after its end" % h)
                if n and n.startswith("end"):
                    ended[h] = True


def scripts(ctx):
    rng = ctx.rng
    out = []
    # each fault kind at every step of small histories, slow and fast close, window of fixed shape
    for slow in (0, 1):
        for kind in ("recvfault", "peerclose", "failsend", "badframe"):
            for pre in range(0, 7):
                for rep in range(ctx.scale(6, 60)):
                    out.append(("fault-at-every-step", gen_script(rng, fault_kind=kind, pre=pre, slow=slow)))
    for raw, cls in BAD_FRAMES:
        for slow in (0, 1):
            S = Script(rng, slow)
            for _ in range(rng.choice([0, 1, 2])):
                rng.choice([S.call, S.batch, S.sub])()
            S.back(raw, what="bad", fault=True)
            S.fault_at, S.cause = len(S.steps) - 1, cls
            S.call("newcall")
            S.add("ondisc %d" % S.newh(), kind="ondisc", h=S.h)
            S.add("isconn", kind="isconn")
            if slow:
                S.add("release-close", kind="release"); S.released = True
            out.append(("bad-frame-zoo", S))
    for _ in range(ctx.scale(300, 5000)):
        out.append(("client-dropped", gen_script(rng, drop=True)))
    for _ in range(ctx.scale(6000, 400000)):
        out.append(("random", gen_script(rng)))
    return out


def run(ctx):
    import os
    ok, log = vlib.model_build("clifault")
    if not ok:
        ctx.fail("build", "model-build-failed:clifault", "clifault", log[-2000:])
        return
    for profile in ("release", "debug"):
        if not os.path.exists(vlib.rust_bin("clifault", profile)):
            ok, log = vlib.cargo_build(["clifault"], profile)
            if not ok:
                ctx.fail("build", "harness-build-failed", ["clifault"], log[-3000:])
                return
    cases = scripts(ctx)
    lines = [S.text() for _, S in cases]
    ri = vlib.run_lines([vlib.rust_bin("clifault")], lines, min_shard=40)
    rd = vlib.run_lines([vlib.rust_bin("clifault", "debug")], lines, min_shard=40)
    rm = vlib.run_lines([vlib.model_bin("clifault")], lines, min_shard=100)
    for (tag, S), line, a, dbg, b in zip(cases, lines, ri, rd, rm):
        ctx.count("clifault:" + tag)
        ctx.count("clifault:slow=%d" % S.slow)
        ctx.count("clifault:fault=%s" % (S.cause if S.fault_at is not None else ("dropclient" if S.dropped else "none")))
        case = {"script": line}
        if a != b:
            ctx.fail("diff", "clifault-model-differs", case, {"impl": a, "model": b})
        if dbg != a:
            ctx.fail("oracle", "client-task-panicked" if "PANIC" in dbg or dbg.startswith("CRASH") else "debug-release-differ",
                     case, {"debug": dbg, "release": a})
        ctx.record(case, a, nontrivial=("disc:" in a or "D" in a))
        said = set()

        def fail(key, detail, case=case, said=said):
            if key not in said:          # one failure per class and script
                said.add(key)
                ctx.fail("oracle", key, case, detail)
        oracle(S, a, fail)


def replay_case(case):
    for name, cmd in (("impl ", vlib.rust_bin("clifault")), ("debug", vlib.rust_bin("clifault", "debug")), ("model", vlib.model_bin("clifault"))):
        rc, out = vlib.sh([cmd], input=case["script"] + "\n")
        print(name, "->", out.strip())
