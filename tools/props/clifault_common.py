"""Scripts for the engine `clifault` (C09: shutdown protocol of the async client) and the direct oracle.

Line protocol (both harness/src/bin/clifault.rs and modelrun/clifault_driver.ml):
    <slowclose 0|1> | step ; step ; ...
steps:  call h | newcall h | batch h n | sub h | ondisc h | isconn | next h | back <hex> | failsend | recvfault |
        peerclose | release-close | dropclient | settle
output: one segment per step (" | "-separated), tokens comma-separated:
    W<hex> C<h>=<res> D<h>=<cause> I0|I1 N<res> Xclosing Xsdrop Xrdrop ;  last segments: P<h>.<h>..  [PANIC]
The generator plays the server: ids come from a counter (call +1, batch +n, subscribe +2).

Ping / inactivity family (ClientBuilder::enable_ws_ping): config `<slowclose> P<interval_ms>,<limit_ms>,<maxfail> | ...`,
steps `pong`, `quiet <ms> <class>` (REAL time on the implementation side; class alive|die|stale1 tells the model which
ticks the silence certainly produces), `failping <ms>`.  The implementation's inactivity check reads the real clock, so
only CANONICAL FACTS are compared (see canon()): `Wping` tokens are dropped except "at least one ping in a silence of
>= 2 intervals", the `T..` tokens (what the clock did, see harness/src/bin/clifault.rs) are stripped and used to decide
whether the timing precondition of the case held (if not the case is re-run, never judged).  Two safe classes only:
    die    silence >= limit*(maxfail+2) + 2*interval           certainly dead
    alive  every gap between two received frames < 0.85*limit   certainly alive (the generator aims at gaps <= limit/2)

Cancel-safety of the receive loop (family `recv-cancel-safety`, gen_cancel / cancel_oracle / run_cancel): step
`backsplit <hex> <ms>` delivers a frame in two halves <ms> ms of REAL time apart; the mock receiver's `receive()` keeps the
first half inside the FUTURE, as the real transports do (TransportReceiverT::receive is not cancel-safe).  read_task keeps
that future alive across the iterations of its select loop, so a split frame is the frame (the model driver reads
`backsplit` as `back`); a read loop that re-creates the future per iteration drops the first half whenever another select
arm wins in the gap (an inactivity tick: the configs tick every 30..50 ms with a max_failures that is never reached, the gap
is 2..4 ticks long), the answer is lost and the connection dies of a framing error.  The verdict on the unchanged source
does not depend on the clock (no case is discarded); the measured gap (T token) is only reported.
"""
import json
import os
import vlib

J = lambda o: json.dumps(o, separators=(",", ":")).encode()

BAD_FRAMES = [
    (b"hello", "unparseable"), (b"{}", "unparseable"), (b"", "unparseable"), (b"[1]", "unparseable"),
    (b"[]", "emptybatch"),
    (b'{"jsonrpc":"2.0","id":999,"result":1}', "notpending"),
    (b'{"jsonrpc":"2.0","id":18446744073709551615,"result":1}', "notpending"),
    (b'[{"id":18446744073709551615,"result":1}]', "notpending"),
    (b'[{"id":0,"result":1},{"id":18446744073709551615,"result":1}]', "notpending"),
    (b'[{"id":18446744073709551614,"result":1}]', "notpending"),
    (b'[{"id":"x","result":1}]', "badbatchid"),
    (b'[{"id":null,"result":1}]', "badbatchid"),
]
TRANSPORT_CAUSES = ("sendfault", "recvfault", "peerclosed", "inactive")
PING_CONFIGS = [(20, 60), (20, 100), (15, 80)]      # (ping interval ms, inactive limit ms)
GAP = 25                                              # ms of silence between two frames of an `alive` stretch
# cancel-safety family: (ping interval ms, inactivity tick = inactive limit ms, max_failures never reached)
CANCEL_CONFIGS = [(10, 40, 1000), (1000, 30, 1000), (15, 50, 100000)]


def impl_bin(profile="release"):
    """VERIF_CLIFAULT_BIN overrides the implementation binary (a harness copy built against another tree), both profiles."""
    return os.environ.get("VERIF_CLIFAULT_BIN") or vlib.rust_bin("clifault", profile)


class Script:
    def __init__(self, rng, slow, ping=None):
        self.rng, self.slow = rng, slow
        self.ping = ping         # (interval ms, limit ms, max_failures) or None
        self.family = None
        self.steps = []          # (text, meta)
        self.h = 0
        self.next_id = 0
        self.calls = {}          # h -> id (unanswered, presumably on the wire)
        self.subs = {}           # h -> id (pending subscribe)
        self.active = {}         # h -> sid
        self.batches = {}        # h -> (lo, n)
        self.fault_at = None
        self.cause = None        # expected cause class (None: any frame class)
        self.released = False
        self.dropped = False
        self.armed = False
        self.split_ms = None     # when set: the next frame arrives in two halves this many ms apart

    def add(self, text, **meta):
        self.steps.append((text, meta))

    def newh(self):
        self.h += 1
        return self.h

    def alive(self):
        return self.fault_at is None and not self.dropped

    def _issued(self, h, kind):
        """a call-like step: fires an armed send fault when the send task is still there"""
        if self.armed and self.alive():
            self.armed = False
            self.fault_at = len(self.steps) - 1
            self.cause = "sendfault"
            self.steps[-1][1]["fault"] = True

    def call(self, word="call"):
        h = self.newh()
        on_wire = self.alive() and not self.armed
        self.add("%s %d" % (word, h), kind="call", h=h)
        if self.alive():
            i = self.next_id
            self.next_id += 1
            if on_wire:
                self.calls[h] = i
        self._issued(h, "call")
        return h

    def batch(self):
        h = self.newh()
        n = self.rng.choice([1, 2, 3])
        on_wire = self.alive() and not self.armed
        self.add("batch %d %d" % (h, n), kind="batch", h=h)
        if self.alive():
            lo = self.next_id
            self.next_id += n
            if on_wire:
                self.batches[h] = (lo, n)
        self._issued(h, "batch")
        return h

    def sub(self):
        h = self.newh()
        on_wire = self.alive() and not self.armed
        self.add("sub %d" % h, kind="sub", h=h)
        if self.alive():
            i = self.next_id
            self.next_id += 2
            if on_wire:
                self.subs[h] = i
        self._issued(h, "sub")
        return h

    def back(self, raw, **meta):
        if self.split_ms and len(raw) >= 2:
            self.add("backsplit %s %d" % (raw.hex(), self.split_ms), kind="back", split=self.split_ms, **meta)
            return
        self.add("back %s" % (raw.hex() if raw else "-"), kind="back", **meta)

    def answer(self):
        c = []
        if self.calls:
            c.append("call")
        if self.subs:
            c.append("sub")
        if self.batches:
            c.append("batch")
        if self.active:
            c.append("push")
        if not c:
            return
        k = self.rng.choice(c)
        if not self.alive():
            # nobody reads the transport any more: the frame goes nowhere
            i = list(self.calls.values()) + list(self.subs.values()) + [lo for lo, _ in self.batches.values()] + [0]
            self.back(J({"jsonrpc": "2.0", "id": i[0], "result": "late"}), what="late")
            return
        if k == "call":
            h = self.rng.choice(sorted(self.calls))
            i = self.calls.pop(h)
            self.back(J({"jsonrpc": "2.0", "id": i, "result": "r%d" % i}), what="answer", h=h, want="ok:" + J("r%d" % i).hex())
        elif k == "sub":
            h = self.rng.choice(sorted(self.subs))
            i = self.subs.pop(h)
            sid = "s%d" % h
            self.back(J({"jsonrpc": "2.0", "id": i, "result": sid}), what="sub-ok", h=h, want="sub:s" + sid.encode().hex())
            self.active[h] = sid
        elif k == "batch":
            h = self.rng.choice(sorted(self.batches))
            lo, n = self.batches.pop(h)
            ids = list(range(lo, lo + n))
            self.rng.shuffle(ids)
            self.back(J([{"jsonrpc": "2.0", "id": i, "result": "r%d" % i} for i in ids]), what="batch-answer", h=h,
                      want="batch:s=%d/f=0:[%s]" % (n, ",".join("ok:" + J("r%d" % i).hex() for i in range(lo, lo + n))))
        else:
            h = self.rng.choice(sorted(self.active))
            item = "p%d" % len(self.steps)
            self.back(J({"jsonrpc": "2.0", "method": "ev", "params": {"subscription": self.active[h], "result": item}}),
                      what="push", h=h, want="item:" + J(item).hex())

    def fault(self, kind=None):
        kind = kind or self.rng.choice(["recvfault", "peerclose", "failsend", "badframe", "badframe"])
        if kind == "failsend":
            self.add("failsend", kind="failsend")
            self.armed = True
            self.rng.choice([self.call, self.call, self.batch, self.sub])()
            return
        if kind == "badframe":
            raw, cls = self.rng.choice(BAD_FRAMES)
            self.back(raw, what="bad", fault=True)
            if self.alive():
                self.fault_at, self.cause = len(self.steps) - 1, cls
            return
        self.add(kind, kind=kind, fault=True)
        if self.alive():
            self.fault_at = len(self.steps) - 1
            self.cause = "recvfault" if kind == "recvfault" else "peerclosed"

    def window_op(self):
        r = self.rng.random()
        if r < 0.25:
            self.call("newcall")
        elif r < 0.33:
            self.rng.choice([self.batch, self.sub])()
        elif r < 0.5:
            self.add("ondisc %d" % self.newh(), kind="ondisc", h=self.h)
        elif r < 0.68:
            self.add("isconn", kind="isconn")
        elif r < 0.75:
            self.add("settle", kind="settle")
        elif r < 0.85 and self.active:
            self.add("next %d" % self.rng.choice(sorted(self.active)), kind="next")
        elif r < 0.9:
            self.fault(self.rng.choice(["recvfault", "peerclose", "badframe"]))       # a second fault changes nothing
        elif r < 0.95 and (self.calls or self.subs or self.batches):
            self.answer()                                                              # nobody reads it any more
        elif self.slow and not self.released:
            self.add("release-close", kind="release")
            self.released = True
        else:
            self.add("isconn", kind="isconn")

    def text(self):
        cfg = "%d" % self.slow + (" P%d,%d,%d" % self.ping if self.ping else "")
        return "%s | %s" % (cfg, " ; ".join(t for t, _ in self.steps))

    # ---- ping / inactivity
    def outstanding(self):
        return sorted(list(self.calls) + list(self.subs) + list(self.batches))

    def pong(self):
        self.add("pong", kind="pong")

    def quiet_alive(self, ms=GAP):
        self.add("quiet %d alive" % ms, kind="quiet", cls="alive", ms=ms)

    def die_ms(self):
        iv, lim, mf = self.ping
        return lim * (mf + 2) + 2 * iv

    def quiet_die(self):
        was_alive = self.alive()
        self.add("quiet %d die" % self.die_ms(), kind="quiet", cls="die", ms=self.die_ms(), fault=True,
                 pending=self.outstanding() if was_alive else [])
        if was_alive:
            self.fault_at, self.cause = len(self.steps) - 1, "inactive"

    def failping(self):
        iv, lim, mf = self.ping
        was_alive = self.alive()
        self.add("failping %d" % (iv + 10), kind="failping", ms=iv + 10, fault=True)
        if was_alive:
            self.fault_at, self.cause = len(self.steps) - 1, "sendfault"

    def frame(self, kinds=("pong", "answer")):
        """one frame from the server: a pong or an ordinary frame (answer / notification)"""
        k = self.rng.choice(kinds)
        if k == "pong" or not (self.calls or self.subs or self.batches or self.active):
            self.pong()
            return
        self.answer()
        t, m = self.steps[-1]
        if m.get("what") == "push":            # keep the subscription's buffer (8) from filling up
            self.add("next %d" % m["h"], kind="next")


def gen_script(rng, fault_kind=None, pre=None, window=None, slow=None, release=None, drop=False):
    S = Script(rng, rng.choice([0, 1]) if slow is None else slow)
    pre = rng.choice([0, 1, 2, 3, 5, 8]) if pre is None else pre
    for _ in range(pre):
        r = rng.random()
        if r < 0.35:
            S.call()
        elif r < 0.45:
            S.batch()
        elif r < 0.58:
            S.sub()
        elif r < 0.85:
            S.answer()
        elif r < 0.9:
            S.add("isconn", kind="isconn")
        elif r < 0.95:
            S.add("ondisc %d" % S.newh(), kind="ondisc", h=S.h)       # resolves when the connection dies
        elif S.active:
            S.add("next %d" % rng.choice(sorted(S.active)), kind="next")
    if drop:
        S.add("dropclient", kind="dropclient")
        S.dropped = True
    else:
        S.fault(fault_kind)
    for _ in range(rng.choice([0, 1, 2, 4, 6]) if window is None else window):
        S.window_op()
    if S.slow and not S.released and (rng.random() < 0.8 if release is None else release):
        S.add("release-close", kind="release")
        S.released = True
        for _ in range(rng.choice([0, 1, 3])):
            S.window_op()
    for h in sorted(S.active):
        for _ in range(3):
            S.add("next %d" % h, kind="next")
    return S


# ---------------------------------------------------------------- output

def parse(line):
    segs = line.split(" | ")
    panic = False
    if segs and segs[-1] == "PANIC":
        panic = True
        segs.pop()
    pend = []
    if segs and segs[-1].startswith("P"):
        p = segs.pop()[1:]
        pend = [int(x) for x in p.split(".") if x]
    evs = []
    for seg in segs:
        d = {"W": [], "C": {}, "D": {}, "I": None, "N": None, "X": []}
        toks, depth, cur = [], 0, ""
        for ch in seg:
            depth += (ch == "[") - (ch == "]")
            if ch == "," and depth == 0:
                toks.append(cur); cur = ""
            else:
                cur += ch
        if cur:
            toks.append(cur)
        for t in toks:
            if t.startswith("W"):
                d["W"].append(t[1:])
            elif t.startswith("C"):
                h, _, r = t[1:].partition("=")
                d["C"][int(h)] = r
            elif t.startswith("D"):
                h, _, r = t[1:].partition("=")
                d["D"][int(h)] = r
            elif t.startswith("I"):
                d["I"] = t[1:]
            elif t.startswith("N"):
                d["N"] = t[1:]
            elif t.startswith("X"):
                d["X"].append(t)
        evs.append(d)
    return evs, pend, panic


def oracle(S, line, fail):
    """restates C09 on the implementation's output alone"""
    if line.startswith("CRASH") or line.startswith("?"):
        fail("client-task-panicked", "engine crashed: " + line[:200])
        return
    evs, pend, panic = parse(line)
    if panic:
        fail("client-task-panicked", "a background task or a front-end future panicked")
    if len(evs) != len(S.steps):
        fail("client-task-panicked", "engine printed %d segments for %d steps" % (len(evs), len(S.steps)))
        return
    f = S.fault_at
    cause = None
    for k, d in enumerate(evs):
        for h, r in list(d["C"].items()) + list(d["D"].items()):
            if r == "PLACEHOLDER":
                fail("disconnect-cause-missing", "handle %d got the placeholder at step %d" % (h, k))
            if r in ("svcdisc", "timeout") or r.startswith("custom:") or r.startswith("other:") or r.startswith("disc:other"):
                fail("pending-failed-without-cause", "handle %d completed with %s at step %d" % (h, r, k))
            c = r[5:] if r.startswith("disc:") else (r if h in d["D"] else None)
            if c and c != "PLACEHOLDER":
                if f is None or k < f:
                    fail("disconnected-without-fault", "handle %d failed with %s before any fault (step %d)" % (h, c, k))
                if cause is None:
                    cause = c
                elif c != cause:
                    fail("cause-mismatch", "handle %d carries cause %s, earlier ones %s" % (h, c, cause))
    if f is not None and cause is not None:
        if S.cause in TRANSPORT_CAUSES + ("unparseable", "emptybatch", "notpending", "badbatchid") and cause != S.cause:
            fail("cause-mismatch", "the injected fault is %s but callers were told %s" % (S.cause, cause))
    closed_at = None      # first step at which both transport halves are gone
    seen = set()
    for k, d in enumerate(evs):
        seen.update(d["X"])
        if closed_at is None and "Xsdrop" in seen and "Xrdrop" in seen:
            closed_at = k
    release_at = next((k for k, (t, m) in enumerate(S.steps) if m.get("kind") == "release"), None)
    done_at = {}
    for k, d in enumerate(evs):
        for h in list(d["C"]) + list(d["D"]):
            done_at.setdefault(h, k)
    if f is not None:
        for k, (t, m) in enumerate(S.steps):
            d = evs[k]
            kind = m.get("kind")
            if kind == "isconn" and d["I"] != ("1" if k < f else "0"):
                fail("is-connected-wrong", "is_connected = %s at step %d (fault at %d)" % (d["I"], k, f))
            if kind in ("call", "batch", "sub", "ondisc"):
                h = m["h"]
                if k > f:
                    r = d["D"].get(h) if kind == "ondisc" else d["C"].get(h)
                    if r is None:
                        fail("on-disconnect-not-resolved" if kind == "ondisc" else "later-call-not-failed-with-cause",
                             "handle %d issued after the fault (step %d) was not completed in its own step (completed at %s)" % (h, k, done_at.get(h)))
                elif kind != "ondisc" and h not in done_at:
                    # outstanding at the fault and never completed
                    if S.slow and release_at is None:
                        fail("pending-not-failed-until-transport-closed",
                             "handle %d, pending at the fault (step %d), is still pending at the end: the transport's close() has not returned" % (h, f))
                    else:
                        fail("pending-never-failed", "handle %d, pending at the fault (step %d), never completed" % (h, f))
                elif kind != "ondisc" and done_at[h] > f:
                    if S.slow and release_at is not None and done_at[h] >= release_at:
                        fail("pending-not-failed-until-transport-closed",
                             "handle %d, pending at the fault (step %d), was failed only at step %d when close() was released" % (h, f, done_at[h]))
                    else:
                        fail("pending-not-failed-promptly", "handle %d, pending at the fault (step %d), completed at step %d" % (h, f, done_at[h]))
                if kind == "ondisc" and k <= f and done_at.get(h, 10**9) > f:
                    fail("on-disconnect-not-resolved", "on_disconnect() %d issued before the fault did not resolve at the fault" % h)
        if (not S.slow or release_at is not None) and closed_at is None:
            fail("background-task-not-ended", "the transport halves were not both dropped by the end: %s" % sorted(seen))
    if S.dropped and (not S.slow or release_at is not None) and not ("Xsdrop" in seen and "Xrdrop" in seen):
        fail("background-task-not-ended", "client dropped but the transport halves were not both dropped: %s" % sorted(seen))
    # streams end once the connection is gone (after the buffered items)
    if closed_at is not None:
        ended = {}
        for k, (t, m) in enumerate(S.steps):
            if m.get("kind") == "next" and k > closed_at:
                h = int(t.split()[1])
                n = evs[k]["N"]
                if n == "pending" and h in S.active:
                    fail("stream-not-ended-after-shutdown", "subscription %d still pending at step %d after both tasks ended" % (h, k))
                if ended.get(h) and n and n.startswith("item"):
                    fail("stream-not-ended-after-shutdown", "subscription %d yields items after its end" % h)
                if n and n.startswith("end"):
                    ended[h] = True



# ---------------------------------------------------------------- ping / inactivity family

def _ping_pre(S, rng, n=None):
    """work issued while the connection is up (instantaneous steps; answers are frames = activity)"""
    for _ in range(rng.choice([1, 2, 3, 5]) if n is None else n):
        r = rng.random()
        if r < 0.35:
            S.call()
        elif r < 0.5:
            S.batch()
        elif r < 0.68:
            S.sub()
        elif r < 0.85:
            S.answer()
        elif r < 0.93:
            S.add("ondisc %d" % S.newh(), kind="ondisc", h=S.h)
        else:
            S.add("isconn", kind="isconn")


def _ping_window(S, rng):
    """after the death: a later call / batch / subscribe, on_disconnect, is_connected (always) and a few random steps"""
    S.call("newcall")
    S.add("ondisc %d" % S.newh(), kind="ondisc", h=S.h)
    S.add("isconn", kind="isconn")
    for _ in range(rng.choice([0, 1, 2, 3])):
        r = rng.random()
        if r < 0.3:
            rng.choice([S.batch, S.sub])()
        elif r < 0.5:
            S.add("settle", kind="settle")
        elif r < 0.65:
            S.pong()                                    # nobody reads it any more
        elif r < 0.8 and (S.calls or S.subs or S.batches):
            S.answer()
        else:
            S.add("isconn", kind="isconn")
    if S.slow and rng.random() < 0.7:
        S.add("release-close", kind="release")
        S.released = True
        S.call("newcall")
        S.add("isconn", kind="isconn")
    for h in sorted(S.active):
        for _ in range(3):
            S.add("next %d" % h, kind="next")


def gen_ping_silent(rng, ping, slow, with_traffic_first):
    """pending call + batch + subscribe, then silence: everything fails with the inactivity cause"""
    S = Script(rng, slow, ping)
    S.family = "ping-silent-dies"
    S.call(); S.batch(); S.sub()
    _ping_pre(S, rng)
    if with_traffic_first:
        for _ in range(rng.choice([1, 2, 4])):
            S.quiet_alive()
            S.frame()
            if rng.random() < 0.3:
                rng.choice([S.call, S.batch, S.sub])()
    S.add("ondisc %d" % S.newh(), kind="ondisc", h=S.h)
    S.quiet_die()
    _ping_window(S, rng)
    return S


def gen_ping_alive(rng, ping, slow, kinds):
    """frames (pongs / answers / notifications) every GAP ms for longer than it takes a silent connection to die"""
    S = Script(rng, slow, ping)
    S.family = "ping-traffic-alive:" + "+".join(kinds)
    S.sub()
    S.answer()                                          # an active subscription: notifications are ordinary frames
    _ping_pre(S, rng)
    rounds = S.die_ms() // GAP + 2
    iv, lim, mf = ping
    long_at = rng.randrange(rounds) if lim // 2 - 5 >= 2 * iv + 2 else None      # one silence long enough for a ping, still safe
    for i in range(rounds):
        S.quiet_alive(2 * iv + 2 if i == long_at else GAP)
        if rng.random() < 0.35:
            rng.choice([S.call, S.call, S.batch, S.sub])()
        S.frame(kinds)
        if rng.random() < 0.1:
            S.add("isconn", kind="isconn")
    while S.calls or S.subs or S.batches:               # every call gets its answer in the end
        h0 = len(S.steps)
        S.answer()
        if S.steps[-1][1].get("what") == "push":
            S.steps.pop()
    S.add("isconn", kind="isconn")
    return S


def gen_ping_fail(rng, ping, slow):
    """a ping that cannot be written: the send-fault cause"""
    S = Script(rng, slow, ping)
    S.family = "ping-write-fails"
    _ping_pre(S, rng)
    if rng.random() < 0.5:
        S.quiet_alive()
    S.pong()
    S.failping()
    _ping_window(S, rng)
    return S


def gen_ping_cumulative(rng, ping, slow):
    """max_failures 3, three silences of 2.2 limits (each at least one, at most two stale ticks) with a pong in between:
    the count is cumulative, so the client is dead by the end (a count reset by activity would keep it alive).  WHEN it
    dies is up to the clock: compared flattened, judged at the end only."""
    iv, lim, mf = ping
    S = Script(rng, slow, ping)
    S.family = "ping-cumulative"
    S.flat = True
    S.call(); S.batch(); S.sub()
    S.add("ondisc %d" % S.newh(), kind="ondisc", h=S.h)
    pend = S.outstanding()
    for i in range(3):
        S.pong()
        S.add("quiet %d stale1" % (lim * 22 // 10), kind="quiet", cls="stale1", ms=lim * 22 // 10, pending=pend)
    S.fault_at, S.cause = len(S.steps) - 1, "inactive"
    S.call("newcall")
    S.add("ondisc %d" % S.newh(), kind="ondisc", h=S.h)
    S.add("isconn", kind="isconn")
    if slow:
        S.add("release-close", kind="release")
        S.released = True
    return S


def ping_scripts(ctx):
    rng = ctx.rng
    out = []
    reps = ctx.scale(2, 12)
    for iv, lim in PING_CONFIGS:
        for mf in (1, 2, 3):
            for slow in (0, 1):
                ping = (iv, lim, mf)
                for _ in range(reps):
                    out.append(gen_ping_silent(rng, ping, slow, False))
                    out.append(gen_ping_silent(rng, ping, slow, True))
                    out.append(gen_ping_alive(rng, ping, slow, rng.choice([("pong",), ("answer",), ("pong", "answer")])))
                    out.append(gen_ping_fail(rng, ping, slow))
    for kinds in (("pong",), ("answer",), ("pong", "answer")):      # every traffic kind with every max_failures at least once
        for mf in (1, 2, 3):
            out.append(gen_ping_alive(rng, (20, 60, mf), rng.choice([0, 1]), kinds))
    for iv, lim in PING_CONFIGS[:2]:
        for slow in (0, 1):
            for _ in range(reps):
                out.append(gen_ping_cumulative(rng, (iv, lim, 3), slow))
    return out


def _split_tokens(seg):
    toks, depth, cur = [], 0, ""
    for ch in seg:
        depth += (ch == "[") - (ch == "]")
        if ch == "," and depth == 0:
            toks.append(cur); cur = ""
        else:
            cur += ch
    if cur:
        toks.append(cur)
    return toks


def canon(S, line):
    """-> (canonical line, clock): drops the T tokens and the Wping tokens except one per silence of >= 2 ping intervals.
    clock = {"quiet": {step: (a, b, slice, gap_so_far)}, "end": (since_last_frame, max_gap)}"""
    if line.startswith("CRASH") or line.startswith("?"):
        return line, None
    iv = S.ping[0]
    segs = line.split(" | ")
    clock = {"quiet": {}, "end": None}
    out = []
    for k, seg in enumerate(segs):
        toks = _split_tokens(seg)
        keep, pings = [], 0
        for t in toks:
            if t == "Wping":
                pings += 1
            elif t.startswith("T") and t[1:2].isdigit():
                v = tuple(int(x) for x in t[1:].split("."))
                if seg.startswith("P"):
                    clock["end"] = v
                else:
                    clock["quiet"][k] = v
            else:
                keep.append(t)
        m = S.steps[k][1] if k < len(S.steps) else {}
        if pings and m.get("kind") == "quiet" and m["ms"] >= 2 * iv:
            keep.insert(0, "Wping")
        out.append(",".join(keep))
    return " | ".join(out), clock


def flatten(line):
    """what happened, not when: the set of completions, the last is_connected, the transport marks, the pending set"""
    evs, pend, panic = parse(line)
    C, D, I, X = {}, {}, None, set()
    for d in evs:
        C.update(d["C"]); D.update(d["D"]); X.update(d["X"])
        I = d["I"] if d["I"] is not None else I
    return json.dumps({"C": sorted(C.items()), "D": sorted(D.items()), "I": I, "X": sorted(X), "P": pend, "panic": panic})


def timing_ok(S, clock):
    """did the clock allow the verdict the generator planned?  (gaps between frames while the connection is meant to be up)"""
    if clock is None:
        return True            # crashed: judged as it is
    lim = S.ping[1]
    safe = lim * 0.85
    if S.fault_at is None:
        return clock["end"] is not None and clock["end"][1] < safe
    if getattr(S, "flat", False):
        first = min(clock["quiet"]) if clock["quiet"] else None      # up at the first silence; no silence long enough for three stale ticks
        return first is not None and clock["quiet"][first][3] < safe and all(q[1] < lim * 2.9 for q in clock["quiet"].values())
    q = clock["quiet"].get(S.fault_at)
    if q is None:
        return False
    if S.cause == "inactive":
        return q[3] < safe                       # up until the silence began
    return q[3] < safe and q[1] < safe           # failping: no stale tick before or while the ping fails


def ping_oracle(S, line, fail):
    """restates the ping / inactivity part of C09 on the implementation's (canonical) output alone"""
    if line.startswith("CRASH") or line.startswith("?"):
        return                                   # the general oracle reports it
    evs, pend, panic = parse(line)
    if len(evs) != len(S.steps):
        return
    iv, lim, mf = S.ping
    f = S.fault_at
    done_at, res = {}, {}
    for k, d in enumerate(evs):
        for h, r in list(d["C"].items()) + [(h, "D:" + r) for h, r in d["D"].items()]:
            done_at.setdefault(h, k)
            res.setdefault(h, r)
    if f is None:
        # regular traffic: alive to the end, every answered call completed normally, nothing else completed
        for k, d in enumerate(evs):
            if d["I"] == "0":
                fail("active-connection-killed", "is_connected = false at step %d although frames kept arriving every %d ms (limit %d ms)" % (k, GAP, lim))
            for h, r in list(d["C"].items()) + list(d["D"].items()):
                if r.startswith("disc:") or h in d["D"] or r in ("PLACEHOLDER", "svcdisc", "timeout"):
                    fail("active-connection-killed", "handle %d completed with %s at step %d although frames kept arriving every %d ms (limit %d ms)" % (h, r, k, GAP, lim))
            if d["X"]:
                fail("active-connection-killed", "transport marks %s at step %d on a connection with regular traffic" % (d["X"], k))
        for k, (t, m) in enumerate(S.steps):
            if m.get("kind") == "back" and m.get("what") in ("answer", "sub-ok", "batch-answer"):
                r = evs[k]["C"].get(m["h"])
                want = {"answer": "ok:", "sub-ok": "sub:", "batch-answer": "batch:"}[m["what"]]
                if r is None or not r.startswith(want):
                    fail("active-connection-killed", "the answer to handle %d arrived at step %d but the call completed with %s" % (m["h"], k, r))
            if m.get("kind") == "quiet" and m["ms"] >= 2 * iv and "ping" not in evs[k]["W"]:
                fail("ping-not-written", "no ping frame written during %d ms of silence (interval %d ms)" % (m["ms"], iv))
        left = [h for h in pend if not any(m.get("kind") == "ondisc" and m.get("h") == h for _, m in S.steps)]
        if left:
            fail("active-connection-killed", "handles %s still pending at the end although all were answered" % left)
        return
    if S.cause != "inactive":
        return                                   # a failing ping: the general oracle (cause sendfault) says it all
    # ---- a certainly-stale silence (or three partly stale ones, judged at the end)
    flat = getattr(S, "flat", False)
    before = [(k, m) for k, (t, m) in enumerate(S.steps) if k < f and m.get("kind") in ("call", "batch", "sub", "ondisc")]
    answered = set(m["h"] for k, (t, m) in enumerate(S.steps) if k < f and m.get("kind") == "back" and m.get("what") in ("answer", "sub-ok", "batch-answer"))
    later = [(k, m) for k, (t, m) in enumerate(S.steps) if k > f and m.get("kind") in ("call", "batch", "sub", "ondisc")]
    conn_after = [evs[k]["I"] for k, (t, m) in enumerate(S.steps) if k > f and m.get("kind") == "isconn"]
    later_failed = [m["h"] for k, m in later if m["h"] in res]
    if "1" in conn_after or (later and not later_failed and not any(m["h"] in res for k, m in before if m["h"] not in answered)):
        fail("inactivity-not-fatal", "after %s%d ms of silence (limit %d ms, max_failures %d) the client is still up: is_connected %s, later calls completed: %s"
             % ("three times " if flat else "", S.steps[f][1]["ms"], lim, mf, conn_after, later_failed))
        return
    if not flat and "ping" not in evs[f]["W"]:
        fail("ping-not-written", "no ping frame written during %d ms of silence (interval %d ms)" % (S.steps[f][1]["ms"], iv))
    for k, m in before:
        h = m["h"]
        if h in answered:
            continue
        if h not in done_at or (not flat and done_at[h] > f):
            fail("pending-not-failed-on-inactivity", "handle %d, pending when the silence began (step %d), %s" % (
                h, f, "never completed" if h not in done_at else "completed only at step %d" % done_at[h]))
        elif res[h] not in ("disc:inactive", "D:inactive"):
            fail("inactivity-cause-missing", "handle %d, pending when the connection died of inactivity, completed with %s" % (h, res[h]))
    for k, m in later:
        h = m["h"]
        if h not in done_at:
            fail("pending-not-failed-on-inactivity", "handle %d issued after the connection died of inactivity (step %d) never completed" % (h, k))
        elif res[h] not in ("disc:inactive", "D:inactive"):
            fail("inactivity-cause-missing", "handle %d issued after the connection died of inactivity completed with %s" % (h, res[h]))


def run_ping(ctx):
    cases = ping_scripts(ctx)
    lines = [S.text() for S in cases]
    n = len(lines)
    shards = min(48, max(1, n // 2))
    prof = [("release", impl_bin("release")), ("debug", impl_bin("debug"))]
    got = {}
    for name, binp in prof:
        raw = vlib.run_lines([binp], lines, shards=shards, min_shard=2)
        cl = [canon(S, r) for S, r in zip(cases, raw)]
        # a case whose timing precondition did not hold (a stalled process, an overloaded machine) is re-run, never judged
        for attempt, sh in ((1, 8), (2, 2), (3, 1)):
            bad = [i for i, (S, (c, clk)) in enumerate(zip(cases, cl)) if not timing_ok(S, clk)]
            if not bad:
                break
            ctx.count("clifault:ping-timing-retry:%s" % name, len(bad))
            again = vlib.run_lines([binp], [lines[i] for i in bad], shards=sh, min_shard=1)
            for i, r in zip(bad, again):
                cl[i] = canon(cases[i], r)
        got[name] = cl
    rm = vlib.run_lines([vlib.model_bin("clifault")], lines, min_shard=100)
    unreliable = 0
    for i, (S, line, b) in enumerate(zip(cases, lines, rm)):
        a, clk = got["release"][i]
        dbg, dclk = got["debug"][i]
        ctx.count("clifault:" + S.family)
        ctx.count("clifault:ping=%d,%d maxfail=%d slow=%d" % (S.ping + (S.slow,)))
        case = {"script": line}
        if not timing_ok(S, clk):
            unreliable += 1
            ctx.count("clifault:ping-timing-unreliable")
            continue
        flat = getattr(S, "flat", False)
        ca, cb = (flatten(a), flatten(b)) if flat and not a.startswith(("CRASH", "?")) else (a, b)
        if ca != cb:
            ctx.fail("diff", "clifault-model-differs", case, {"impl": a, "model": b, "clock": clk})
        if timing_ok(S, dclk):
            cd = flatten(dbg) if flat and not dbg.startswith(("CRASH", "?")) else dbg
            if cd != ca:
                ctx.fail("oracle", "client-task-panicked" if "PANIC" in dbg or dbg.startswith("CRASH") else "debug-release-differ",
                         case, {"debug": dbg, "release": a})
        ctx.record(case, a, nontrivial=True)
        said = set()

        def fail(key, detail, case=case, said=said):
            if key not in said:
                said.add(key)
                ctx.fail("oracle", key, case, detail)
        if not flat:
            oracle(S, a, fail)
        elif "PANIC" in a or a.startswith("CRASH"):
            fail("client-task-panicked", a[-200:])
        ping_oracle(S, a, fail)
    if unreliable:
        ctx.note("clifault ping family: %d of %d cases not judged (the clock did not keep the planned gaps in 4 runs)" % (unreliable, n))
    if unreliable * 2 > n:
        ctx.fail("build", "ping-timing-unreliable", "clifault", "%d of %d timed cases could not be run with the planned gaps: machine overloaded" % (unreliable, n))


# ---------------------------------------------------------------- cancel-safety of the receive loop

def gen_cancel(rng, ping, slow):
    """calls / batches / subscribes answered by frames most of which arrive in two halves with a gap of 2..4 inactivity
    ticks; notifications likewise; nothing else happens: every answer delivered, the connection healthy to the end"""
    iv, lim, mf = ping
    S = Script(rng, slow, ping)
    S.family = "recv-cancel-safety"
    S.cancel = True

    def gap():
        return rng.choice([2 * lim + 10, 3 * lim, 3 * lim + lim // 2, 4 * lim])

    def deliver(p_split, push_ok=True):
        S.split_ms = gap() if rng.random() < p_split else None
        S.answer()
        S.split_ms = None
        t, m = S.steps[-1]
        if m.get("what") == "push":
            if not push_ok:
                S.steps.pop()
                return
            # keep the subscription's buffer (8) from filling up: no lagging, no close
            S.add("next %d" % m["h"], kind="next", want=m["want"])

    S.call()
    first = rng.random()
    if first < 0.4:
        S.sub()
    elif first < 0.7:
        S.batch()
    deliver(1.0)                               # the very first frame is split
    for _ in range(rng.choice([2, 3, 4, 6])):
        r = rng.random()
        if r < 0.4:
            S.call()
        elif r < 0.55:
            S.batch()
        elif r < 0.7:
            S.sub()
        if rng.random() < 0.2:
            S.add("isconn", kind="isconn")
        deliver(0.65)
    while S.calls or S.subs or S.batches:      # every call gets its answer in the end
        deliver(0.5, push_ok=False)
    S.add("isconn", kind="isconn")
    S.call()                                   # and the connection still works: a call after all that, answered whole
    S.split_ms = None
    h = sorted(S.calls)[-1]
    i = S.calls.pop(h)
    S.back(J({"jsonrpc": "2.0", "id": i, "result": "r%d" % i}), what="answer", h=h, want="ok:" + J("r%d" % i).hex())
    S.add("isconn", kind="isconn")
    return S


def cancel_scripts(ctx):
    out = []
    for ping in CANCEL_CONFIGS:
        for slow in (0, 1):
            for _ in range(ctx.scale(4, 40)):
                out.append(gen_cancel(ctx.rng, ping, slow))
    return out


def cancel_oracle(S, line, fail):
    """C03/C09 on the implementation's output alone, for scripts in which nothing goes wrong: every call whose correct
    answer was delivered -- in one piece or two -- completes with exactly that answer in that step, every notification
    delivered is the next item of its stream, and the client is connected to the end (no transport half dropped, no
    handle failed with a disconnect cause, is_connected true)"""
    if line.startswith("CRASH") or line.startswith("?"):
        return                                   # the general oracle reports it
    evs, pend, panic = parse(line)
    if len(evs) != len(S.steps):
        return
    for k, (t, m) in enumerate(S.steps):
        d = evs[k]
        how = "in two halves %d ms apart" % m["split"] if m.get("split") else "whole"
        if m.get("kind") == "back" and m.get("what") in ("answer", "sub-ok", "batch-answer"):
            r = d["C"].get(m["h"])
            if r != m["want"]:
                later = [(j, e["C"][m["h"]]) for j, e in enumerate(evs) if m["h"] in e["C"]]
                fail("correct-answer-not-delivered", "the answer to handle %d was delivered at step %d (%s): expected completion %s, got %s%s"
                     % (m["h"], k, how, m["want"], r, " (completed at step %d with %s)" % later[0] if later and r is None else ""))
        if m.get("kind") == "next" and "want" in m and d["N"] != m["want"]:
            fail("notification-not-delivered", "the notification delivered at step %d (%s) is not the next item of subscription %s: expected %s, got %s"
                 % (k - 1, "in two halves" if S.steps[k - 1][1].get("split") else "whole", t.split()[1], m["want"], d["N"]))
        if d["I"] == "0":
            fail("healthy-connection-torn-down", "is_connected = false at step %d: nothing but well-formed answers and notifications ever arrived" % k)
        if d["X"]:
            fail("healthy-connection-torn-down", "transport marks %s at step %d: the client shut a healthy connection down" % (d["X"], k))
        for h, r in list(d["C"].items()) + list(d["D"].items()):
            if r.startswith("disc:") or h in d["D"] or r in ("PLACEHOLDER", "svcdisc", "timeout"):
                fail("healthy-connection-torn-down", "handle %d completed with %s at step %d on a healthy connection" % (h, r, k))
    if pend:
        fail("correct-answer-not-delivered", "handles %s still pending at the end although every one of them was answered" % pend)
    last = [evs[k]["I"] for k, (t, m) in enumerate(S.steps) if m.get("kind") == "isconn"]
    if not last or last[-1] != "1":
        fail("healthy-connection-torn-down", "is_connected at the end: %s" % (last[-1] if last else None))


def run_cancel(ctx):
    cases = cancel_scripts(ctx)
    lines = [S.text() for S in cases]
    n = len(lines)
    shards = min(48, max(1, n // 2))
    got = {}
    for name in ("release", "debug"):
        raw = vlib.run_lines([impl_bin(name)], lines, shards=shards, min_shard=2)
        got[name] = [canon(S, r) for S, r in zip(cases, raw)]
    rm = vlib.run_lines([vlib.model_bin("clifault")], lines, min_shard=100)
    for i, (S, line, b) in enumerate(zip(cases, lines, rm)):
        a, clk = got["release"][i]
        dbg, dclk = got["debug"][i]
        nsplit = sum(1 for t, m in S.steps if m.get("split"))
        ctx.count("clifault:" + S.family)
        ctx.count("clifault:cancel ping=%d,%d slow=%d" % (S.ping[0], S.ping[1], S.slow))
        ctx.count("clifault:cancel split-frames", nsplit)
        for t, m in S.steps:
            if m.get("split"):
                ctx.count("clifault:cancel split %s" % m.get("what"))
        case = {"script": line}
        # how many inactivity ticks the measured gaps certainly contained (reported, not a precondition: on a read loop that
        # keeps its receive future the outcome does not depend on the clock)
        if clk and clk["quiet"] and all(q[1] >= 2 * S.ping[1] for q in clk["quiet"].values()):
            ctx.count("clifault:cancel every-gap>=2-ticks (measured)")
        if a != b:
            ctx.fail("diff", "clifault-model-differs", case, {"impl": a, "model": b, "clock": clk})
        if dbg != a:
            ctx.fail("oracle", "client-task-panicked" if "PANIC" in dbg or dbg.startswith("CRASH") else "debug-release-differ",
                     case, {"debug": dbg, "release": a})
        ctx.record(case, a, nontrivial=nsplit > 0)
        said = set()

        def fail(key, detail, case=case, said=said):
            if key not in said:
                said.add(key)
                ctx.fail("oracle", key, case, detail)
        oracle(S, a, fail)
        cancel_oracle(S, a, fail)


def scripts(ctx):
    rng = ctx.rng
    out = []
    # each fault kind at every step of small histories, slow and fast close, window of fixed shape
    for slow in (0, 1):
        for kind in ("recvfault", "peerclose", "failsend", "badframe"):
            for pre in range(0, 7):
                for rep in range(ctx.scale(6, 60)):
                    out.append(("fault-at-every-step", gen_script(rng, fault_kind=kind, pre=pre, slow=slow)))
    for raw, cls in BAD_FRAMES:
        for slow in (0, 1):
            S = Script(rng, slow)
            for _ in range(rng.choice([0, 1, 2])):
                rng.choice([S.call, S.batch, S.sub])()
            S.back(raw, what="bad", fault=True)
            S.fault_at, S.cause = len(S.steps) - 1, cls
            S.call("newcall")
            S.add("ondisc %d" % S.newh(), kind="ondisc", h=S.h)
            S.add("isconn", kind="isconn")
            if slow:
                S.add("release-close", kind="release"); S.released = True
            out.append(("bad-frame-zoo", S))
    for _ in range(ctx.scale(300, 5000)):
        out.append(("client-dropped", gen_script(rng, drop=True)))
    for _ in range(ctx.scale(6000, 400000)):
        out.append(("random", gen_script(rng)))
    return out


def run(ctx):
    ok, log = vlib.model_build("clifault")
    if not ok:
        ctx.fail("build", "model-build-failed:clifault", "clifault", log[-2000:])
        return
    for profile in ("release", "debug"):
        if not os.path.exists(vlib.rust_bin("clifault", profile)):
            ok, log = vlib.cargo_build(["clifault"], profile)
            if not ok:
                ctx.fail("build", "harness-build-failed", ["clifault"], log[-3000:])
                return
    cases = scripts(ctx)
    lines = [S.text() for _, S in cases]
    if os.environ.get("VERIF_CLIFAULT_BIN"):
        ctx.note("clifault implementation binary overridden: " + impl_bin())
    ri = vlib.run_lines([impl_bin("release")], lines, min_shard=40)
    rd = vlib.run_lines([impl_bin("debug")], lines, min_shard=40)
    rm = vlib.run_lines([vlib.model_bin("clifault")], lines, min_shard=100)
    for (tag, S), line, a, dbg, b in zip(cases, lines, ri, rd, rm):
        ctx.count("clifault:" + tag)
        ctx.count("clifault:slow=%d" % S.slow)
        ctx.count("clifault:fault=%s" % (S.cause if S.fault_at is not None else ("dropclient" if S.dropped else "none")))
        case = {"script": line}
        if a != b:
            ctx.fail("diff", "clifault-model-differs", case, {"impl": a, "model": b})
        if dbg != a:
            ctx.fail("oracle", "client-task-panicked" if "PANIC" in dbg or dbg.startswith("CRASH") else "debug-release-differ",
                     case, {"debug": dbg, "release": a})
        ctx.record(case, a, nontrivial=("disc:" in a or "D" in a))
        said = set()

        def fail(key, detail, case=case, said=said):
            if key not in said:          # one failure per class and script
                said.add(key)
                ctx.fail("oracle", key, case, detail)
        oracle(S, a, fail)
    run_ping(ctx)
    run_cancel(ctx)


def replay_case(case):
    for name, cmd in (("impl ", impl_bin("release")), ("debug", impl_bin("debug")), ("model", vlib.model_bin("clifault"))):
        rc, out = vlib.sh([cmd], input=case["script"] + "\n")
        print(name, "->", out.strip())
