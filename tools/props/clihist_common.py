"""Histories for the async-client engine `clihist` and the direct oracles of C03 / C05 / C12 / C18 / C09.

A history is a config + an event list; the generator plays the *server*: it knows which ids the client
will use (ids come from a counter: call/notify +1, batch +n, subscribe +2 — the second is the id reserved
for the unsubscribe call), so it can answer correctly, wrongly, twice, out of order, grouped in arrays...
Each event carries metadata used only by the oracles (which look at the implementation's output alone).
"""
import json, itertools, os
import vlib


def hx(b):
    if isinstance(b, str):
        b = b.encode()
    return b.hex() if b else "-"


def J(o):
    return json.dumps(o, separators=(",", ":")).encode()


NOVAL = object()


class Hist:
    def __init__(self, rng, idstr, qcap, bufcap, gate):
        self.rng = rng
        self.cfg = (idstr, qcap, bufcap, gate)
        self.ev = []          # (text, meta)
        self.next_id = 0
        self.h = 0
        self.calls = {}       # h -> id           (unanswered)
        self.answered = []    # ids already answered
        self.batches = {}     # h -> (lo, n)
        self.psubs = {}       # h -> (id, uid, unsub_method, notif_method)
        self.active = {}      # h -> dict(sid, id, uid, um, nm)
        self.ended = []       # subscriptions finished: dict
        self.unacked = []     # uids of unsubscribe calls presumably on the wire
        self.methods = {}     # h -> method (subscribe_to_method)
        self.k = 0            # reply counter
        self.dead = False
        self.sidn = 0

    # ----- helpers
    def newh(self):
        self.h += 1
        return self.h

    def wid(self, n):
        return str(n) if self.cfg[0] else n

    def add(self, text, **meta):
        self.ev.append((text, meta))

    def marker(self, i):
        self.k += 1
        return "r-%d-%d" % (i, self.k)

    def resp_ok(self, i, val=NOVAL, jsonrpc=True):
        o = {}
        if jsonrpc:
            o["jsonrpc"] = "2.0"
        o["id"] = self.wid(i)
        o["result"] = self.marker(i) if val is NOVAL else val
        if self.rng.random() < 0.2:
            items = list(o.items())
            self.rng.shuffle(items)
            o = dict(items)
        return o

    def resp_err(self, i):
        return {"jsonrpc": "2.0", "id": self.wid(i), "error": {"code": -32000 - self.rng.randrange(5), "message": self.marker(i)}}

    def ack(self, uid):
        """the server's answer to an unsubscribe call: true, false, or an error object (e.g. subscription not found)"""
        r = self.rng.random()
        if r < 0.6:
            return self.resp_ok(uid, val=True)
        if r < 0.8:
            return self.resp_ok(uid, val=False)
        return self.resp_err(uid)

    def notif(self, nm, sid, val, err=False):
        return {"jsonrpc": "2.0", "method": nm, "params": {"subscription": sid, ("error" if err else "result"): val}}

    # ----- front-end ops
    def op_call(self):
        h = self.newh()
        i = self.next_id
        self.next_id += 1
        p = self.rng.choice(["-", hx(b"[1]"), hx(b'{"a":[true,null]}'), hx(b'["x y"]')])
        self.add("call %d %s %s" % (h, hx("m%d" % h), p), kind="call", h=h, id=i)
        self.calls[h] = i

    def op_notify(self):
        self.next_id += 1
        self.add("notify %s %s" % (hx("n"), self.rng.choice(["-", hx(b"[7]")])), kind="notify")

    def op_batch(self):
        h = self.newh()
        n = self.rng.choice([1, 2, 2, 3, 3, 4, 5])
        lo = self.next_id
        self.next_id += n
        ents = " ".join("%s %s" % (hx("b%d_%d" % (h, j)), self.rng.choice(["-", hx(b"[2]")])) for j in range(n))
        self.add("batch %d %s" % (h, ents), kind="batch", h=h, lo=lo, n=n)
        self.batches[h] = (lo, n)

    def op_sub(self):
        h = self.newh()
        i = self.next_id
        self.next_id += 2
        sm, um, nm = "sub%d" % h, "unsub%d" % h, "ev%d" % (h % 3)
        self.add("sub %d %s %s %s" % (h, hx(sm), hx(um), self.rng.choice(["-", hx(b"[0]")])), kind="sub", h=h, id=i, uid=i + 1)
        self.psubs[h] = (i, i + 1, um, nm)

    def op_subm(self):
        h = self.newh()
        me = self.rng.choice(["alpha", "beta"])
        self.add("subm %d %s" % (h, hx(me)), kind="subm", h=h, method=me)
        self.methods[h] = me

    def back(self, obj, **meta):
        racing = getattr(self, "answer_racing", False)
        self.answer_racing = False
        if self.cfg[3] and not racing and self.rng.random() < 0.9:
            # gated transport: let the client's pending writes through before the server speaks
            # (except when `racing`: the server answers while the write of that very request is still blocked)
            for _ in range(3):
                self.add("release", kind="release")
        raw = obj if isinstance(obj, bytes) else J(obj)
        if self.rng.random() < 0.1:
            raw = self.rng.choice([b" ", b"\n", b"\t \r"]) + raw + self.rng.choice([b"", b" \n"])
        self.add("back %s" % hx(raw), kind="back", **meta)

    # ----- server behaviour
    def answer_call(self):
        if not self.calls:
            return
        self.answer_racing = self.cfg[3] and self.rng.random() < 0.3
        h = self.rng.choice(sorted(self.calls))
        i = self.calls.pop(h)
        self.answered.append(i)
        o = self.resp_ok(i, jsonrpc=self.rng.random() < 0.9) if self.rng.random() < 0.75 else self.resp_err(i)
        self.back(o, what="answer", id=i, h=h, payload=o)

    def answer_sub(self):
        if not self.psubs:
            return
        h = self.rng.choice(sorted(self.psubs))
        i, uid, um, nm = self.psubs.pop(h)
        r = self.rng.random()
        if r < 0.75:
            self.sidn += 1
            sid = self.sidn if self.rng.random() < 0.5 else "s%d" % self.sidn
            if self.rng.random() < 0.05 and self.active:
                sid = self.rng.choice(list(self.active.values()))["sid"]        # duplicate subscription id
                self.back(self.resp_ok(i, val=sid), what="sub-dup", h=h, id=i, uid=uid)
                self.answered.append(i)
                return
            self.back(self.resp_ok(i, val=sid), what="sub-ok", h=h, sid=sid, id=i, uid=uid)
            self.active[h] = dict(sid=sid, id=i, uid=uid, um=um, nm=nm, h=h)
        elif r < 0.9:
            self.back(self.resp_err(i), what="sub-refused", h=h, id=i, uid=uid)
        else:
            self.back(self.resp_ok(i, val=self.rng.choice([True, None, [1], 1.5, {"x": 1}])), what="sub-badid", h=h, id=i, uid=uid)
        self.answered.append(i)

    def push_objs(self, k):
        objs = []
        for _ in range(k):
            r = self.rng.random()
            if self.active and r < 0.7:
                s = self.rng.choice(list(self.active.values()))
                v = self.marker(0)
                objs.append((self.notif(s["nm"], s["sid"], v), dict(what="push", sid=s["sid"], val=v)))
            elif self.ended and r < 0.8:
                s = self.rng.choice(self.ended)
                v = self.marker(0)
                objs.append((self.notif(s["nm"], s["sid"], v), dict(what="push-ended", sid=s["sid"], val=v)))
            elif r < 0.88:
                v = self.marker(0)
                objs.append((self.notif("ev0", "nosuch", v), dict(what="push-unknown", val=v)))
            else:
                me = self.rng.choice(["alpha", "beta", "gamma"])
                v = self.marker(0)
                o = {"jsonrpc": "2.0", "method": me}
                if self.rng.random() < 0.8:
                    o["params"] = [v]
                objs.append((o, dict(what="mnotif", method=me, val=[v] if "params" in o else None)))
        return objs

    def push(self):
        k = self.rng.choice([1, 1, 1, 2, 3])
        objs = self.push_objs(k)
        if k == 1 and self.rng.random() < 0.7:
            self.back(objs[0][0], what="pushes", items=[objs[0][1]], grouped=False)
        else:
            self.back(J([o for o, _ in objs]), what="pushes", items=[m for _, m in objs], grouped=True)

    def close_sub(self):
        if not self.active:
            return
        h = self.rng.choice(sorted(self.active))
        s = self.active.pop(h)
        self.ended.append(s)
        o = self.notif(s["nm"], s["sid"], self.marker(0), err=True)
        if self.rng.random() < 0.5:
            self.back(o, what="close", sid=s["sid"], h=h, grouped=False)
        else:
            extra = self.push_objs(self.rng.choice([0, 1]))
            arr = [o] + [x for x, _ in extra]
            self.back(J(arr), what="close", sid=s["sid"], h=h, grouped=True, items=[m for _, m in extra])
        s["server_closed"] = True

    def answer_batch(self):
        if not self.batches:
            return
        h = self.rng.choice(sorted(self.batches))
        lo, n = self.batches.pop(h)
        ids = list(range(lo, lo + n))
        r = self.rng.random()
        mode = "perm"
        if r < 0.6:
            self.rng.shuffle(ids)
        elif r < 0.7 and n > 1:
            ids.remove(self.rng.choice(ids[1:-1] or ids))
            mode = "missing-inner" if (ids[0] == lo and ids[-1] == lo + n - 1) else "missing-edge"
        elif r < 0.8:
            ids.append(self.rng.choice(ids))
            mode = "dup"
        elif r < 0.87:
            ids.append(self.rng.choice([lo + n, lo + n + 3, max(lo - 1, 0), 2**64 - 1]))
            mode = "foreign"
        elif r < 0.92 and n > 1:
            ids = ids[1:] if self.rng.random() < 0.5 else ids[:-1]
            mode = "missing-edge"
        objs = [self.resp_ok(i) if self.rng.random() < 0.8 else self.resp_err(i) for i in ids]
        if self.rng.random() < 0.15:
            extra = self.push_objs(1)
            objs.insert(self.rng.randrange(len(objs) + 1), extra[0][0])
            items = [extra[0][1]]
        else:
            items = []
        self.back(J(objs), what="batch-answer", h=h, lo=lo, n=n, mode=mode, objs=objs, items=items)

    def ack_unsub(self):
        if not self.unacked:
            return
        uid = self.unacked.pop(self.rng.randrange(len(self.unacked)))
        self.back(self.ack(uid), what="unsub-ack", id=uid)

    def misbehave(self):
        r = self.rng.random()
        if r < 0.3 and self.answered:
            i = self.rng.choice(self.answered)
            self.back(self.resp_ok(i), what="bad-late-answer", id=i)
        elif r < 0.5:
            self.back(self.resp_ok(self.next_id + 50), what="bad-unknown-id")
        elif r < 0.7:
            self.back(self.rng.choice([b"[]", b"{}", b"hello", b"[1]", b'{"jsonrpc":"2.0"}', b"", b"  ", b'[{"id":null,"result":1}]',
                                       b'[{"id":18446744073709551615,"result":1}]', b'[{"id":"x","result":1}]', b'{"id":1.5,"result":1}']),
                      what="bad-garbage")
        elif r < 0.8:
            self.add("fault", kind="fault")
        elif r < 0.88:
            self.add("failsend", kind="failsend")
            self.op_call()
        else:
            if self.active:
                s = self.rng.choice(list(self.active.values()))
                self.back(self.resp_ok(s["id"]), what="bad-answer-to-active-sub")
            else:
                self.back(self.resp_ok(2**64 - 1), what="bad-unknown-id")
        self.dead = True

    # ----- consumer behaviour
    def op_next(self):
        cands = sorted(self.active) + [s["h"] for s in self.ended if not s.get("gone")] + sorted(self.methods)
        if cands:
            self.add("next %d" % self.rng.choice(cands), kind="next")

    def op_unsub_or_drop(self):
        cands = sorted(self.active)
        if not cands:
            if self.methods and self.rng.random() < 0.5 and not self.cfg[3]:
                h = self.rng.choice(sorted(self.methods))
                self.methods.pop(h)
                if self.rng.random() < 0.5:
                    self.add("unsub %d %d" % (self.newh(), h), kind="munsub", sh=h)
                else:
                    self.add("drop %d" % h, kind="mdrop", sh=h)
            return
        h = self.rng.choice(cands)
        s = self.active.pop(h)
        s["gone"] = True
        self.ended.append(s)
        self.unacked.append(s["uid"])
        if self.rng.random() < 0.5:
            self.add("unsub %d %d" % (self.newh(), h), kind="unsub", sh=h, sid=s["sid"], uid=s["uid"])
        else:
            self.add("drop %d" % h, kind="drop", sh=h, sid=s["sid"], uid=s["uid"])

    def op_giveup(self):
        cands = sorted(self.calls) + sorted(self.psubs) + sorted(self.batches)
        if cands:
            h = self.rng.choice(cands)
            self.add("giveup %d" % h, kind="giveup", h=h)

    def text(self):
        idstr, qcap, bufcap, gate = self.cfg
        return "%d %d %d %d | %s" % (idstr, qcap, bufcap, gate, " ; ".join(t for t, _ in self.ev))


def gen_history(rng, length=None, misbehave_p=0.12, cleanup=True):
    idstr = 1 if rng.random() < 0.3 else 0
    qcap = rng.choice([1, 2, 4, 16, 16, 16])
    bufcap = rng.choice([1, 1, 2, 3, 8])
    gate = 1 if rng.random() < 0.25 else 0
    H = Hist(rng, idstr, qcap, bufcap, gate)
    n = length or rng.choice([4, 8, 12, 20, 30])
    bad = rng.random() < misbehave_p
    bad_at = rng.randrange(n) if bad else -1
    ops = [(H.op_call, 14), (H.op_notify, 2), (H.op_batch, 6), (H.op_sub, 8), (H.op_subm, 2), (H.answer_call, 12), (H.answer_sub, 9),
           (H.push, 16), (H.close_sub, 3), (H.answer_batch, 6), (H.ack_unsub, 4), (H.op_next, 12), (H.op_unsub_or_drop, 5), (H.op_giveup, 2)]
    fs, ws = zip(*ops)
    for step in range(n):
        if step == bad_at:
            H.misbehave()
            continue
        rng.choices(fs, ws)[0]()
        if gate and rng.random() < 0.4:
            H.add("release", kind="release")
    H.clean = False
    if cleanup and not H.dead and not any(m.get("what", "").startswith("sub-dup") for _, m in H.ev):
        # bring the client to quiescence: release everything, answer everything, end every subscription, ack
        rel = lambda: [H.add("release", kind="release") for _ in range(3)] if gate else None
        rel()
        while H.calls:
            H.answer_call(); rel()
        while H.batches:
            h = sorted(H.batches)[0]
            lo, nn = H.batches.pop(h)
            H.back(J([H.resp_ok(i) for i in range(lo, lo + nn)]), what="batch-answer", h=h, lo=lo, n=nn, mode="perm", objs=None, items=[])
        while H.psubs:
            h = sorted(H.psubs)[0]
            i, uid, um, nm = H.psubs.pop(h)
            H.back(H.resp_err(i), what="sub-refused", h=h, id=i, uid=uid)
        for h in sorted(H.active):
            s = H.active.pop(h)
            s["gone"] = True
            H.ended.append(s)
            H.unacked.append(s["uid"])
            H.add("unsub %d %d" % (H.newh(), h), kind="unsub", sh=h, sid=s["sid"], uid=s["uid"])
            rel()
        for h in sorted(H.methods):
            H.add("unsub %d %d" % (H.newh(), h), kind="munsub", sh=h)
        H.methods = {}
        rel()
        H.cleanup_from = len(H.ev)
        H.clean = True
    return H


# ---------------------------------------------------------------- parsing engine output

def parse_out(line):
    """-> list of per-event dicts {W:[bytes], C:{h:res}, F:str|None, N:str|None}, tables (tuple|'dead'|None), panic"""
    evs = []
    tables, panic = None, False
    for part in line.split(" | "):
        part = part.strip()
        if part == "PANIC":
            panic = True
            continue
        if part.startswith("T") and (part == "Tdead" or part[1:2].isdigit()):
            tables = "dead" if part == "Tdead" else tuple(int(x) for x in part[1:].split(","))
            continue
        d = {"W": [], "C": {}, "F": None, "N": None}
        for tok in (part.split(",") if part else []):
            pass
        # tokens may contain commas inside batch results: split carefully
        toks, depth, cur = [], 0, ""
        for ch in part:
            if ch == "[":
                depth += 1
            elif ch == "]":
                depth -= 1
            if ch == "," and depth == 0:
                toks.append(cur); cur = ""
            else:
                cur += ch
        if cur:
            toks.append(cur)
        for tok in toks:
            if tok.startswith("W"):
                d["W"].append(bytes.fromhex(tok[1:]))
            elif tok.startswith("C"):
                h, _, r = tok[1:].partition("=")
                d["C"].setdefault(int(h), []).append(r)
            elif tok.startswith("F"):
                d["F"] = tok[1:]
            elif tok.startswith("N"):
                d["N"] = tok[1:]
        evs.append(d)
    return evs, tables, panic


def payload_of(res):
    """'ok:<hex>' -> decoded JSON value; 'call:code:msghex:data' -> ('err', msg)"""
    if res.startswith("ok:"):
        try:
            return json.loads(bytes.fromhex(res[3:]))
        except Exception:
            return ("raw", res)
    if res.startswith("call:"):
        p = res.split(":")
        try:
            return bytes.fromhex(p[2]).decode()
        except Exception:
            return ("raw", res)
    return None


def marker_id(v):
    if isinstance(v, str) and v.startswith("r-"):
        try:
            return int(v.split("-")[1])
        except Exception:
            return None
    return None


def wire_requests(evs):
    """all client->server frames, parsed: list of (event index, object or list)"""
    out = []
    for k, d in enumerate(evs):
        for w in d["W"]:
            try:
                out.append((k, json.loads(w)))
            except Exception:
                out.append((k, None))
    return out


def first_unjustified_back(H, evs):
    """index of the first server frame that is not a legitimate answer to something the client has put on the wire
    (judged from the wire frames in the implementation's output and the generator's metadata); None if every frame
    is legitimate.  From that frame on the client may have abandoned the connection (possibly noticed later, while
    the send task is blocked in a write), so the positive oracles make no claim after it."""
    seen_ids = {}          # id -> first event index at which a request carrying it was written
    for k, o in wire_requests(evs):
        objs = o if isinstance(o, list) else [o]
        for x in objs:
            if isinstance(x, dict) and "id" in x:
                try:
                    seen_ids.setdefault(int(x["id"]), k)
                except Exception:
                    pass
    answered = set()
    for idx, (t, m) in enumerate(H.ev):
        if m.get("kind") == "fault" or m.get("kind") == "failsend":
            return idx
        if m.get("kind") != "back":
            continue
        w = m.get("what", "")
        if w in ("pushes", "close"):
            continue
        ids = None
        if w in ("answer", "sub-ok", "sub-refused", "sub-badid", "unsub-ack", "sub-dup"):
            ids = [m["id"]]
        elif w == "batch-answer":
            ids = list(range(m["lo"], m["lo"] + m["n"])) if m.get("mode") == "perm" else None
        if ids is None:
            return idx
        for i in ids:
            if i in answered or i not in seen_ids or seen_ids[i] >= idx:
                return idx
        answered.update(ids)
    return None


# ---------------------------------------------------------------- oracles (implementation output only)

def observed_at(H, idx):
    """index of the event in whose output the completion caused by event idx is reported: idx itself, or -- when the
    harness is not polling the front-end futures (`hold` .. `unhold`) -- the `unhold` that follows"""
    held = False
    for j, (t, m) in enumerate(H.ev):
        if m.get("kind") == "hold":
            held = True
        elif m.get("kind") == "unhold":
            if held and j > idx:
                return j
            held = False
        if j == idx and not held:
            return idx
    return idx


def oracle_c03_held(H, evs, fail):
    """family c03_held_histories: the callers are not polled while the server answers and the connection then dies.  Every
    call / batch / subscribe whose own-id response reached the client BEFORE the fatal event completes with that response
    (never with the disconnect error); a call issued after the death fails with the disconnect class."""
    kinds = [m.get("kind") for _, m in H.ev]
    if "hold" not in kinds or "unhold" not in kinds:
        return
    hold_idx, un = kinds.index("hold"), kinds.index("unhold")
    fatal_idx = next((idx for idx, (t, m) in enumerate(H.ev)
                      if m.get("kind") in ("fault", "failsend") or str(m.get("what", "")).startswith("bad-")), None)
    written = {}           # wire id -> event index of the request carrying it
    for k, o in wire_requests(evs):
        for x in (o if isinstance(o, list) else [o]):
            if isinstance(x, dict) and "id" in x:
                try:
                    written.setdefault(int(x["id"]), k)
                except Exception:
                    pass
    for idx, (t, m) in enumerate(H.ev):
        w = m.get("what")
        if w not in ("answer", "batch-answer", "sub-ok") or not (hold_idx < idx < (un if fatal_idx is None else min(fatal_idx, un))):
            continue
        h = m["h"]
        first_id = m["lo"] if w == "batch-answer" else m["id"]
        if written.get(first_id, len(evs)) >= hold_idx:
            continue                      # the request was not on the wire when the callers stopped being polled
        got = [r for d in evs[:un + 1] for r in d["C"].get(h, [])]
        if w == "answer":
            o = m["payload"]
            want = o["result"] if "result" in o else o["error"]["message"]
            good = bool(got) and got[0].startswith(("ok:", "call:")) and payload_of(got[0]) == want
        elif w == "batch-answer":
            good = bool(got) and got[0].startswith("batch:")
        else:
            good = bool(got) and got[0].startswith("sub:")
        if good:
            continue
        what = {"answer": "call", "batch-answer": "batch", "sub-ok": "subscribe call"}[w]
        if got and got[0] in ("disc", "svcdisc"):
            fail("answered-call-completed-with-disconnect",
                 "%s %d (wire id %s, on the wire since event %d) was answered with its own id at event %d, before the connection died at "
                 "event %s; its caller was polled again at event %d and got %s instead of that response" % (
                     what, h, first_id, written[first_id], idx, fatal_idx, un, got))
        else:
            fail("correct-answer-not-delivered",
                 "%s %d (wire id %s) was answered with its own id at event %d (caller polled again at event %d) but completed with %s" % (
                     what, h, first_id, idx, un, got))
    if fatal_idx is not None:
        for idx, (t, m) in enumerate(H.ev[un + 1:], start=un + 1):
            if m.get("kind") == "call" and idx < len(evs):
                rs = evs[idx]["C"].get(m["h"])
                if not rs or rs[0] != "disc":
                    fail("later-call-not-failed-with-cause", "call %d issued after the death completed with %s" % (m["h"], rs))

def oracle_c03(H, evs, fail):
    """each call completes at most once, with the response bearing the id it put on the wire"""
    wid = {}
    for k, o in wire_requests(evs):
        if isinstance(o, dict) and isinstance(o.get("method"), str) and o["method"].startswith("m") and "id" in o:
            wid[int(o["method"][1:])] = int(o["id"])
    seen = {}
    ids_on_wire = []
    for k, o in wire_requests(evs):
        objs = o if isinstance(o, list) else [o]
        for x in objs:
            if isinstance(x, dict) and "id" in x:
                ids_on_wire.append(int(x["id"]))
    if len(ids_on_wire) != len(set(ids_on_wire)):
        fail("wire-ids-not-distinct", "two requests on the wire share an id: %s" % sorted(ids_on_wire))
    # a correct answer to a call whose request is already on the wire must complete that call (with that answer):
    # it must never be treated as a response matching nothing pending
    wire_at = {}
    for k, o in wire_requests(evs):
        if isinstance(o, dict) and isinstance(o.get("method"), str) and o["method"].startswith("m"):
            wire_at.setdefault(int(o["method"][1:]), k)
    for idx, (t, m) in enumerate(H.ev):
        if m.get("what") == "bad-other-kind" and idx < len(evs):
            got = evs[idx]["C"].get(m["h"])
            if got and (got[0].startswith(("ok:", "call:", "sub:"))):
                fail("answer-with-other-id-kind-accepted",
                     "handle %d (wire id %r) was completed with %s by a response whose id is that number written in the other JSON kind" % (m["h"], m["id"], got))
    died_at = next((k for k, d in enumerate(evs) if d["F"]), None)
    bad_at = first_unjustified_back(H, evs)
    answered_ids = set()
    for idx, (t, m) in enumerate(H.ev):
        if m.get("what") == "answer" and idx < len(evs):
            h, i = m["h"], m["id"]
            first = i not in answered_ids
            answered_ids.add(i)
            gave_up = any(mm.get("kind") == "giveup" and mm.get("h") == h for _, mm in H.ev[:idx])
            if first and not gave_up and h in wire_at and wire_at[h] < idx and (died_at is None or died_at >= idx) \
                    and (bad_at is None or idx < bad_at):
                got = evs[observed_at(H, idx)]["C"].get(h)
                if not got or not (got[0].startswith("ok:") or got[0].startswith("call:")):
                    fail("correct-answer-not-delivered",
                         "call %d (id %s) was on the wire since event %d; its answer at event %d gave %s%s" % (
                             h, i, wire_at[h], idx, got, " and the client shut down (%s)" % evs[idx]["F"] if evs[idx]["F"] else ""))
    if getattr(H, "held", False):
        oracle_c03_held(H, evs, fail)
    for k, d in enumerate(evs):
        for h, rs in d["C"].items():
            for r in rs:
                seen[h] = seen.get(h, 0) + 1
                if seen[h] > 1:
                    fail("call-completed-twice", "handle %d completed twice (event %d)" % (h, k))
                if h in wid and (r.startswith("ok:") or r.startswith("call:")):
                    mid = marker_id(payload_of(r))
                    if mid is None or mid != wid[h]:
                        fail("call-got-foreign-response", "call %d put id %d on the wire but completed with %s (event %d)" % (h, wid[h], r, k))


def oracle_c12(H, evs, fail):
    """batch results are positional"""
    metas = {m["h"]: m for _, m in H.ev if m.get("kind") == "batch"}
    metas_answers = {}
    for _, m in H.ev:
        if m.get("what") == "batch-answer" and m.get("objs") is not None:
            metas_answers.setdefault(m["h"], []).extend(m["objs"])
    for k, d in enumerate(evs):
        for h, rs in d["C"].items():
            if h not in metas:
                continue
            for r in rs:
                if not r.startswith("batch:"):
                    continue      # the whole call failed: allowed for bad replies; for complete replies checked below
                lo, n = metas[h]["lo"], metas[h]["n"]
                head, _, body = r[6:].partition(":[")
                items = body[:-1].split(",") if body[:-1] else []
                s, f = [int(x.split("=")[1]) for x in head.split("/")]
                if len(items) != n:
                    fail("batch-wrong-length", "batch %d of %d entries returned %d results: %s" % (h, n, len(items), r))
                oks = sum(1 for it in items if it.startswith("ok:"))
                if s != oks or f != len(items) - oks:
                    fail("batch-counts-mismatch", "batch %d: counts s=%d f=%d but entries %s" % (h, s, f, items))
                for j, it in enumerate(items):
                    mid = marker_id(payload_of(it))
                    if mid is not None and mid != lo + j:
                        fail("batch-entry-misplaced", "batch %d entry %d (id %d) holds the answer to id %d" % (h, j, lo + j, mid))
                objs_meta = metas_answers.get(h)
                if objs_meta is not None:
                    def reading(i):
                        if isinstance(i, bool) or i is None:
                            return None
                        if isinstance(i, int):
                            return i if 0 <= i < 2 ** 64 else None
                        if isinstance(i, str):
                            t = i[1:] if i[:1] == "+" else i
                            return int(t) if t and t.isascii() and t.isdigit() and int(t) < 2 ** 64 else None
                        return None
                    have = {}
                    for o in objs_meta:
                        if isinstance(o, dict):
                            have.setdefault(reading(o.get("id")), []).append(o)
                    have.pop(None, None)
                    for j, it in enumerate(items):
                        if it.startswith("ok:"):
                            v = payload_of(it)
                            if not any("result" in o and o["result"] == v for o in have.get(lo + j, [])):
                                fail("batch-entry-filled-with-foreign-answer",
                                     "batch %d entry %d (id %d) reports %r but no reply element with that id carries it" % (h, j, lo + j, v))
    # complete permuted replies must succeed with every entry filled
    for idx, (t, m) in enumerate(H.ev):
        if m.get("what") == "batch-answer" and m.get("mode") == "perm":
            h = m["h"]
            done = [r for d in evs for hh, rs in d["C"].items() if hh == h for r in rs]
            gave_up = any(mm.get("kind") == "giveup" and mm.get("h") == h for _, mm in H.ev[:idx])
            died_before = any(d["F"] for d in evs[:idx])
            on_wire = any(isinstance(o, list) and any(isinstance(x, dict) and str(x.get("id")) == str(m["lo"]) for x in o)
                          for k, o in wire_requests(evs[:idx]))
            bad_at = first_unjustified_back(H, evs)
            if not gave_up and not died_before and on_wire and idx < len(evs) and (bad_at is None or idx < bad_at):
                if not done or not done[0].startswith("batch:"):
                    fail("batch-complete-reply-not-delivered", "batch %d got a complete reply but completed with %s" % (h, done))
                else:
                    body = done[0].partition(":[")[2][:-1]
                    if any(marker_id(payload_of(it)) is None for it in body.split(",")):
                        fail("batch-complete-reply-has-placeholder", "batch %d: complete reply but an entry is a placeholder: %s" % (h, done[0]))


def oracle_c05(H, evs, fail):
    """stream contents: items yielded for a subscription are a prefix-respecting subsequence of its own pushes"""
    # per sub handle: accepted at event a (sub-ok), pushes for its sid after a
    subs = {}
    for idx, (t, m) in enumerate(H.ev):
        if m.get("what") == "sub-ok":
            subs[m["h"]] = dict(sid=m["sid"], at=idx, pushes=[], yielded=[], ended=None, uid=m["uid"])
    sid2h = {}
    for idx, (t, m) in enumerate(H.ev):
        if m.get("what") == "sub-ok":
            sid2h[json.dumps(m["sid"])] = m["h"]
        items = m.get("items") or []
        for it in items:
            if it.get("what") in ("push", "push-ended") and json.dumps(it["sid"]) in sid2h:
                h = sid2h[json.dumps(it["sid"])]
                if idx > subs[h]["at"]:
                    subs[h]["pushes"].append(it["val"])
    for idx, (t, m) in enumerate(H.ev):
        if m.get("kind") == "next" and idx < len(evs):
            sh = int(t.split()[1])
            n = evs[idx]["N"]
            if sh in subs and n:
                if n.startswith("item:"):
                    try:
                        subs[sh]["yielded"].append(json.loads(bytes.fromhex(n[5:])))
                    except Exception:
                        subs[sh]["yielded"].append(("raw", n))
                elif n.startswith("end") and subs[sh]["ended"] is None:
                    subs[sh]["ended"] = n
    for h, s in subs.items():
        y, p = s["yielded"], s["pushes"]
        if y != p[:len(y)]:
            fail("stream-not-prefix-of-pushes", "subscription %d (sid %r): yielded %s, server pushed %s" % (h, s["sid"], y, p))
    for h, want in (getattr(H, "expect_yield", None) or {}).items():
        if h in subs and subs[h]["yielded"] != want and not any(d["F"] for d in evs):
            fail("pushed-item-not-delivered", "subscription %d (sid %r) was polled often enough with room in its buffer: yielded %s, expected %s" % (
                h, subs[h]["sid"], subs[h]["yielded"], want))
    # unsubscribe requests: at most one per subscription id, exactly one after an explicit unsubscribe
    unsub_frames = {}
    for k, o in wire_requests(evs):
        if isinstance(o, dict) and isinstance(o.get("method"), str) and o["method"].startswith("unsub"):
            key = json.dumps(o.get("params"))
            unsub_frames.setdefault((o["method"], key), []).append(k)
    for key, ks in unsub_frames.items():
        if len(ks) > 1:
            fail("unsubscribe-sent-twice", "unsubscribe %s sent %d times" % (key, len(ks)))
    died = next((k for k, d in enumerate(evs) if d["F"]), None)
    for idx, (t, m) in enumerate(H.ev):
        if m.get("kind") == "unsub" and idx < len(evs) and died is None and H.clean:
            um = "unsub%d" % m["sh"]
            key = (um, json.dumps([m["sid"]]))
            if key not in unsub_frames:
                fail("explicit-unsubscribe-not-sent", "unsubscribe of subscription %d (sid %r) never reached the wire" % (m["sh"], m["sid"]))


def quiescent_by_output(H, evs):
    """the clean-up suffix only brings the client to quiescence if every subscription it ends had actually been
    handed to the application (its subscribe future had completed) when it was unsubscribed/dropped"""
    done_at = {}
    for k, d in enumerate(evs):
        for h in d["C"]:
            done_at.setdefault(h, k)
    for idx, (t, m) in enumerate(H.ev):
        if m.get("kind") in ("unsub", "drop", "munsub", "mdrop"):
            sh = m["sh"]
            if sh not in done_at or done_at[sh] >= idx:
                return False
    # a dropped subscription whose unsubscribe never reached the wire (full queue, no later notification) is still
    # known to the client: the property only speaks of subscriptions whose end was acknowledged
    unsubs = set()
    for k, o in wire_requests(evs):
        if isinstance(o, dict) and isinstance(o.get("method"), str) and o["method"].startswith("unsub"):
            unsubs.add(json.dumps(o.get("params")))
    for idx, (t, m) in enumerate(H.ev):
        if m.get("kind") in ("unsub", "drop") and json.dumps([m["sid"]]) not in unsubs:
            closed = any(mm.get("what") == "close" and json.dumps(mm.get("sid")) == json.dumps(m["sid"]) for _, mm in H.ev)
            if not closed:
                return False
    # every accepted subscription must have been ended by the application or the server
    for idx, (t, m) in enumerate(H.ev):
        if m.get("what") == "sub-ok":
            h = m["h"]
            gave_up = any(mm.get("kind") == "giveup" and mm.get("h") == h for _, mm in H.ev[:idx])
            ended = any(mm.get("kind") in ("unsub", "drop") and mm.get("sh") == h for _, mm in H.ev[idx:]) or \
                any(mm.get("what") == "close" and mm.get("h") == h for _, mm in H.ev[idx:])
            if not (gave_up or ended):
                return False
    return True


def oracle_c18(H, evs, tables, fail):
    if H.clean and tables not in ("dead", None):
        # every unsubscribe on the wire must be acknowledged for quiescence: do that bookkeeping from the wire
        return tables
    return None


def oracle_c09(H, evs, tables, panic, fail):
    if panic:
        fail("client-task-panicked", "a background task or the harness panicked")
    died = next((k for k, d in enumerate(evs) if d["F"]), None)
    md = getattr(H, "must_die", None)
    if md is not None and (died is None or died > md):
        fail("send-error-not-fatal", "the transport write at event %d (%s) failed but the client %s" % (
            md, H.ev[md][0].split()[0], "kept running: pending calls were never failed" if died is None else "only shut down at event %d" % died))
    for k, d in enumerate(evs):
        if d["F"] in ("PLACEHOLDER", "NOCAUSE"):
            fail("disconnect-cause-missing", "on_disconnect gave %s at event %d" % (d["F"], k))
        for h, rs in d["C"].items():
            for r in rs:
                if r in ("svcdisc", "timeout") or r.startswith("custom:"):
                    fail("pending-failed-without-cause", "handle %d completed with %s" % (h, r))
    if died is not None:
        # everything issued before the death and not completed earlier must be completed (with disc) by the death event
        issued = {}
        for idx, (t, m) in enumerate(H.ev[:died + 1]):
            if m.get("kind") in ("call", "batch", "sub", "subm"):
                issued[m["h"]] = idx
            if m.get("kind") == "giveup":
                issued.pop(m["h"], None)
        completed = set()
        for d in evs[:died + 1]:
            completed.update(d["C"].keys())
        for h in issued:
            if h not in completed:
                fail("pending-not-failed-on-disconnect", "handle %d still pending after the connection died at event %d" % (h, died))
        for idx, (t, m) in enumerate(H.ev[died + 1:], start=died + 1):
            if m.get("kind") in ("call", "batch", "sub", "subm") and idx < len(evs):
                rs = evs[idx]["C"].get(m["h"])
                if not rs or rs[0] not in ("disc", "emptybatch", "conflict"):
                    fail("later-call-not-failed-with-cause", "handle %d issued after the death completed with %s" % (m["h"], rs))




# ---------------------------------------------------------------- running

def impl_bin():
    """VERIF_CLIHIST_BIN overrides the implementation binary (a harness copy built against another tree)."""
    return os.environ.get("VERIF_CLIHIST_BIN") or vlib.rust_bin("clihist")


def ack_wire_unsubs(hists):
    """first pass on the implementation: acknowledge every unsubscribe request that reached the wire and that
    the scripted server has not answered, so that the history really ends quiescent (C18)"""
    impl = impl_bin()
    clean = [H for H in hists if H.clean]
    outs = vlib.run_lines([impl], [H.text() for H in clean], min_shard=20)
    for H, a in zip(clean, outs):
        try:
            evs, tables, panic = parse_out(a)
        except Exception:
            continue
        acks = [(idx, m["id"]) for idx, (_, m) in enumerate(H.ev) if m.get("what") == "unsub-ack"]
        done = set()
        for k, o in wire_requests(evs):
            if isinstance(o, dict) and isinstance(o.get("method"), str) and o["method"].startswith("unsub"):
                i = int(o["id"])
                # an acknowledgement only counts if the server sent it AFTER the request was written
                # (with a gated transport the scripted server may have answered the reserved id prematurely)
                if i not in done and not any(idx > k and j == i for idx, j in acks):
                    H.back(H.ack(i), what="unsub-ack", id=i)
                done.add(i)


def run_histories(ctx, hists, oracles, tag="random"):
    """hists: list of Hist.  Runs impl (release) and model, diffs, applies the named oracles."""
    impl, model = impl_bin(), vlib.model_bin("clihist")
    if "c18" in oracles:
        ack_wire_unsubs(hists)
    lines = [H.text() for H in hists]
    ri = vlib.run_lines([impl], lines, min_shard=20)
    rm = vlib.run_lines([model], lines, min_shard=50)
    for H, line, a, b in zip(hists, lines, ri, rm):
        ctx.count(tag)
        ctx.count("cfg idstr=%d qcap=%d buf=%d gate=%d" % H.cfg)
        for _, mm in H.ev:
            ctx.count("ev:" + (mm.get("what") or mm.get("kind") or "?"))
        case = {"history": line}
        if a != b:
            ctx.fail("diff", "clihist-model-differs", case, {"impl": a, "model": b})
        try:
            evs, tables, panic = parse_out(a)
        except Exception as e:  # noqa
            ctx.fail("diff", "clihist-unparseable-output", case, a[:500])
            continue
        nontrivial = sum(1 for d in evs if d["C"] or d["N"]) >= 2
        ctx.record(case, a, nontrivial=nontrivial)

        def mkfail(prefix):
            def f(key, detail):
                ctx.fail("oracle", key, case, detail)
            return f
        if "c03" in oracles:
            oracle_c03(H, evs, mkfail("c03"))
        if "c12" in oracles:
            oracle_c12(H, evs, mkfail("c12"))
        if "c05" in oracles:
            oracle_c05(H, evs, mkfail("c05"))
        if "c09" in oracles:
            oracle_c09(H, evs, tables, panic, mkfail("c09"))
        if getattr(H, "expect_unsub", None) is not None and ("c05" in oracles or "c18" in oracles) and not any(d["F"] for d in evs):
            want = json.dumps([H.expect_unsub])
            n = sum(1 for k, o in wire_requests(evs)
                    if isinstance(o, dict) and str(o.get("method", "")).startswith("unsub") and json.dumps(o.get("params")) == want)
            if n != 1:
                ctx.fail("oracle", "dropped-subscription-not-unsubscribed-once", case,
                         "subscription %r was dropped (or lagged) while the request queue was full, the read task then had to close it: %d unsubscribe requests on the wire, exactly one expected" % (H.expect_unsub, n))
        if getattr(H, "expect_unsub2", None) is not None and not any(d["F"] for d in evs):
            um, sid = H.expect_unsub2
            n = sum(1 for k, o in wire_requests(evs)
                    if isinstance(o, dict) and o.get("method") == um and json.dumps(o.get("params")) == json.dumps([sid]))
            if n != 1:
                ctx.fail("oracle", "reused-subscription-id-not-unsubscribed-once", case,
                         "the second subscription under id %r ended (lag / drop): %d `%s` requests on the wire, exactly one expected" % (sid, n, um))
        if "c18" in oracles:
            if H.clean and quiescent_by_output(H, evs):
                ctx.count("c18:quiescent-histories")
                # acknowledge every unsubscribe that is on the wire but unanswered is part of the clean-up suffix
                if tables not in ("dead", None) and tables != (0, 0, 0, 0):
                    # entries may legitimately remain only for unsubscribe calls never acknowledged: clean-up acks them all
                    ctx.fail("oracle", "tables-not-empty-at-quiescence", case, "table sizes %s after everything ended" % (tables,))
    return ri


def finish_cleanup(H):
    """append acks for every unsubscribe the history may have produced (used by C18 histories)"""
    for uid in list(H.unacked):
        H.back(H.ack(uid), what="unsub-ack", id=uid)
    H.unacked = []


# ---------------------------------------------------------------- targeted scenarios

def new_hist(rng, idstr=None, qcap=16, bufcap=8, gate=0):
    return Hist(rng, rng.choice([0, 1]) if idstr is None else idstr, qcap, bufcap, gate)


def answer_call_h(H, h, ok=True):
    i = H.calls.pop(h)
    H.answered.append(i)
    o = H.resp_ok(i) if ok else H.resp_err(i)
    H.back(o, what="answer", id=i, h=h, payload=o)


def accept_sub_h(H, h, sid=None):
    i, uid, um, nm = H.psubs.pop(h)
    if sid is None:
        H.sidn += 1
        sid = H.sidn if H.rng.random() < 0.5 else "s%d" % H.sidn
    H.back(H.resp_ok(i, val=sid), what="sub-ok", h=h, sid=sid, id=i, uid=uid)
    H.active[h] = dict(sid=sid, id=i, uid=uid, um=um, nm=nm, h=h)
    H.answered.append(i)
    return H.active[h]


def push_group(H, s, vals):
    """one frame carrying the pushes `vals` for subscription s: single object when one value (or array of one at random)"""
    objs = [H.notif(s["nm"], s["sid"], v) for v in vals]
    items = [dict(what="push", sid=s["sid"], val=v) for v in vals]
    if len(objs) == 1 and H.rng.random() < 0.7:
        H.back(objs[0], what="pushes", items=items, grouped=False)
    else:
        H.back(J(objs), what="pushes", items=items, grouped=True)


def compositions(n):
    """all ways to cut 1..n into consecutive groups"""
    if n == 0:
        yield []
        return
    for first in range(1, n + 1):
        for rest in compositions(n - first):
            yield [first] + rest


def c03_permutation_histories(rng, kmax=3):
    """k concurrent calls answered in every order, optionally with one answer duplicated or omitted"""
    out = []
    for k in range(1, kmax + 1):
        for perm in itertools.permutations(range(k)):
            for variant in ("exact", "omit", "dup"):
                H = new_hist(rng)
                hs = []
                for _ in range(k):
                    H.op_call()
                    hs.append(H.h)
                order = [hs[j] for j in perm]
                if variant == "omit":
                    order = order[:-1]
                for h in order:
                    answer_call_h(H, h, ok=rng.random() < 0.8)
                if variant == "dup" and H.answered:
                    i = H.answered[0]
                    H.back(H.resp_ok(i), what="bad-late-answer", id=i)
                    H.dead = True
                H.clean = False
                out.append(H)
    return out


def c05_grouping_family(rng, n, bufcap, idstr):
    """the same n pushes for one subscription delivered in every grouping; the consumer polls only afterwards.
    Returns list of Hist; the oracle demands identical stream observations across the family."""
    fam = []
    seedvals = ["v%d" % j for j in range(n)]
    for comp in compositions(n):
        H = new_hist(rng, idstr=idstr, bufcap=bufcap)
        H.op_sub()
        s = accept_sub_h(H, H.h, sid="fam")
        pos = 0
        for g in comp:
            push_group(H, s, seedvals[pos:pos + g])
            pos += g
        for _ in range(n + 2):
            H.add("next %d" % s["h"], kind="next")
        H.clean = False
        H.family = ("grouping", n, bufcap)
        fam.append(H)
    return fam


def c05_lag_histories(rng):
    """buffer n, more than n unread pushes: lag; then drain; with and without a busy (gated) send task and late pushes"""
    out = []
    for bufcap in (1, 2, 3):
        for gate in (0, 1):
            for extra in (1, 2):
                for late in (0, 1, 2):
                    H = new_hist(rng, bufcap=bufcap, gate=gate, qcap=rng.choice([2, 16]))
                    H.op_sub()
                    if gate:
                        H.add("release", kind="release")
                    s = accept_sub_h(H, H.h)
                    if gate:
                        H.op_call()          # its transport write keeps the send task busy
                    k = 0
                    for _ in range(bufcap + extra):
                        push_group(H, s, ["p%d" % k]) if not gate else H.add(
                            "back %s" % hx(J(H.notif(s["nm"], s["sid"], "p%d" % k))), kind="back", what="pushes",
                            items=[dict(what="push", sid=s["sid"], val="p%d" % k)], grouped=False)
                        k += 1
                    for _ in range(bufcap):
                        H.add("next %d" % s["h"], kind="next")
                    for _ in range(late):
                        H.add("back %s" % hx(J(H.notif(s["nm"], s["sid"], "p%d" % k))), kind="back", what="pushes",
                              items=[dict(what="push", sid=s["sid"], val="p%d" % k)], grouped=False)
                        k += 1
                        H.add("next %d" % s["h"], kind="next")
                    for _ in range(3):
                        H.add("release", kind="release")
                        H.add("next %d" % s["h"], kind="next")
                    H.clean = False
                    H.expect_lag = s["h"]
                    out.append(H)
    # the consumer polls a few times between pushes and then stalls: it counts as lagging as soon as more than `bufcap`
    # notifications are unread, however the earlier reads were interleaved with the pushes
    for idstr in (0, 1):
        for bufcap in (2, 3, 4, 8):
            for first in range(1, bufcap + 1):
                for reads in range(1, min(first, 2) + 1):
                    H = new_hist(rng, idstr=idstr, bufcap=bufcap, gate=0, qcap=16)
                    H.op_sub()
                    s = accept_sub_h(H, H.h)
                    k = 0
                    for _ in range(first):
                        push_group(H, s, ["p%d" % k])
                        k += 1
                    for _ in range(reads):
                        H.add("next %d" % s["h"], kind="next")
                    for _ in range(bufcap + 1 - (first - reads)):          # now bufcap + 1 unread
                        push_group(H, s, ["p%d" % k])
                        k += 1
                    for _ in range(bufcap + 3):
                        H.add("next %d" % s["h"], kind="next")
                    H.clean = False
                    H.expect_lag = s["h"]
                    out.append(H)
    # the lag is detected while the send task is stalled in a write AND the front-to-back queue is full: the read task's close
    # request must wait for room; then the wire recovers and the server stays silent on that subscription
    for idstr in (0, 1):
        for bufcap in (1, 2):
            for qcap in (1, 2):
                H = new_hist(rng, idstr=idstr, bufcap=bufcap, gate=1, qcap=qcap)
                H.op_sub()
                for _ in range(3):
                    H.add("release", kind="release")
                s = accept_sub_h(H, H.h)
                for _ in range(1 + qcap):
                    H.op_notify()            # the first is stuck in its transport write, the others fill the queue
                for k in range(bufcap + 1):
                    H.add("back %s" % hx(J(H.notif(s["nm"], s["sid"], "p%d" % k))), kind="back", what="pushes",
                          items=[dict(what="push", sid=s["sid"], val="p%d" % k)], grouped=False)
                for _ in range(10):
                    H.add("release", kind="release")
                for _ in range(bufcap + 2):
                    H.add("next %d" % s["h"], kind="next")
                H.clean = False
                H.expect_lag = s["h"]
                H.expect_unsub = s["sid"]
                out.append(H)
    return out


def c05_drop_full_queue_histories(rng):
    """a live subscription is dropped while the front-to-back queue is full (the Drop impl's try_send loses the close
    message); later the queue drains and the server pushes one more notification for it: the client must then send
    exactly one unsubscribe (and, once that is acknowledged, hold nothing)"""
    out = []
    for idstr in (0, 1):
        for qcap in (1, 2):
            for extra_calls in (qcap + 1, qcap + 2):
                for pushes_before, late_at in ((0, "drained"), (1, "drained"), (0, "full"), (1, "full")):
                    H = new_hist(rng, idstr=idstr, qcap=qcap, bufcap=4, gate=1)
                    H.op_sub()
                    hs = H.h
                    for _ in range(3):
                        H.add("release", kind="release")
                    s = accept_sub_h(H, hs)
                    for j in range(pushes_before):
                        H.add("back %s" % hx(J(H.notif(s["nm"], s["sid"], "b%d" % j))), kind="back", what="pushes",
                              items=[dict(what="push", sid=s["sid"], val="b%d" % j)], grouped=False)
                    # one call blocks inside its transport write, the next ones fill the queue
                    for _ in range(1 + extra_calls):
                        H.op_call()
                    H.active.pop(hs)
                    s["gone"] = True
                    H.ended.append(s)
                    H.add("drop %d" % hs, kind="drop", sh=hs, sid=s["sid"], uid=s["uid"])
                    if late_at == "drained":
                        for _ in range(8):
                            H.add("release", kind="release")
                    # "full": the notification arrives while the send task is still stalled and the queue still full (the read
                    # task's close request has to wait for room); afterwards the wire recovers and the server stays silent
                    H.add("back %s" % hx(J(H.notif(s["nm"], s["sid"], "late"))), kind="back", what="pushes",
                          items=[dict(what="push-ended", sid=s["sid"], val="late")], grouped=False)
                    for _ in range(12 if late_at == "full" else 4):
                        H.add("release", kind="release")
                    # clean-up: answer the calls, acknowledge the unsubscribe (added by ack_wire_unsubs for C18)
                    while H.calls:
                        h = sorted(H.calls)[0]
                        i = H.calls.pop(h)
                        H.answered.append(i)
                        H.add("back %s" % hx(J(H.resp_ok(i))), kind="back", what="answer", id=i, h=h)
                    for _ in range(3):
                        H.add("release", kind="release")
                    H.clean = True
                    H.cleanup_from = len(H.ev)
                    H.expect_unsub = s["sid"]
                    out.append(H)
    return out


def c12_batch_histories(rng, nmax=4, full=False):
    out = []
    for n in range(1, nmax + 1):
        perms = list(itertools.permutations(range(n)))
        if not full and len(perms) > 8:
            perms = rng.sample(perms, 8)
        for perm in perms:
            for variant in ("perm", "missing", "dup", "foreign", "two-batches"):
                H = new_hist(rng)
                if rng.random() < 0.5:
                    H.op_call()
                H.op_batch()
                hb = H.h
                lo, nn = H.batches[hb]
                # force batch size n: regenerate until it has n entries
                while nn != n:
                    H = new_hist(rng)
                    H.op_batch()
                    hb = H.h
                    lo, nn = H.batches[hb]
                ids = [lo + j for j in perm]
                mode = "perm"
                if variant == "missing" and n > 1:
                    ids.pop(rng.randrange(len(ids)))
                    mode = "missing"
                elif variant == "dup":
                    ids.append(rng.choice(ids))
                    mode = "dup"
                elif variant == "foreign":
                    ids.append(rng.choice([lo + n, lo + n + 5, 2**64 - 1, "EMPTY", "EMPTY"] + ([lo - 1] if lo else [])))
                    mode = "foreign"
                elif variant == "two-batches":
                    H.op_batch()
                    hb2 = H.h
                    lo2, n2 = H.batches[hb2]
                    # reply to the first batch lacks its leading entry / reply mixes both
                    ids2 = list(range(lo2, lo2 + n2))
                    if rng.random() < 0.5 and n > 1:
                        ids = ids[1:]
                        mode = "missing"
                    objs2 = [H.resp_ok(i) for i in ids2]
                    H.batches.pop(hb2)
                    H.back(J(objs2), what="batch-answer", h=hb2, lo=lo2, n=n2, mode="perm", objs=objs2, items=[])
                H.batches.pop(hb)
                if "EMPTY" in ids:
                    # an element whose id is the empty string: it has no numeric reading; placed last, or in place of the first answer
                    ids = [i for i in ids if i != "EMPTY"]
                    objs = [H.resp_ok(i) if rng.random() < 0.8 else H.resp_err(i) for i in ids]
                    intruder = {"jsonrpc": "2.0", "id": "", "result": "intruder"}
                    objs = (objs + [intruder]) if rng.random() < 0.5 else ([intruder] + objs[1:])
                    H.back(J(objs), what="batch-answer", h=hb, lo=lo, n=n, mode=mode, objs=objs, items=[])
                    H.clean = False
                    out.append(H)
                    continue
                objs = [H.resp_ok(i) if rng.random() < 0.8 else H.resp_err(i) for i in ids]
                H.back(J(objs), what="batch-answer", h=hb, lo=lo, n=n, mode=mode, objs=objs, items=[])
                H.clean = False
                out.append(H)
    return out


def c12_idseq_histories(rng, nmax=4, idstr=None):
    """a batch of n entries answered by EVERY sequence of n ids drawn from its own range (repeats and omissions
    together, sorted or not): n^n replies"""
    out = []
    for n in range(1, nmax + 1):
        for seq in itertools.product(range(n), repeat=n):
            H = new_hist(rng, idstr=idstr)
            if rng.random() < 0.3:
                H.op_call()
            H.op_batch()
            hb = H.h
            lo, nn = H.batches[hb]
            while nn != n:
                H = new_hist(rng, idstr=idstr)
                H.op_batch()
                hb = H.h
                lo, nn = H.batches[hb]
            ids = [lo + j for j in seq]
            H.batches.pop(hb)
            objs = [H.resp_ok(i) if rng.random() < 0.85 else H.resp_err(i) for i in ids]
            mode = "perm" if sorted(seq) == list(range(n)) else "multiset"
            H.back(J(objs), what="batch-answer", h=hb, lo=lo, n=n, mode=mode, objs=objs, items=[])
            H.clean = False
            out.append(H)
    return out


def c05_multi_sub_family(rng, bufcap, idstr, pattern):
    """several subscriptions; `pattern` is a list of sub indexes, one push each; delivered (a) one frame per push,
    (b) all in one array, (c) in random chunks.  The consumer polls every stream afterwards.  Returns the family."""
    fam = []
    nsubs = max(pattern) + 1
    for mode in ("single", "packed", "chunks"):
        H = new_hist(rng, idstr=idstr, bufcap=bufcap)
        subs = []
        for k in range(nsubs):
            H.op_sub()
            subs.append(accept_sub_h(H, H.h, sid=("S%d" % k) if k % 2 == 0 else 100 + k))
        pushes = [(subs[k], "q%d" % j) for j, k in enumerate(pattern)]
        if mode == "single":
            groups = [[p] for p in pushes]
        elif mode == "packed":
            groups = [pushes]
        else:
            groups, cur = [], []
            for p in pushes:
                cur.append(p)
                if rng.random() < 0.4:
                    groups.append(cur); cur = []
            if cur:
                groups.append(cur)
        for g in groups:
            objs = [H.notif(sub["nm"], sub["sid"], v) for sub, v in g]
            items = [dict(what="push", sid=sub["sid"], val=v) for sub, v in g]
            if len(objs) == 1 and mode == "single":
                H.back(objs[0], what="pushes", items=items, grouped=False)
            else:
                H.back(J(objs), what="pushes", items=items, grouped=True)
        for sub in subs:
            for _ in range(len(pattern) + 2):
                H.add("next %d" % sub["h"], kind="next")
        H.clean = False
        H.family_subs = [sub["h"] for sub in subs]
        fam.append(H)
    return fam


def c18_cycle_history(rng, reps, kinds=None):
    """long repetitions of complete cycles; ends quiescent"""
    H = new_hist(rng, qcap=16, bufcap=4)
    kinds = kinds or ["call", "sub-unsub", "sub-refused", "sub-closed", "batch", "subm", "sub-drop", "sub-lag"]
    for _ in range(reps):
        k = rng.choice(kinds)
        if k == "call":
            H.op_call(); answer_call_h(H, H.h, ok=rng.random() < 0.7)
        elif k == "batch":
            H.op_batch(); H.answer_batch_exact = True
            h = H.h; lo, n = H.batches.pop(h)
            ids = list(range(lo, lo + n)); rng.shuffle(ids)
            H.back(J([H.resp_ok(i) for i in ids]), what="batch-answer", h=h, lo=lo, n=n, mode="perm", objs=None, items=[])
        elif k == "sub-refused":
            H.op_sub(); h = H.h; i, uid, um, nm = H.psubs.pop(h)
            H.back(H.resp_err(i), what="sub-refused", h=h, id=i, uid=uid)
        elif k in ("sub-unsub", "sub-drop", "sub-closed", "sub-lag"):
            H.op_sub(); h = H.h; s = accept_sub_h(H, h)
            for j in range(rng.choice([0, 1, 2])):
                push_group(H, s, ["c%d" % j])
                H.add("next %d" % h, kind="next")
            if k == "sub-lag":
                for j in range(6):
                    push_group(H, s, ["l%d" % j])
            if k == "sub-closed":
                H.active.pop(h); H.ended.append(s)
                H.back(H.notif(s["nm"], s["sid"], "bye", err=True), what="close", sid=s["sid"], h=h, grouped=False)
                H.add("drop %d" % h, kind="drop", sh=h, sid=s["sid"], uid=s["uid"])
            else:
                H.active.pop(h); s["gone"] = True; H.ended.append(s)
                if k == "sub-drop":
                    H.add("drop %d" % h, kind="drop", sh=h, sid=s["sid"], uid=s["uid"])
                else:
                    H.add("unsub %d %d" % (H.newh(), h), kind="unsub", sh=h, sid=s["sid"], uid=s["uid"])
                H.back(H.ack(s["uid"]), what="unsub-ack", id=s["uid"])
        elif k == "subm":
            H.op_subm(); h = H.h
            me = H.methods.pop(h)
            if [m for _, m in H.ev if m.get("kind") == "subm" and m.get("method") == me and m["h"] != h and not m.get("ended")]:
                pass
            H.back({"jsonrpc": "2.0", "method": me, "params": [1]}, what="pushes", items=[], grouped=False)
            H.add("unsub %d %d" % (H.newh(), h), kind="munsub", sh=h)
            H.ev[-3][1]["ended"] = True
    H.clean = True
    H.cleanup_from = len(H.ev)
    return H


def c09_sendfault_histories(rng):
    """a transport write error on EVERY kind of frame the client writes (call, notification, batch, subscribe, and the
    unsubscribe request produced by unsubscribe() / drop / a lagging stream closed by the read task / a subscribe whose caller
    gave up before the answer), with something else pending and a silent receive side: the client must shut down at that event
    and fail everything pending with the cause (H.must_die = index of the event whose frame fails)"""
    out = []
    for idstr in (0, 1):
        for pre in ("call", "batch", "sub", "call+batch", "none"):
            for trig in ("unsub", "drop", "lag", "giveup-sub", "call", "batch", "sub", "notify"):
                H = new_hist(rng, idstr=idstr, qcap=16, bufcap=1, gate=0)
                for p in pre.split("+"):
                    {"call": H.op_call, "batch": H.op_batch, "sub": H.op_sub, "none": lambda: None}[p]()
                H.op_sub()
                hs = H.h
                if trig == "giveup-sub":
                    H.add("giveup %d" % hs, kind="giveup", h=hs)
                    H.add("failsend", kind="failsend")
                    accept_sub_h(H, hs)           # the answer to an abandoned subscribe makes the client unsubscribe
                else:
                    s = accept_sub_h(H, hs)
                    H.add("failsend", kind="failsend")
                    if trig == "unsub":
                        H.add("unsub %d %d" % (H.newh(), hs), kind="unsub", sh=hs, sid=s["sid"], uid=s["uid"])
                    elif trig == "drop":
                        H.add("drop %d" % hs, kind="drop", sh=hs, sid=s["sid"], uid=s["uid"])
                    elif trig == "lag":
                        push_group(H, s, [H.marker(0)])
                        push_group(H, s, [H.marker(0)])       # buffer of 1, nobody polls: the second push closes the stream
                    else:
                        {"call": H.op_call, "batch": H.op_batch, "sub": H.op_sub, "notify": H.op_notify}[trig]()
                H.must_die = len(H.ev) - 1
                H.dead = True
                H.op_call()
                H.add("ondisc" if False else "next %d" % hs, kind="next")
                H.clean = False
                out.append(H)
    # requests of every kind QUEUED behind a transport write that is stalled when the connection dies (receive fault or the
    # stalled write itself failing): each of them -- subscribe_to_method included -- must complete with the cause
    for idstr in (0, 1):
        for queued in (("call",), ("batch",), ("sub",), ("subm",), ("subm", "call"), ("call", "subm", "sub", "batch")):
            for how in ("fault", "failsend"):
                H = new_hist(rng, idstr=idstr, qcap=16, bufcap=2, gate=1)
                H.op_call()                           # stalls inside its transport write
                for q in queued:
                    {"call": H.op_call, "batch": H.op_batch, "sub": H.op_sub, "subm": H.op_subm}[q]()
                H.add(how, kind=how)
                for _ in range(3):
                    H.add("release", kind="release")
                H.dead = True
                H.op_subm()
                H.op_call()
                H.clean = False
                out.append(H)
    return out


def c12_mixed_array_histories(rng, nmax=3):
    """the reply to a batch shares its JSON array with a notification for a subscription whose stream is full (buffer 1, never
    polled: the read task closes that subscription while handling the array) or still has room; the notification at every
    position, the responses in rotated order, a single call pending as well.  The batch must complete with every answer."""
    out = []
    for idstr in (0, 1):
        for n in range(1, nmax + 1):
            for pos in range(n + 1):
                for rot in range(n):
                    for fill in (0, 1, 2):
                        H = new_hist(rng, idstr=idstr, qcap=16, bufcap=1, gate=0)
                        H.op_sub()
                        s = accept_sub_h(H, H.h)
                        if rng.random() < 0.5:
                            H.op_call()
                        for _ in range(min(fill, 1)):
                            push_group(H, s, [H.marker(0)])        # fills the buffer of 1
                        h = H.newh()
                        lo = H.next_id
                        H.next_id += n
                        H.add("batch %d %s" % (h, " ".join("%s -" % hx("b%d_%d" % (h, j)) for j in range(n))), kind="batch", h=h, lo=lo, n=n)
                        ids = [lo + (j + rot) % n for j in range(n)]
                        objs = [H.resp_ok(i) if rng.random() < 0.8 else H.resp_err(i) for i in ids]
                        notes = [H.notif(s["nm"], s["sid"], H.marker(0)) for _ in range(1 if fill < 2 else 2)]
                        arr = objs[:pos] + notes + objs[pos:]
                        items = [dict(what="push", sid=s["sid"], val=o["params"]["result"]) for o in notes]
                        H.back(J(arr), what="batch-answer", h=h, lo=lo, n=n, mode="perm", objs=objs, items=items)
                        H.add("next %d" % s["h"], kind="next")
                        H.clean = False
                        out.append(H)
    return out


def seqform_histories(rng, reps=3):
    """serde's derived visitors also read the SEQUENCE form of a struct (Model/Wire.v de_struct): a Notification is
    `[jsonrpc, method, params]`, a SubscriptionPayload `[subscription, result]`, a SubscriptionPayloadError `[subscription, error]`,
    an ErrorObject `[code, message, data]`.  A frame that starts with '[' is an array frame for the client, so a sequence-form
    Notification is reachable only as an ELEMENT of an array; sequence-form params and error objects are reachable everywhere.
    Families (subscription active, numeric / string ids):
      items      the same kind of item as object form / params-sequence form / element-sequence form / both, single and packed
      close      the closing error notification in each form -- with the PAYLOAD in sequence form the member name is gone and
                 the client reads `[sid, x]` as an item (SubscriptionResponse is tried first): metadata says `push`, not `close`
      mnotif     method notifications in sequence form inside arrays (a registered handler sees the params)
      callerr    a call answered with a sequence-form error object (right length; too short = not a response = fatal)
      batcherr   batch entries answered with sequence-form error objects, a sequence-form notification in the same array
      wrong      right-looking arrays of the wrong length (a plain notification for nobody, or unparseable = fatal)."""
    out = []

    def item(s, form, v, err=False):
        """-> (json value, needs an array frame)"""
        pobj = {"subscription": s["sid"], ("error" if err else "result"): v}
        pseq = [s["sid"], v]
        if form == "obj":
            return {"jsonrpc": "2.0", "method": s["nm"], "params": pobj}, False
        if form == "pseq":
            return {"jsonrpc": "2.0", "method": s["nm"], "params": pseq}, False
        if form == "eseq":
            return ["2.0", s["nm"], pobj], True
        return ["2.0", s["nm"], pseq], True          # "both"

    FORMS = ["obj", "pseq", "eseq", "both"]

    def start(idstr, bufcap=8, strsid=None):
        H = new_hist(rng, idstr=idstr, qcap=16, bufcap=bufcap, gate=0)
        H.op_sub()
        H.sidn += 1
        sid = ("q%d" % H.sidn) if (rng.random() < 0.5 if strsid is None else strsid) else H.sidn
        s = accept_sub_h(H, H.h, sid=sid)
        return H, s

    def push_frame(H, s, forms):
        """one frame with one item per form; a single top-level object when possible (and at random), else an array"""
        vals = [H.marker(0) for _ in forms]
        built = [item(s, f, v) for f, v in zip(forms, vals)]
        items = [dict(what="push", sid=s["sid"], val=v, form=f) for f, v in zip(forms, vals)]
        if len(built) == 1 and not built[0][1] and rng.random() < 0.7:
            H.back(built[0][0], what="pushes", items=items, grouped=False)
        else:
            H.back(J([o for o, _ in built]), what="pushes", items=items, grouped=True)

    def nexts(H, h, n):
        for _ in range(n):
            H.add("next %d" % h, kind="next")

    for idstr in (0, 1):
        for _ in range(reps):
            # ---- items: every single form alone, then random packings
            for f in FORMS:
                H, s = start(idstr)
                push_frame(H, s, ["obj"])
                push_frame(H, s, [f])
                push_frame(H, s, [f, "obj", f])
                nexts(H, s["h"], 6)
                H.clean = False
                out.append(H)
            H, s = start(idstr)
            total = 0
            for _ in range(rng.choice([2, 3, 4])):
                forms = [rng.choice(FORMS) for _ in range(rng.choice([1, 1, 2, 3]))]
                total += len(forms)
                push_frame(H, s, forms)
                if rng.random() < 0.5:
                    nexts(H, s["h"], rng.choice([1, 2]))
            nexts(H, s["h"], total + 1)
            H.clean = False
            out.append(H)
            # ---- close: the error notification in each form, items before and after
            for f in FORMS:
                for grouped_with_item in (False, True):
                    H, s = start(idstr)
                    push_frame(H, s, [rng.choice(FORMS)])
                    v = H.marker(0)
                    o, need_arr = item(s, f, v, err=True)
                    is_item = f in ("pseq", "both")           # payload in sequence form: read as SubscriptionResponse
                    extra_forms = [rng.choice(FORMS)] if grouped_with_item else []
                    extra_vals = [H.marker(0) for _ in extra_forms]
                    extra = [item(s, ef, ev)[0] for ef, ev in zip(extra_forms, extra_vals)]
                    extra_items = [dict(what="push-ended" if not is_item else "push", sid=s["sid"], val=ev) for ev in extra_vals]
                    frame = o if not (need_arr or extra) else J([o] + extra)
                    if is_item:
                        H.back(frame, what="pushes", items=[dict(what="push", sid=s["sid"], val=v, form=f + "-error")] + extra_items,
                               grouped=not isinstance(frame, dict))
                    else:
                        H.active.pop(s["h"], None)
                        H.ended.append(s)
                        s["server_closed"] = True
                        H.back(frame, what="close", sid=s["sid"], h=s["h"], grouped=not isinstance(frame, dict), items=extra_items)
                    v2 = H.marker(0)
                    H.back(item(s, "obj", v2)[0], what="pushes", items=[dict(what="push" if is_item else "push-ended", sid=s["sid"], val=v2)],
                           grouped=False)
                    nexts(H, s["h"], 5)
                    H.clean = False
                    out.append(H)
            # ---- method notifications in sequence form inside arrays
            H, s = start(idstr)
            H.op_subm()
            mh, me = H.h, H.methods[H.h]
            vs = [H.marker(0) for _ in range(4)]
            H.back(J([["2.0", me, [vs[0]]]]), what="pushes", items=[dict(what="mnotif", method=me, val=[vs[0]])], grouped=True)
            H.back(J([["2.0", me, None], {"jsonrpc": "2.0", "method": me, "params": [vs[1]]}, item(s, "both", vs[2])[0]]), what="pushes",
                   items=[dict(what="mnotif", method=me, val=None), dict(what="mnotif", method=me, val=[vs[1]]),
                          dict(what="push", sid=s["sid"], val=vs[2])], grouped=True)
            H.back(J([["2.0", "gamma", {"a": vs[3]}]]), what="pushes", items=[dict(what="mnotif", method="gamma", val={"a": vs[3]})], grouped=True)
            nexts(H, mh, 4)
            nexts(H, s["h"], 2)
            H.clean = False
            out.append(H)
            # ---- a call answered with a sequence-form error object
            for data in (None, {"why": [1, None]}, "d"):
                H, s = start(idstr)
                H.op_call()
                h = H.h
                i = H.calls.pop(h)
                H.answered.append(i)
                o = {"jsonrpc": "2.0", "id": H.wid(i), "error": [-32000 - rng.randrange(5), H.marker(i), data]}
                if rng.random() < 0.3:
                    del o["jsonrpc"]
                H.back(o, what="answer", id=i, h=h, payload=o)
                push_frame(H, s, [rng.choice(FORMS)])
                nexts(H, s["h"], 2)
                H.clean = False
                out.append(H)
            for bad_err in ([-32000, "m"], [-32000, "m", None, 1], [], ["x", "m", None], [[-32000, "m", None]]):
                H, s = start(idstr)
                H.op_call()
                h = H.h
                i = H.calls[h]
                H.back({"jsonrpc": "2.0", "id": H.wid(i), "error": bad_err}, what="bad-garbage")     # not a Response, not a notification
                H.dead = True
                nexts(H, s["h"], 1)
                H.clean = False
                out.append(H)
            # ---- batch entries answered with sequence-form error objects (+ a sequence-form notification in the same array)
            for n in (1, 2, 3):
                for with_note in (False, True):
                    H, s = start(idstr)
                    h = H.newh()
                    lo = H.next_id
                    H.next_id += n
                    H.add("batch %d %s" % (h, " ".join("%s -" % hx("b%d_%d" % (h, j)) for j in range(n))), kind="batch", h=h, lo=lo, n=n)
                    rot = rng.randrange(n)
                    ids = [lo + (j + rot) % n for j in range(n)]
                    objs = []
                    for i in ids:
                        if rng.random() < 0.6:
                            objs.append({"jsonrpc": "2.0", "id": H.wid(i), "error": [-32001, H.marker(i), rng.choice([None, [i]])]})
                        else:
                            objs.append(H.resp_ok(i) if rng.random() < 0.7 else H.resp_err(i))
                    arr, items = list(objs), []
                    if with_note:
                        v = H.marker(0)
                        arr.insert(rng.randrange(len(arr) + 1), item(s, rng.choice(["eseq", "both", "pseq"]), v)[0])
                        items = [dict(what="push", sid=s["sid"], val=v)]
                    H.back(J(arr), what="batch-answer", h=h, lo=lo, n=n, mode="perm", objs=objs, items=items)
                    nexts(H, s["h"], 2)
                    H.clean = False
                    out.append(H)
            # ---- arrays of the wrong length
            H, s = start(idstr)
            v = H.marker(0)
            # params of a length other than 2: not a subscription payload, but still a plain notification (for nobody)
            H.back({"jsonrpc": "2.0", "method": s["nm"], "params": [s["sid"], v, 1]}, what="pushes",
                   items=[dict(what="mnotif", method=s["nm"], val=[s["sid"], v, 1])], grouped=False)
            H.back(J([["2.0", s["nm"], [s["sid"]]]]), what="pushes", items=[dict(what="mnotif", method=s["nm"], val=[s["sid"]])], grouped=True)
            push_frame(H, s, ["both"])
            nexts(H, s["h"], 2)
            H.clean = False
            out.append(H)
            for bad in ([["2.0", "ev0"]], [["2.0", "ev0", [1, 5], None]], [[]], [["1.0", "ev0", [1, 5]]], [[None, "ev0", {"subscription": 1, "result": 5}]],
                        [["2.0", 5, "echo", [1]]]):
                H, s = start(idstr)
                push_frame(H, s, ["eseq"])
                H.back(J(bad), what="bad-garbage")
                H.dead = True
                nexts(H, s["h"], 2)
                H.clean = False
                out.append(H)
    return out



def c18_sid_reuse_histories(rng):
    """the server hands the id of an ENDED subscription to a new one (legitimate): whatever ended the first one -- lag whose
    close request was still queued when the server closed it, server close, unsubscribe, drop -- must leave nothing behind
    that changes the fate of the second (which then lags / is dropped and must be unsubscribed exactly once)"""
    out = []
    for idstr in (0, 1):
        for gate in (0, 1):
            for end1 in ("lag+srvclose", "srvclose", "unsub", "drop", "lag"):
                for end2 in ("lag", "drop"):
                    H = new_hist(rng, idstr=idstr, bufcap=1, gate=gate, qcap=16)
                    rel = (lambda n=3: [H.add("release", kind="release") for _ in range(n)]) if gate else (lambda n=3: None)
                    H.op_sub()
                    h1 = H.h
                    rel()
                    s1 = accept_sub_h(H, h1, sid="X")
                    if gate:
                        H.op_call()                      # keeps the send task inside a transport write
                    if end1.startswith("lag"):
                        for k in range(2):               # buffer 1, nobody polls: the second push makes it lag
                            H.add("back %s" % hx(J(H.notif(s1["nm"], "X", "a%d" % k))), kind="back", what="pushes",
                                  items=[dict(what="push", sid="X", val="a%d" % k)], grouped=False)
                    if "srvclose" in end1:
                        H.add("back %s" % hx(J(H.notif(s1["nm"], "X", "bye", err=True))), kind="back", what="close", sid="X", h=h1, grouped=False)
                        s1["server_closed"] = True
                    if end1 == "unsub":
                        H.add("unsub %d %d" % (H.newh(), h1), kind="unsub", sh=h1, sid="X", uid=s1["uid"])
                    if end1 == "drop":
                        H.add("drop %d" % h1, kind="drop", sh=h1, sid="X", uid=s1["uid"])
                    H.active.pop(h1, None)
                    s1["gone"] = True
                    H.ended.append(s1)
                    rel(6)
                    for _ in range(3):
                        H.add("next %d" % h1, kind="next") if end1 not in ("unsub", "drop") else None
                    # second subscription, same id
                    H.op_sub()
                    h2 = H.h
                    rel()
                    s2 = accept_sub_h(H, h2, sid="X")
                    rel()
                    if end2 == "lag":
                        for k in range(2):
                            H.add("back %s" % hx(J(H.notif(s2["nm"], "X", "b%d" % k))), kind="back", what="pushes",
                                  items=[dict(what="push", sid="X", val="b%d" % k)], grouped=False)
                        rel(6)
                        for _ in range(3):
                            H.add("next %d" % h2, kind="next")
                    else:
                        H.add("drop %d" % h2, kind="drop", sh=h2, sid="X", uid=s2["uid"])
                        rel(6)
                    H.clean = False
                    H.expect_unsub2 = ("unsub%d" % h2, "X")
                    out.append(H)
    return out



def c03_idkind_histories(rng):
    """a single (non-array) response whose id is the pending request's id written in the OTHER JSON kind ("1" / "01" / "+1" for the
    number 1, the number 1 for "1"): ids are compared as JSON values (derived PartialEq on Id), so this response bears no
    pending id -- it must not complete the call / subscribe / unsubscribe that uses that number"""
    out = []
    for idstr in (0, 1):
        for pre in (0, 1, 2):
            for target in ("call", "sub", "call-err"):
                for spelling in (("plain", "lead0", "plus") if idstr == 0 else ("plain",)):
                    H = new_hist(rng, idstr=idstr, qcap=16, bufcap=4, gate=0)
                    for _ in range(pre):
                        H.op_call()
                    if target == "sub":
                        H.op_sub()
                        h = H.h
                        i = H.psubs[h][0]
                    else:
                        H.op_call()
                        h = H.h
                        i = H.calls[h]
                    if idstr == 0:
                        other = {"plain": str(i), "lead0": "0%d" % i, "plus": "+%d" % i}[spelling]
                    else:
                        other = i                      # the client sent "i", the server answers with the number i
                    o = {"jsonrpc": "2.0", "id": other}
                    if target == "call-err":
                        o["error"] = {"code": -32000, "message": H.marker(i)}
                    else:
                        o["result"] = H.marker(i) if target == "call" else "sid-x"
                    H.back(o, what="bad-other-kind", h=h, id=i)
                    H.dead = True
                    H.op_call()
                    H.clean = False
                    out.append(H)
    return out



def c05_dup_sid_histories(rng):
    """a LATER subscribe call is answered with the id of a live subscription (the client rejects that call): the live subscription
    must be unaffected -- its notifications keep arriving, an explicit unsubscribe is still sent, a server close still ends it"""
    out = []
    for idstr in (0, 1):
        for sidkind in ("num", "str"):
            for tail in ("poll", "unsub", "srvclose", "drop"):
                for grouped in (False, True):
                    H = new_hist(rng, idstr=idstr, qcap=16, bufcap=4, gate=0)
                    H.op_sub()
                    ha = H.h
                    sa = accept_sub_h(H, ha, sid=(7 if sidkind == "num" else "X"))
                    push_group(H, sa, ["p0"])
                    H.op_sub()
                    hb = H.h
                    i, uid, um, nm = H.psubs.pop(hb)
                    H.back(H.resp_ok(i, val=sa["sid"]), what="sub-dup", h=hb, id=i, uid=uid)
                    H.answered.append(i)
                    vals = ["p1", "p2"]
                    if grouped:
                        H.back(J([H.notif(sa["nm"], sa["sid"], v) for v in vals]), what="pushes",
                               items=[dict(what="push", sid=sa["sid"], val=v) for v in vals], grouped=True)
                    else:
                        for v in vals:
                            push_group(H, sa, [v])
                    for _ in range(3):
                        H.add("next %d" % ha, kind="next")
                    H.expect_yield = {ha: ["p0", "p1", "p2"]}
                    if tail == "unsub":
                        H.add("unsub %d %d" % (H.newh(), ha), kind="unsub", sh=ha, sid=sa["sid"], uid=sa["uid"])
                        H.expect_unsub = sa["sid"]
                    elif tail == "drop":
                        H.add("drop %d" % ha, kind="drop", sh=ha, sid=sa["sid"], uid=sa["uid"])
                        H.expect_unsub = sa["sid"]
                    elif tail == "srvclose":
                        H.add("back %s" % hx(J(H.notif(sa["nm"], sa["sid"], "bye", err=True))), kind="back", what="close", sid=sa["sid"], h=ha, grouped=False)
                        H.add("next %d" % ha, kind="next")
                    H.clean = False
                    out.append(H)
    return out



def c18_lag_srvclose_histories(rng):
    """two close causes on one subscription: it lags (buffer 1, two unread pushes -> the read task queues a close request) and the
    server closes it itself before the send task has handled that request (frames back to back, or all in one array frame);
    afterwards everything is answered and drained: the client must hold nothing"""
    out = []
    for idstr in (0, 1):
        for gate in (0, 1):
            for shape in ("frames", "array", "array-close-first"):
                for cycles in (0, 2):
                    H = new_hist(rng, idstr=idstr, bufcap=1, gate=gate, qcap=16)
                    rel = (lambda n=3: [H.add("release", kind="release") for _ in range(n)]) if gate else (lambda n=3: None)
                    for _ in range(cycles):                     # ordinary subscribe / unsubscribe cycles first
                        H.op_sub()
                        hh = H.h
                        rel()
                        sx = accept_sub_h(H, hh)
                        H.active.pop(hh)
                        sx["gone"] = True
                        H.ended.append(sx)
                        H.unacked.append(sx["uid"])
                        H.add("unsub %d %d" % (H.newh(), hh), kind="unsub", sh=hh, sid=sx["sid"], uid=sx["uid"])
                        rel()
                    H.op_sub()
                    h = H.h
                    rel()
                    s = accept_sub_h(H, h)
                    if gate:
                        H.op_call()                          # the send task sits in this write while the frames below arrive
                    pushes = [H.notif(s["nm"], s["sid"], "p%d" % k) for k in range(2)]
                    close = H.notif(s["nm"], s["sid"], "bye", err=True)
                    items = [dict(what="push", sid=s["sid"], val="p%d" % k) for k in range(2)]
                    if shape == "frames":
                        for o, it in zip(pushes, items):
                            H.add("back %s" % hx(J(o)), kind="back", what="pushes", items=[it], grouped=False)
                        H.add("back %s" % hx(J(close)), kind="back", what="close", sid=s["sid"], h=h, grouped=False)
                    elif shape == "array":
                        H.add("back %s" % hx(J(pushes + [close])), kind="back", what="close", sid=s["sid"], h=h, grouped=True, items=items)
                    else:
                        H.add("back %s" % hx(J([pushes[0], close, pushes[1]])), kind="back", what="close", sid=s["sid"], h=h, grouped=True, items=items[:1])
                    H.active.pop(h, None)
                    s["server_closed"] = True
                    H.ended.append(s)
                    rel(8)
                    while H.calls:
                        hc = sorted(H.calls)[0]
                        i = H.calls.pop(hc)
                        H.answered.append(i)
                        H.add("back %s" % hx(J(H.resp_ok(i))), kind="back", what="answer", id=i, h=hc)
                    for _ in range(3):
                        H.add("next %d" % h, kind="next")
                    rel(4)
                    H.clean = True
                    H.cleanup_from = len(H.ev)
                    out.append(H)
    return out


def c03_held_histories(rng):
    """the callers are busy elsewhere (harness ops `hold` .. `unhold`: the front-end futures are not polled) while the server
    answers some / all of the requests on the wire (own ids, any order) and the connection then dies (receive error,
    unparseable frame, response bearing no pending id); control variant without the fatal event.  A request answered before
    the fatal event completes with its answer, the others with the disconnect error; a call issued afterwards fails with it too."""
    out = []
    for idstr in (0, 1):
        for shape in ("call1", "call2", "call3", "batch", "sub"):
            for fatal in ("fault", "garbage", "unknown-id", "none"):
                for ans in ("all", "some"):
                    H = new_hist(rng, idstr=idstr, qcap=16, bufcap=4, gate=0)
                    todo = []
                    for _ in range(int(shape[4:]) if shape.startswith("call") else 1):
                        H.op_call()
                        todo.append(("call", H.h))
                    if shape == "batch":
                        H.op_batch()
                        todo.append(("batch", H.h))
                    elif shape == "sub":
                        H.op_sub()
                        todo.append(("sub", H.h))
                    H.add("hold", kind="hold")
                    rng.shuffle(todo)
                    if ans == "some":
                        todo = todo[:rng.randrange(0, len(todo))] if len(todo) > 1 and rng.random() < 0.5 else todo[:max(1, len(todo) - 1)]
                    for kind, h in todo:
                        if kind == "call":
                            answer_call_h(H, h, ok=rng.random() < 0.75)
                        elif kind == "sub":
                            accept_sub_h(H, h)
                        else:
                            lo, n = H.batches.pop(h)
                            ids = list(range(lo, lo + n))
                            rng.shuffle(ids)
                            objs = [H.resp_ok(i) if rng.random() < 0.8 else H.resp_err(i) for i in ids]
                            H.back(J(objs), what="batch-answer", h=h, lo=lo, n=n, mode="perm", objs=objs, items=[])
                    if fatal == "fault":
                        H.add("fault", kind="fault")
                    elif fatal == "garbage":
                        H.back(rng.choice([b"hello", b"{}", b"[]", b'{"id":1.5,"result":1}']), what="bad-garbage")
                    elif fatal == "unknown-id":
                        H.back(H.resp_ok(H.next_id + 50), what="bad-unknown-id")
                    H.dead = fatal != "none"
                    H.add("unhold", kind="unhold")
                    H.op_call()
                    if fatal == "none":
                        answer_call_h(H, H.h)
                    H.clean = False
                    H.held = True
                    out.append(H)
    return out
