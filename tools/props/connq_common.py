"""Connection-level back-pressure part of C04: engine `connq` -- ONE connection's bounded outgoing queue (MethodSink over
a tokio mpsc of capacity message_buffer_capacity) shared by several subscriptions and calls, with accept / reject /
send parked on a full queue and cancelled (harness/src/bin/connq.rs: the callbacks of an RpcModule driven the way the WS
transport drives them, no server) vs coq/Model/ConnQueue.v (modelrun/connq_driver.ml).

Case line:  `<cap> | step step ...`
    S<c> subscribe (handle = number of the S, from 0; subscription id 1000 + handle)      c<c> ordinary call
    a<h> accept   j<h>:<code> reject   s<h>:<x> send   t<h>:<x> try_send   u<c>:<h> unsubscribe call for handle h
    x<h> the handler drops the future it is parked in; x<h>:n|o<x>|e<x> ... and returns that closing value in the same poll
    r<h>:n|o<x>|e<x> the handler returns None / Notif(x) / NotifErr(x)      w the writer takes one frame      C connection gone
Output: one group per step (` ; `), see the header of harness/src/bin/connq.rs.
Conventions of the generator that the oracle relies on (they are properties of the INPUT): payloads of items are
1..899 and never repeated, closing values are >= 900 and never repeated, call ids are never repeated."""
import json, os, re
import vlib

METHOD = "note"
ID_BASE = 1000
CLOSING_BASE = 900


def impl_bin():
    """VERIF_CONNQ_BIN overrides the implementation binary (a harness copy built against another tree)."""
    return os.environ.get("VERIF_CONNQ_BIN") or vlib.rust_bin("connq")


# ------------------------------------------------------------------------------------------------------ generator
class _Ids:
    """fresh call ids / payloads / closing values"""

    def __init__(self):
        self.c, self.x, self.k, self.subs = 0, 0, CLOSING_BASE - 1, 0

    def call(self):
        self.c += 1
        return self.c

    def item(self):
        self.x += 1
        return self.x

    def closing(self):
        self.k += 1
        return self.k


def _exhaustive(maxlen, maxsubs):
    """every script of 1..maxlen steps over <= maxsubs subscriptions; fresh ids/payloads are drawn in order"""
    out = []

    def rec(prefix, nsubs, c, x, k):
        if prefix:
            out.append(prefix)
        if len(prefix) == maxlen:
            return
        if nsubs < maxsubs:
            rec(prefix + ["S%d" % (c + 1)], nsubs + 1, c + 1, x, k)
        for h in range(nsubs):
            rec(prefix + ["a%d" % h], nsubs, c, x, k)
            rec(prefix + ["j%d:5" % h], nsubs, c, x, k)
            rec(prefix + ["s%d:%d" % (h, x + 1)], nsubs, c, x + 1, k)
            rec(prefix + ["t%d:%d" % (h, x + 1)], nsubs, c, x + 1, k)
            rec(prefix + ["x%d" % h], nsubs, c, x, k)
            rec(prefix + ["x%d:e%d" % (h, k + 1)], nsubs, c, x, k + 1)
            rec(prefix + ["r%d:n" % h], nsubs, c, x, k)
            rec(prefix + ["r%d:o%d" % (h, k + 1)], nsubs, c, x, k + 1)
            rec(prefix + ["r%d:e%d" % (h, k + 1)], nsubs, c, x, k + 1)
            rec(prefix + ["u%d:%d" % (c + 1, h)], nsubs, c + 1, x, k)
        rec(prefix + ["c%d" % (c + 1)], nsubs, c + 1, x, k)
        rec(prefix + ["w"], nsubs, c, x, k)
        rec(prefix + ["C"], nsubs, c, x, k)

    rec([], 0, 0, 0, CLOSING_BASE - 1)
    return out


def _fill(ids, cap, how):
    """steps that leave the queue FULL; -> (steps, number of subscriptions used)"""
    if how == "calls":
        return ["c%d" % ids.call() for _ in range(cap)], 0
    # another subscription's notifications: accept it, let its accepting response out, then fill with items
    steps = ["S%d" % ids.call(), "a0", "w"]
    for i in range(cap):
        steps.append(("s0:%d" if i % 2 == 0 else "t0:%d") % ids.item())
    return steps, 1


def _targeted(ctx):
    """accept / reject parked on a full queue, then given up -- with every closing value, with the queue filled by call
    answers or by another subscription's notifications -- or completed by the writer, or hit by close / unsubscribe"""
    out = []
    closings = ["n", "o", "e"]
    for cap in range(1, ctx.scale(3, 4) + 1):
        for how in ("calls", "notifs"):
            for verb in ("a", "j"):
                for what in ("cancel+ret", "cancel,ret", "cancel", "w-first", "close", "unsub", "cancel,again", "second-behind"):
                    for cl in closings:
                        for drain in (0, 1, cap + 3):
                            if what in ("cancel", "close") and cl != "n":
                                continue
                            ids = _Ids()
                            steps, h = _fill(ids, cap, how)
                            extra_waiter = drain == 1 and cl == "e"       # somebody else already waits in the line
                            if extra_waiter:
                                steps.append("c%d" % ids.call())
                            steps.append("S%d" % ids.call())
                            park = "%s%d" % (verb, h) + (":7" if verb == "j" else "")
                            steps.append(park)
                            cv = cl if cl == "n" else "%s%d" % (cl, ids.closing())
                            if what == "cancel+ret":
                                steps.append("x%d:%s" % (h, cv))
                            elif what == "cancel,ret":
                                steps += ["x%d" % h, "r%d:%s" % (h, cv)]
                            elif what == "cancel":
                                steps += ["x%d" % h, "a%d" % h, "s%d:%d" % (h, ids.item())]
                            elif what == "w-first":
                                steps += ["w"] * (2 if extra_waiter else 1)
                                steps += ["s%d:%d" % (h, ids.item()), "x%d" % h, "r%d:%s" % (h, cv)]
                            elif what == "close":
                                steps += ["C", "r%d:o%d" % (h, ids.closing())]
                            elif what == "unsub":
                                steps += ["u%d:%d" % (ids.call(), h), "x%d:%s" % (h, cv)]
                            elif what == "cancel,again":
                                steps += ["x%d" % h, "S%d" % ids.call(), "a%d" % (h + 1), "w", "w", "s%d:%d" % (h + 1, ids.item()),
                                          "r%d:%s" % (h + 1, cv)]
                            elif what == "second-behind":
                                steps += ["S%d" % ids.call(), "a%d" % (h + 1), "x%d:%s" % (h, cv), "w", "w", "t%d:%d" % (h + 1, ids.item()),
                                          "r%d:e%d" % (h + 1, ids.closing())]
                            steps += ["w"] * (drain + (cap if drain else 0))
                            out.append((cap, steps))
    return out


def _walk(rng, cap, n):
    """random walk over <= 3 subscriptions, biased by a rough book (bias only; no oracle uses it)"""
    ids = _Ids()
    steps, st, qlen, closed = [], [], 0, False      # st[h] in pending|parked|active|idle|gone
    for _ in range(n):
        r = rng.random()
        live = [h for h, x in enumerate(st) if x != "gone"]
        if (r < 0.12 and len(st) < 3) or not st:
            steps.append("S%d" % ids.call())
            st.append("pending")
            continue
        if r < 0.30:
            steps.append("w")
            qlen = max(0, qlen - 1)
            continue
        if r < 0.42:
            steps.append("c%d" % ids.call())
            qlen = min(cap, qlen + 1)
            continue
        if r < 0.428:
            steps.append("C")
            closed = True
            continue
        if r < 0.49:
            steps.append("u%d:%d" % (ids.call(), rng.randrange(len(st))))
            qlen = min(cap, qlen + 1)
            continue
        h = rng.choice(live) if live and rng.random() < 0.92 else rng.randrange(len(st))
        x = st[h]
        if x == "pending":
            c = rng.random()
            if c < 0.70:
                steps.append("a%d" % h)
                st[h] = "parked" if qlen >= cap and not closed else ("active" if not closed else "gone")
                qlen = min(cap, qlen + 1)
            elif c < 0.85:
                steps.append("j%d:%d" % (h, rng.randrange(1, 99)))
                st[h] = "parked" if qlen >= cap and not closed else "gone"
                qlen = min(cap, qlen + 1)
            else:
                steps.append("r%d:%s" % (h, rng.choice(["n", "o%d" % ids.closing(), "e%d" % ids.closing()])))
                st[h] = "gone"
        elif x == "parked":
            c = rng.random()
            if c < 0.35:
                steps.append("x%d" % h)
                st[h] = "idle"
            elif c < 0.75:
                steps.append("x%d:%s" % (h, rng.choice(["n", "o%d" % ids.closing(), "e%d" % ids.closing()])))
                st[h] = "gone"
            elif c < 0.9:
                steps.append("w")
                qlen = max(0, qlen - 1)
                st[h] = "active"        # a guess
            else:
                steps.append(rng.choice(["a%d", "r%d:n", "s%d:1"]) % h)
        elif x == "active":
            c = rng.random()
            if c < 0.5:
                steps.append("s%d:%d" % (h, ids.item()))
                if qlen >= cap and not closed:
                    st[h] = "sparked"
                qlen = min(cap, qlen + 1)
            elif c < 0.8:
                steps.append("t%d:%d" % (h, ids.item()))
                qlen = min(cap, qlen + 1)
            else:
                steps.append("r%d:%s" % (h, rng.choice(["n", "o%d" % ids.closing(), "e%d" % ids.closing()])))
                st[h] = "gone"
        elif x == "sparked":
            c = rng.random()
            if c < 0.3:
                steps.append("x%d" % h)
                st[h] = "active"
            elif c < 0.5:
                steps.append("x%d:%s" % (h, rng.choice(["n", "o%d" % ids.closing(), "e%d" % ids.closing()])))
                st[h] = "gone"
            else:
                steps.append("w")
                qlen = max(0, qlen - 1)
                st[h] = "active"
        else:   # idle / gone
            steps.append(rng.choice(["a%d", "r%d:e" + str(ids.closing()), "s%d:" + str(ids.item()), "x%d", "r%d:n"]) % h)
            if "r" in steps[-1]:
                st[h] = "gone"
    steps += ["w"] * (cap + rng.randrange(0, 4))
    return steps


def gen_cases(ctx):
    rng = ctx.rng
    cases = []     # (family, cap, steps)
    upto4 = _exhaustive(4, 2)
    five = [s for s in _exhaustive(5, 1) if len(s) == 5]
    for cap in (1, 2):
        cases += [("exhaustive<=4", cap, s) for s in upto4]
    if ctx.thorough or ctx.search_mode:
        five2 = [s for s in _exhaustive(5, 2) if len(s) == 5]
        for cap in (1, 2):
            cases += [("exhaustive=5", cap, s) for s in five2]
        six = [s for s in _exhaustive(6, 1) if len(s) == 6]
        cases += [("sampled=6", 1, s) for s in rng.sample(six, min(len(six), 60000))]
        ctx.extra["connq_exhaustive"] = "all scripts of <= 5 steps (<= 2 subscriptions) for cap 1 and 2; 6-step scripts (1 subscription) sampled for cap 1"
    else:
        for cap in (1, 2):
            cases += [("sampled=5", cap, s) for s in rng.sample(five, min(len(five), 2500))]
        ctx.extra["connq_exhaustive"] = "all scripts of <= 4 steps (<= 2 subscriptions) for cap 1 and 2; 5-step scripts sampled"
    cases += [("parked-accept-family", cap, s) for cap, s in _targeted(ctx)]
    for _ in range(ctx.scale(6000, 40000)):
        cap = rng.choice([1, 1, 1, 2, 2, 3])
        cases.append(("random", cap, _walk(rng, cap, rng.randrange(6, ctx.scale(30, 50)))))
    return [(fam, "%d | %s" % (cap, " ".join(s))) for fam, cap, s in cases]


# ------------------------------------------------------------------------------------------------- direct oracle
def _pairs(pairs):
    keys = [k for k, _ in pairs]
    if len(set(keys)) != len(keys):
        raise ValueError("duplicate key")
    return dict(pairs)


def _plain_number(v):
    return isinstance(v, int) and not isinstance(v, bool)


def parse_case(line):
    head, _, script = line.partition("|")
    return int(head.split()[0]), script.split()


def _closing_of(tok):
    """closing value named by `r<h>:..` / `x<h>:..` -> (kind, x) or None"""
    _, _, c = tok.partition(":")
    if not c or c == "n":
        return None
    return ("result" if c[0] == "o" else "error", int(c[1:]))


def oracle(line, out):
    """C04 on the implementation's output alone.  Returns [(key, detail)]."""
    if out.startswith(("PANIC", "CRASH", "?")) or out.endswith("PANIC"):
        return [("connq-harness-trouble", out[:300])]
    cap, steps = parse_case(line)
    groups = [g.split() for g in out.split(" ; ")] if steps else []
    if len(groups) != len(steps):
        return [("connq-harness-trouble", "expected %d groups: %s" % (len(steps), out[:300]))]
    fails = []
    sub_call = {}        # subscription id -> id of its subscribe call
    handle_of = {}       # subscription id -> handle
    nsubs = 0
    announced = set()    # subscription ids whose successful subscribe response has left the queue
    accept_ok = set()    # handles whose accept returned Ok to the handler
    oklog = {}           # handle -> payloads whose send reported ok, in that order
    parked_send = {}     # handle -> payload of the send that is parked
    returned = {}        # handle -> closing value the handler returned
    got_items = {}       # handle -> payloads delivered
    got_closing = {}     # handle -> number of closing notifications delivered
    early = []           # (position, sid, text) notifications that left the queue before a success response for sid
    acked = 0            # sends acknowledged to a handler as enqueued (accept ok, send ok, try_send ok) ...
    acked_out = 0        # ... and frames of those kinds that have left the queue
    popped = 0
    drained = False
    unsub_call = {}      # id of an unsubscribe call -> subscription id it names
    unsubscribed = set() # subscription ids whose unsubscribe answer `true` has left the queue

    for i, (step, toks) in enumerate(zip(steps, groups)):
        if not toks or not re.fullmatch(r"q(\d+|-)", toks[-1]):
            return [("connq-harness-trouble", "step %d: no queue report: %s" % (i, " ".join(toks)[:200]))]
        if toks[-1] != "q-" and int(toks[-1][1:]) > cap:
            fails.append(("queue-over-capacity", "step %d %s: %s places in use, capacity %d" % (i, step, toks[-1][1:], cap)))
        if step[0] == "S":
            sd = ID_BASE + nsubs
            sub_call[sd], handle_of[sd] = int(step[1:]), nsubs
            nsubs += 1
        if step[0] == "u":
            unsub_call[int(step[1:].partition(":")[0])] = ID_BASE + int(step.partition(":")[2])
        drained = False
        for t in toks[:-1]:
            m = re.fullmatch(r"([ajstxr])(\d+)=(\w+)", t)
            if m:
                l, h, r = m.group(1), int(m.group(2)), m.group(3)
                if l == "a" and r == "ok":
                    accept_ok.add(h)
                    acked += 1
                elif l == "s":
                    if r == "parked":
                        parked_send[h] = int(step.partition(":")[2])
                    elif r == "ok":
                        x = parked_send.pop(h) if h in parked_send else int(step.partition(":")[2])
                        oklog.setdefault(h, []).append(x)
                        acked += 1
                    elif r == "closed":
                        parked_send.pop(h, None)
                elif l == "t" and r == "ok":
                    oklog.setdefault(h, []).append(int(step.partition(":")[2]))
                    acked += 1
                elif l == "x" and r == "done":
                    parked_send.pop(h, None)
                    if ":" in step:
                        returned[h] = _closing_of(step)
                elif l == "r" and r == "done":
                    returned[h] = _closing_of(step)
                continue
            if t == "empty":
                drained = True
                continue
            if t[0] != "F":
                continue
            popped += 1
            try:
                text = bytes.fromhex(t[1:]).decode()
                v = json.loads(text, object_pairs_hook=_pairs)
                assert isinstance(v, dict) and v.get("jsonrpc") == "2.0"
            except Exception as e:  # noqa
                fails.append(("frame-not-as-produced", "step %d: frame is not a JSON-RPC object (%r): %s" % (i, e, t[:200])))
                continue
            if "method" not in v:
                # a response
                if set(v) not in ({"jsonrpc", "id", "result"}, {"jsonrpc", "id", "error"}):
                    fails.append(("frame-not-as-produced", "step %d: not a response: %s" % (i, text[:300])))
                    continue
                if v["id"] in unsub_call and v.get("result") is True:
                    unsubscribed.add(unsub_call[v["id"]])
                for sd, c in sub_call.items():
                    if v["id"] == c and "result" in v:
                        if v["result"] != sd:
                            fails.append(("frame-not-as-produced", "step %d: subscribe call %d answered with result %r, its subscription id is %d" % (i, c, v["result"], sd)))
                        else:
                            if sd in announced:
                                fails.append(("subscribe-answered-twice", "step %d: %s" % (i, text[:300])))
                            announced.add(sd)
                            acked_out += 1
                continue
            p = v.get("params")
            if not (set(v) == {"jsonrpc", "method", "params"} and isinstance(p, dict) and "subscription" in p
                    and set(p) in ({"subscription", "result"}, {"subscription", "error"})):
                fails.append(("frame-not-as-produced", "step %d: not a subscription notification: %s" % (i, text[:300])))
                continue
            sd = p["subscription"]
            if not _plain_number(sd) or sd not in sub_call or v["method"] != METHOD:
                fails.append(("item-foreign-id-or-method", "step %d: subscription %r / method %r: %s" % (i, sd, v["method"], text[:300])))
                continue
            h = handle_of[sd]
            if sd not in announced:
                early.append((i, sd, text))
            kind = "result" if "result" in p else "error"
            x = p[kind]
            if not _plain_number(x):
                fails.append(("frame-not-as-produced", "step %d: payload %r: %s" % (i, x, text[:300])))
                continue
            if kind == "error" or x >= CLOSING_BASE:
                got_closing[h] = got_closing.get(h, 0) + 1
                if returned.get(h) != (kind, x):
                    fails.append(("closing-value-not-as-returned", "step %d: handler %d returned %r, delivered %s" % (i, h, returned.get(h), text[:300])))
                if got_closing[h] > 1:
                    fails.append(("closing-notification-duplicated", "step %d: %s" % (i, text[:300])))
                continue
            acked_out += 1
            if sd in unsubscribed:
                fails.append(("item-after-unsubscribe-response", "step %d: %s left the queue after the answer `true` to the unsubscribe call" % (i, text[:300])))
            seq = got_items.setdefault(h, [])
            want = oklog.get(h, [])
            if len(seq) >= len(want) or want[len(seq)] != x:
                fails.append(("item-reordered-or-lost", "step %d: item %d of subscription %d delivered, expected %s; delivered so far %s, sends that reported ok %s"
                              % (i, x, sd, want[len(seq)] if len(seq) < len(want) else "nothing", seq, want)))
            seq.append(x)
        if acked - acked_out > cap:
            fails.append(("queue-over-capacity", "step %d %s: %d sends acknowledged (accept ok / send ok / try_send ok), %d of those frames written, capacity %d"
                          % (i, step, acked, acked_out, cap)))
        if drained:
            # the queue is empty: everything acknowledged so far must have been delivered
            for h, want in oklog.items():
                if h in parked_send:
                    continue
                if got_items.get(h, []) != want:
                    fails.append(("item-reordered-or-lost", "step %d: queue empty; subscription %d delivered %s, sends that reported ok %s"
                                  % (i, ID_BASE + h, got_items.get(h, []), want)))
    for i, sd, text in early:
        h = handle_of[sd]
        if sd in announced and h in accept_ok:
            fails.append(("notification-before-accept-response", "step %d: %s left the queue before the successful answer to subscribe call %d" % (i, text[:300], sub_call[sd])))
        else:
            fails.append(("never-accepted-subscription-notified",
                          "step %d: %s -- subscribe call %d was %s and the handler's accept %s"
                          % (i, text[:300], sub_call[sd], "answered with success only later" if sd in announced else "never answered with a success result",
                             "returned Ok" if h in accept_ok else "never returned Ok")))
    # dedupe, keep order
    seen, res = set(), []
    for k, d in fails:
        if (k, d) not in seen:
            seen.add((k, d))
            res.append((k, d))
    return res


# ----------------------------------------------------------------------------------------------------------- run
def run_both(lines):
    ri = vlib.run_lines([impl_bin()], lines, shards=vlib.NCPU, min_shard=100, timeout=1500)
    rm = vlib.run_lines([vlib.model_bin("connq")], lines, min_shard=500)
    return ri, rm


def has_notification(out):
    return any(t[:1] == "F" and b'"subscription"' in bytes.fromhex(t[1:]) for t in out.split())


def run(ctx):
    ctx.engines.append("connq (harness/src/bin/connq.rs: the module's subscribe/unsubscribe/method callbacks over ONE bounded MethodSink, "
                       "the harness as the connection's writer, no server, vs modelrun/connq_driver.ml over coq/Model/ConnQueue.v)")
    if os.environ.get("VERIF_CONNQ_BIN"):
        ctx.note("connq implementation binary overridden: " + impl_bin())
    cases = gen_cases(ctx)
    lines = [l for _, l in cases]
    ri, rm = run_both(lines)
    seen = {}
    for (fam, line), a, b in zip(cases, ri, rm):
        ctx.count("cq:" + fam)
        case = {"cq": line, "tag": fam}
        if a != b:
            ctx.fail("diff", "connq-model-differs", case, {"impl": a[:2000], "model": b[:2000]})
        for key, detail in oracle(line, a):
            seen.setdefault(key, []).append((len(line), case, detail))
        parked, cancelled = "=parked" in a, re.search(r"\bx\d+=done", a) is not None
        ctx.count("cq-results:" + ("parked+cancelled" if parked and cancelled else "parked" if parked else "never-parked"))
        ctx.record({"cq": line}, a, nontrivial=has_notification(a), validated=(a == b))
    for key, lst in sorted(seen.items()):
        lst.sort(key=lambda t: t[0])           # the shortest failing script first: it becomes the replay
        for _, case, detail in lst[:100]:
            ctx.fail("oracle", key, case, detail)


def _pretty(out):
    def dec(m):
        return m.group(1) + bytes.fromhex(m.group(2)).decode(errors="replace")
    return re.sub(r"\b(F|R\d+=[smo])([0-9a-f]+)", dec, out)


def replay_case(case):
    line = case["cq"] if isinstance(case, dict) else case
    print("script:", line)
    ri, rm = run_both([line])
    print("impl  ->", _pretty(ri[0]))
    print("model ->", _pretty(rm[0]))
    o = oracle(line, ri[0])
    print("impl == model:", ri[0] == rm[0])
    print("oracle C04 (connection queue):", "holds" if not o else o)
    return 0 if not o and ri[0] == rm[0] else 1
