"""HTTP client side of C12: engine `httpbatch` (real HttpClient against a scripted in-process server) vs Model/HttpBatch.v.
Line protocol (both sides): `<idkind n|s> <pre> <n> <item> ...`, see harness/src/bin/httpbatch.rs."""
import itertools, json
import vlib


def hx(b):
    return b.hex() if b else "-"


def item(k, ok=True, marker=None):
    if ok:
        return "p%d:r%s" % (k, hx(json.dumps(marker if marker is not None else "r-%d" % k).encode()))
    return "p%d:e%d:%s:-" % (k, -32000 - (k % 5), hx(("e-%d" % k).encode()))


def gen(ctx):
    rng = ctx.rng
    cases = []
    nmax = ctx.scale(4, 5)
    for n in range(1, nmax + 1):
        perms = list(itertools.permutations(range(n)))
        if not ctx.thorough and len(perms) > 12:
            perms = rng.sample(perms, 12)
        for perm in perms:
            for pre in (0, 3):
                for idk in ("n", "s"):
                    base = [item(k, ok=rng.random() < 0.8) for k in perm]
                    cases.append(("perm", idk, pre, n, base))
                    if n > 1:
                        j = rng.randrange(n)
                        cases.append(("missing", idk, pre, n, base[:j] + base[j + 1:]))
                    cases.append(("dup", idk, pre, n, base + [item(rng.choice(perm), marker="dup")]))
                    cases.append(("foreign", idk, pre, n, base + [rng.choice(["p%d:r31" % (n + rng.randrange(3)), "n18446744073709551615:r31",
                                                                               "n18446744073709551616:r31", "z:r31", "s%s:r31" % hx(b"x"), "s%s:r31" % hx(b"+1"), "s-:r31"])]))
                    # an element whose id is the EMPTY string (no numeric reading at all) after / before the genuine answers
                    cases.append(("foreign", idk, pre, n, base + ["s-:r%s" % hx(b'"intruder"')]))
                    cases.append(("foreign", idk, pre, n, ["s-:r%s" % hx(b'"intruder"')] + base[1:]))
    # every sequence of n ids from the batch's own range (repeats and omissions together)
    for n in range(1, ctx.scale(4, 5) + 1):
        for seq in itertools.product(range(n), repeat=n):
            tag = "perm" if sorted(seq) == list(range(n)) else "multiset"
            cases.append((tag, rng.choice("ns"), rng.choice([0, 2]), n, [item(k, ok=rng.random() < 0.85) for k in seq]))
    for _ in range(ctx.scale(600, 12000)):
        n = rng.choice([1, 2, 3, 4, 6])
        items = []
        for _ in range(rng.choice([0, n, n, n, n + 1, max(n - 1, 0)])):
            r = rng.random()
            if r < 0.75:
                items.append(item(rng.randrange(n), ok=rng.random() < 0.8))
            elif r < 0.85:
                items.append(item(n + rng.randrange(3)))
            elif r < 0.92:
                items.append("x" + hx(rng.choice([b"1", b"null", b'{"id":0}', b'{"jsonrpc":"2.0","method":"m","params":[]}', b"[]", b'{"id":0,"result":1,"error":{"code":1,"message":""}}',
                                               # ErrorObject in serde's SEQUENCE form [code,message,data] (right length / too short / too long)
                                               b'{"jsonrpc":"2.0","id":0,"error":[-32000,"m",null]}', b'{"id":1,"error":[7,"m",[1]]}',
                                               b'{"jsonrpc":"2.0","id":0,"error":[-32000,"m"]}', b'{"jsonrpc":"2.0","id":0,"error":[-32000,"m",null,1]}',
                                               b'["2.0",0,1]'])))
            else:
                items.append(rng.choice(["z:r31", "x" + hx(b'{"jsonrpc":"2.0","id":1.5,"result":1}'), "s%s:r31" % hx(b"007")]))
        if rng.random() < 0.05:
            items = ["B" + hx(rng.choice([b"", b"[]", b"{}", b"hello", b" \x0c[]", b'{"jsonrpc":"2.0","id":0,"result":1}', b"[1"]))]
        cases.append(("random", rng.choice("ns"), rng.choice([0, 0, 1, 5]), n, items))
    return cases


def oracle(ctx, tag, idk, pre, n, items, out):
    """positional / never shorter / counts, on the implementation's line alone"""
    case = {"line": "%s %d %d %s" % (idk, pre, n, " ".join(items)), "tag": tag}
    if out.startswith(("PANIC", "CRASH", "?")):
        ctx.fail("oracle", "httpbatch-harness-trouble", case, out)
        return
    if not out.startswith("batch:"):
        if tag == "perm":
            ctx.fail("oracle", "http-batch-complete-reply-not-delivered", case, out)
        return
    head, _, body = out[6:].partition(":[")
    ents = body[:-1].split(",") if body[:-1] else []
    s, f = [int(x.split("=")[1]) for x in head.split("/")]
    if len(ents) != n:
        ctx.fail("oracle", "http-batch-wrong-length", case, "batch of %d entries returned %d: %s" % (n, len(ents), out))
    oks = sum(1 for e in ents if e.startswith("ok:"))
    if s != oks or f != len(ents) - oks:
        ctx.fail("oracle", "http-batch-counts-mismatch", case, out)
    for j, e in enumerate(ents):
        mark = None
        if e.startswith("ok:"):
            try:
                mark = json.loads(bytes.fromhex(e[3:]))
            except Exception:
                pass
        elif e.startswith("call:"):
            try:
                mark = bytes.fromhex(e.split(":")[2]).decode()
            except Exception:
                pass
        if isinstance(mark, str) and mark[:2] in ("r-", "e-"):
            try:
                k = int(mark[2:])
            except ValueError:
                continue
            if k != j:
                ctx.fail("oracle", "http-batch-entry-misplaced", case, "entry %d holds the answer to request %d: %s" % (j, k, out))
    # every filled entry must be justified by a reply element bearing THAT entry's own id (the batch's ids are pre..pre+n-1 in
    # the client's id kind) and carrying exactly that payload: an id outside the batch never fills an entry
    if all(":" in it and it[0] in "pnsz" for it in items):
        have = {}

        def numeric(i):
            """the client's own reading of a reply id inside a batch (Id::try_parse_inner_as_number): a number, or a string that
            Rust's u64::from_str accepts (optional '+', ASCII digits, <= u64::MAX); None when it has no such reading"""
            if i[0] == "n":
                return i[1] if i[1] < 2 ** 64 else None
            if i[0] == "s":
                t = i[1][1:] if i[1][:1] == b"+" else i[1]
                if t and all(48 <= c <= 57 for c in t) and int(t) < 2 ** 64:
                    return int(t)
            return None
        for it in items:
            spec, _, payload = it.partition(":")
            have.setdefault(numeric(_spec_id(spec, idk, pre)), []).append(payload)
        have.pop(None, None)
        for j, e in enumerate(ents):
            own = pre + j
            if e.startswith("ok:"):
                if ("r" + e[3:]) not in have.get(own, []):
                    ctx.fail("oracle", "http-batch-entry-filled-with-foreign-answer", case,
                             "entry %d (id %r) reports %s but the reply holds no result %s for that id: %s" % (j, own, e, e[3:], out))
            elif e.startswith("call:") and not e.startswith("call:0::"):
                code, msg = e.split(":")[1:3]
                if not any(pl.startswith("e%s:%s:" % (code, msg or "-")) for pl in have.get(own, [])):
                    ctx.fail("oracle", "http-batch-entry-filled-with-foreign-answer", case,
                             "entry %d (id %r) reports %s but the reply holds no such error for that id: %s" % (j, own, e, out))
    if tag == "perm" and any(not (e.startswith("ok:") or (e.startswith("call:") and not e.startswith("call:0::"))) for e in ents):
        ctx.fail("oracle", "http-batch-complete-reply-has-placeholder", case, out)


def run(ctx):
    impl, model = vlib.rust_bin("httpbatch"), vlib.model_bin("httpbatch")
    cases = gen(ctx)
    lines = ["%s %d %d %s" % (idk, pre, n, " ".join(items)) for _, idk, pre, n, items in cases]
    ri = vlib.run_lines([impl], lines, shards=8, min_shard=300)
    rm = vlib.run_lines([model], lines, min_shard=500)
    for (tag, idk, pre, n, items), line, a, b in zip(cases, lines, ri, rm):
        ctx.count("http:" + tag)
        if a != b:
            ctx.fail("diff", "httpbatch-model-differs", {"line": line, "tag": tag}, {"impl": a, "model": b})
        ctx.record({"http": line}, a, nontrivial=a.startswith("batch:"))
        oracle(ctx, tag, idk, pre, n, items, a)


# ---------------------------------------------------------------------------------------------------------------
# single-call mode (C03 on the HTTP client): `single <idkind> <pre> <item>`; the call's own id is `pre` in the client's kind

def _spec_id(spec, idk, pre):
    """the JSON id an idspec denotes, as a canonical python value ('n', int) / ('s', bytes) / ('z',)"""
    if spec.startswith("p"):
        k = pre + int(spec[1:])
        return ("n", k) if idk == "n" else ("s", str(k).encode())
    if spec.startswith("n"):
        return ("n", int(spec[1:]))
    if spec.startswith("s"):
        return ("s", b"" if spec[1:] == "-" else bytes.fromhex(spec[1:]))
    return ("z",)


def gen_single(ctx):
    rng = ctx.rng
    cases = []
    results = [b"1", b'"r"', b"null", b'{"a":[1,2]}', b"[]", b"false", b'"\\u00e9"', b"1e3"]
    for idk in "ns":
        for pre in (0, 1, 7):
            own = ("n%d" % pre) if idk == "n" else ("s" + hx(str(pre).encode()))
            other_kind = ("s" + hx(str(pre).encode())) if idk == "n" else ("n%d" % pre)
            specs = ["p0", own, "p1", "p2", other_kind, "z", "n%d" % (pre + 1), "s" + hx(b"x"), "s-", "n18446744073709551615",
                     "s" + hx(("0%d" % pre).encode()), "s" + hx((" %d" % pre).encode())]
            for sp in specs:
                for r in results[:4] if not ctx.thorough else results:
                    cases.append(("single", idk, pre, "%s:r%s" % (sp, hx(r))))
                cases.append(("single", idk, pre, "%s:e%d:%s:-" % (sp, -32000 - pre, hx(b"boom"))))
                cases.append(("single", idk, pre, "%s:e7:%s:%s" % (sp, hx(b"m"), hx(b"[1]"))))
            for raw in (b"", b"{}", b"[]", b"hello", b'{"jsonrpc":"2.0","id":%d}' % pre, b'{"jsonrpc":"2.0","method":"m","params":[]}',
                        b'[{"jsonrpc":"2.0","id":%d,"result":1}]' % pre, b' {"jsonrpc":"2.0","id":%d,"result":1}' % pre,
                        b'{"jsonrpc":"2.0","id":%d,"result":1,"error":{"code":1,"message":""}}' % pre, b'{"jsonrpc":"2.0","id":%d.0,"result":1}' % pre,
                        # ErrorObject in serde's SEQUENCE form [code,message,data]
                        b'{"jsonrpc":"2.0","id":%d,"error":[-32000,"boom",null]}' % pre, b'{"jsonrpc":"2.0","id":%d,"error":[-32000,"boom",{"a":1}]}' % pre,
                        b'{"jsonrpc":"2.0","id":%d,"error":[-32000,"boom"]}' % pre, b'{"jsonrpc":"2.0","id":%d,"error":[-32000,"boom",null,1]}' % pre,
                        b'["2.0",%d,1]' % pre):
                cases.append(("single-raw", idk, pre, "B" + hx(raw)))
    for _ in range(ctx.scale(300, 6000)):
        idk, pre = rng.choice("ns"), rng.choice([0, 0, 1, 2, 5, 40])
        sp = rng.choice(["p0", "p0", "p0", "p1", "p3", "z", "n%d" % rng.randrange(0, 8), "s" + hx(str(rng.randrange(0, 8)).encode())])
        if rng.random() < 0.75:
            it = "%s:r%s" % (sp, hx(rng.choice(results)))
        else:
            it = "%s:e%d:%s:%s" % (sp, rng.randrange(-32800, 100), hx(rng.choice([b"", b"m", b"err"])), rng.choice(["-", hx(b"1"), hx(b'"d"')]))
        cases.append(("single", idk, pre, it))
    return cases


def oracle_single(ctx, tag, idk, pre, it, out):
    """C03 on the implementation's line alone: a result is delivered iff the response bears the call's own id, and it is that response's result"""
    case = {"line": "single %s %d %s" % (idk, pre, it), "tag": tag}
    if out.startswith(("PANIC", "CRASH", "?")):
        ctx.fail("oracle", "httpbatch-harness-trouble", case, out)
        return
    if tag != "single":
        return
    spec, _, payload = it.partition(":")
    own = ("n", pre) if idk == "n" else ("s", str(pre).encode())
    mine = _spec_id(spec, idk, pre) == own
    if payload.startswith("r"):
        raw = payload[1:]
        if mine and out != "ok:" + raw:
            ctx.fail("oracle", "http-single-own-answer-not-delivered", case, out)
        if not mine and out.startswith("ok:"):
            ctx.fail("oracle", "http-single-foreign-result-delivered", case, out)
    elif mine and not out.startswith("call:"):
        ctx.fail("oracle", "http-single-own-error-not-delivered", case, out)


def run_single(ctx):
    impl, model = vlib.rust_bin("httpbatch"), vlib.model_bin("httpbatch")
    cases = gen_single(ctx)
    lines = ["single %s %d %s" % (idk, pre, it) for _, idk, pre, it in cases]
    ri = vlib.run_lines([impl], lines, shards=8, min_shard=300)
    rm = vlib.run_lines([model], lines, min_shard=500)
    for (tag, idk, pre, it), line, a, b in zip(cases, lines, ri, rm):
        ctx.count("http:" + tag)
        if a != b:
            ctx.fail("diff", "httpbatch-model-differs", {"line": line, "tag": tag}, {"impl": a, "model": b})
        ctx.record({"http": line}, a, nontrivial=a.startswith(("ok:", "call:")))
        oracle_single(ctx, tag, idk, pre, it, a)
