"""Engine idmt (C12, C03): REAL thread-level concurrency on the client's request-id allocator.

A STRESS TEST in support of the search for a concrete failing schedule, not an enumeration: harness/src/bin/idmt.rs
  mode 1  `<threads> <reservations per thread> <max batch len> <seed>`: OS threads released by one barrier reserve single ids
          and batch ranges at random on ONE jsonrpsee_core::client::RequestIdManager
          -> `overlaps=<n> lost=<n> panics=<n> errors=<n> ; info`
  mode 2  `client <rounds> <seed>`: two OS threads on a multi-thread runtime issue concurrent batch_requests on one real async
          client over an in-memory transport; the scripted peer answers the longer batch first and one entry short
          -> `foreign_answers=<n> wire_overlaps=<n> wrong_len=<n> panics=<n> timeouts=<n> ; info`
Every fact must be zero: that is what C12_id_ranges_disjoint_under_interleaving (Props/C12.v) says for EVERY thread-level
schedule of the allocator as read from the source (tools/translators/id_alloc.py), and what C12_unmatched_reply_fails /
C12_reply_goes_to_owner say about a short reply once ranges are disjoint.

VERIF_IDMT_BIN overrides the binary (a harness copy built against another tree); without it the binary is (re)built here,
because the property modules that call run() do not list it in their BINS."""
import os, random
import vlib

# fact -> (oracle key, what the theorems say)
ALLOC_FACTS = [
    ("overlaps", "batch-id-ranges-overlap-under-contention",
     "C12_id_ranges_disjoint_under_interleaving: for every schedule no id belongs to two of the ranges handed out"),
    ("lost", "ids-lost-under-contention",
     "C12_id_ranges_disjoint_under_interleaving: the counter ends at start + total (every id the counter moved past was handed to someone)"),
    ("panics", "panic-under-contention", "no step of the allocator model panics"),
    ("errors", "id-reservation-error-under-contention",
     "C12_id_ranges_disjoint_under_interleaving: failed = [] below 2^64 ids, every reservation gets a range of the length it asked for"),
]
CLIENT_FACTS = [
    ("foreign_answers", "batch-filled-with-foreign-answers-under-contention",
     "disjoint ranges (C12_id_ranges_disjoint_under_interleaving) + C12_unmatched_reply_fails / C12_reply_goes_to_owner: a reply that is "
     "one entry short is nobody's key, no caller is answered with it; a batch that completes holds the answers to its own entries"),
    ("wire_overlaps", "batch-id-ranges-overlap-under-contention",
     "C12_id_ranges_disjoint_under_interleaving (ids of requests in flight are pairwise distinct): the two batches the peer received share no id"),
    ("wrong_len", "batch-result-length-under-contention", "C12_never_shorter, C12_counts_match"),
    ("panics", "panic-under-contention", "no step of the client model panics"),
]
ENGINE = ("timeouts",)
EXPECTED_ALLOC = "overlaps=0 lost=0 panics=0 errors=0"
EXPECTED_CLIENT = "foreign_answers=0 wire_overlaps=0 wrong_len=0 panics=0 timeouts=0"

RULE = ("THREADS (engine idmt; a STRESS TEST in support of the search for a concrete failing schedule, not an enumeration): mode 1 = "
        "lines `<threads> <reservations per thread> <max batch len> <seed>`: that many OS threads, released by one barrier, reserve single ids "
        "(next_request_id) and batch ranges (next_batch_id_range) at random on ONE RequestIdManager, both id kinds; all ranges are collected, "
        "sorted and scanned: overlaps, counter advance minus ids handed out, panics, errors must all be 0.  mode 2 = lines `client <rounds> <seed>`: "
        "per round a fresh real async client over an in-memory transport on a MULTI-thread runtime, two OS threads released together (spin barrier "
        "inside the future, right in front of the call) issue batch_request A (n entries) and B (n-1 entries); the two batches the peer receives "
        "must not share an id; the scripted peer answers the longer batch first and one entry short (one round in "
        "four: both in full, entries reversed); an Ok result must have the asked length and every value must be the answer to its own entry.  "
        "The expected all-zero lines are what C12_id_ranges_disjoint_under_interleaving says for every schedule of the allocator as classified "
        "from the source (Gen/IdAllocGen.v: every id-taking path is one atomic RMW)")
TRUSTED = [
    "translator tools/translators/id_alloc.py: textual (regex over the comment-stripped source); follows next_request_id / next_batch_id_range into "
    "CurrentId and collects the accesses to the atomic in textual order; one fetch_add / fetch_update / load+compare_exchange loop = RAtomicRmw provided "
    "the manager method has a known shape around it (value flow checked for the fetch_add shape only), load ... store/fetch_add = RLoadThenStore, anything "
    "else (other atomic op, conditional access, other field type, further mention of the counter anywhere in the client crates) = translation error; "
    "atomicity of a single RMW on one atomic object is the Rust/C++11 memory model's guarantee, for any ordering",
    "engine idmt: barrier-released OS threads / a multi-thread tokio runtime, bounded waits (peer 5 s, calls 10 s); a case whose waits ran out is re-run "
    "(3 attempts) before it is reported as engine-problem; a property fact is never retried away",
]
ASSUMPTIONS = [
    "thread-level model of id allocation (Model/IdAlloc.v): the shared counter + per-thread registers; steps = the atomic accesses of each path as "
    "classified from the source; theorems quantify over ALL schedules (lists of (thread, step)) while fewer than 2^64 ids have been taken "
    "(fetch_add wraps silently beyond that); the engine idmt samples real schedules as a stress test and cannot show their absence",
    "partial: only the allocator is modelled at thread level.  Model/ClientMgr.v still takes the ids of an event and enqueues its message in ONE step, "
    "consecutively from next_id (C12_sequential_allocation_is_an_interleaving: that is the allocator's one-thread schedule); under real threads the "
    "messages of two calls may reach the background task in the other order than their ids were reserved, and the two ids of a subscribe call need "
    "not be adjacent - the request manager keys on ids only, but the invariant of Proofs/ClientMgrInv.v is stated with the consecutive counter",
]


def idmt_bin():
    return os.environ.get("VERIF_IDMT_BIN") or vlib.rust_bin("idmt")


def ensure_built(ctx=None):
    if os.environ.get("VERIF_IDMT_BIN"):
        return True
    ok, log = vlib.cargo_build(["idmt"], "release")
    if not ok and ctx is not None:
        ctx.fail("build", "harness-build-failed", ["idmt"], log[-3000:])
    return ok


def cases(ctx):
    """[(line, tag)]; own generator: the case sets of the calling module must not move"""
    rng = random.Random(ctx.seed * 7919 + 1203)
    big = ctx.thorough or ctx.search_mode
    k = 4 if big else 1
    out = [("8 %d 4 %d" % (100000 * k, rng.randrange(1 << 30)), "alloc:8xb4"),
           ("16 %d 8 %d" % (50000 * k, rng.randrange(1 << 30)), "alloc:16xb8"),
           ("2 %d 3 %d" % (400000 * k, rng.randrange(1 << 30)), "alloc:2xb3"),
           ("4 %d 1 %d" % (200000 * k, rng.randrange(1 << 30)), "alloc:4xb1"),
           ("32 %d 16 %d" % (25000 * k, rng.randrange(1 << 30)), "alloc:32xb16"),
           ("3 %d 2 %d" % (250000 * k, rng.randrange(1 << 30)), "alloc:3xb2")]
    for _ in range(ctx.scale(4, 80)):
        t = rng.choice([2, 2, 3, 4, 8, 8, 16, 24])
        n = rng.choice([50000, 100000, 200000]) * k // (1 if t <= 8 else 2)
        b = rng.choice([1, 2, 3, 4, 4, 8, 64])
        out.append(("%d %d %d %d" % (t, n, b, rng.randrange(1 << 30)), "alloc:%dxb%d" % (t, b)))
    for _ in range(ctx.scale(2, 16)):
        out.append(("client %d %d" % (ctx.scale(1500, 5000), rng.randrange(1 << 30)), "client"))
    return out


def parse(out):
    """`k=v k=v ; info` -> (facts dict, info text) or None"""
    head, _, info = out.partition(";")
    d = {}
    for tok in head.split():
        k, eq, v = tok.partition("=")
        if not eq:
            return None
        try:
            d[k] = int(v)
        except ValueError:
            return None
    if not d or "fatal" in d:
        return None
    return d, info.strip()


def run_one(line, timeout=600):
    rc, out = vlib.sh([idmt_bin()], input=line + "\n", timeout=timeout)
    out = out.strip().split("\n")[-1] if out.strip() else ""
    p = parse(out)
    if rc != 0 or p is None:
        return None, None, "rc=%d %s" % (rc, out[-300:])
    return p[0], p[1], out


def facts_of(line):
    return CLIENT_FACTS if line.startswith("client") else ALLOC_FACTS


def expected_of(line):
    return EXPECTED_CLIENT if line.startswith("client") else EXPECTED_ALLOC


def canonical(line, d):
    keys = ("foreign_answers", "wire_overlaps", "wrong_len", "panics", "timeouts") if line.startswith("client") else ("overlaps", "lost", "panics", "errors")
    if any(k not in d for k in keys):
        return None
    return " ".join("%s=%d" % (k, d[k]) for k in keys)


def run(ctx):
    """call LAST in a module's run(): ctx.record draws from ctx.rng"""
    if not ensure_built(ctx):
        return
    ctx.engines.append("idmt (harness/src/bin/idmt.rs: stress test, barrier-released OS threads on one RequestIdManager + two threads on a real async "
                       "client over an in-memory transport, multi-thread runtime; expected facts = the all-zero lines derived from "
                       "C12_id_ranges_disjoint_under_interleaving)")
    cs = cases(ctx)
    reservations = unpinned = 0
    for line, tag in cs:
        ctx.count("idmt:" + tag)
        d = info = raw = None
        for attempt in range(3):
            d, info, raw = run_one(line)
            # only waits that ran out are retried; a property fact is never retried away
            if d is not None and (any(d.get(k) for k, _, _ in facts_of(line)) or not any(d.get(k) for k in ENGINE)):
                break
        case = {"idmt": line, "tag": tag}
        if d is None or canonical(line, d) is None:
            ctx.fail("oracle", "engine-problem", case, raw)
            continue
        facts = canonical(line, d)
        hit = False
        for k, key, why in facts_of(line):
            if d.get(k):
                hit = True
                ctx.fail("oracle", key, case, "%s=%d (%s); expected 0: %s; info: %s" % (k, d[k], facts, why, info))
        if not hit and any(d.get(k) for k in ENGINE):
            ctx.fail("oracle", "engine-problem", case, "%s after 3 attempts; info: %s" % (facts, info))
        inf = dict(t.split("=", 1) for t in info.split() if "=" in t)
        if line.startswith("client"):
            nontrivial = int(inf.get("ok", "0")) > 0 and int(inf.get("failed", "0")) > 0
        else:
            nontrivial = int(inf.get("reservations", "0")) > 0
            reservations += int(inf.get("reservations", "0"))
            if inf.get("pinned") == "0":
                unpinned += 1
        ctx.record(case, "idmt %s -> %s" % (line, facts), nontrivial=nontrivial, validated=(facts == expected_of(line)))
    if unpinned:
        ctx.note("idmt: %d allocator cases could not pin their threads to CPUs (sched_setaffinity refused): the scheduler decided where they ran" % unpinned)
    ctx.extra["idmt_cases"] = len(cs)
    ctx.extra["idmt_reservations"] = reservations
    ctx.extra["idmt_rule"] = RULE
    ctx.extra["idmt_trusted"] = TRUSTED
    ctx.extra["idmt_assumptions"] = ASSUMPTIONS


def replay_case(payload):
    line = payload["case"]["idmt"]
    print("stress case:", line)
    if os.environ.get("VERIF_IDMT_BIN"):
        print("implementation binary overridden:", idmt_bin())
    else:
        ensure_built()
    print("expected for every schedule (C12_id_ranges_disjoint_under_interleaving):", expected_of(line))
    bad = 0
    for i in range(10):
        d, info, raw = run_one(line)
        facts = canonical(line, d) if d is not None else None
        hit = facts != expected_of(line)
        bad += hit
        print("run %2d: %s%s" % (i + 1, raw, "   <-- differs" if hit else ""))
    print("the schedule is the OS scheduler's: %d of 10 runs differ from the expected line" % bad)
    return 1 if bad else 0
