"""Shared by c07.py / c08.py: byte builders (serde_json-compatible), the compact `segs` encoding, the srvlimits
runner and the classification of the library's fixed error objects.  Nothing here depends on the Coq model."""
import json, os, re, zlib
import vlib

EPS_WS = ["server", "tower", "wsconnect"]
EPS_HTTP = ["server", "tower", "wsconnect", "httpbuilder", "httpcall"]
HTTP_SOCKET_FREE = ("tower", "httpbuilder", "httpcall")

# the library's fixed error objects (built by MethodResponse::error without a size check), code -> message
FIXED = {
    -32700: "Parse error", -32600: "Invalid request", -32601: "Method not found", -32603: "Internal error",
    -32005: "Batched requests are not supported by this server", -32006: "Too many subscriptions on the connection",
    -32007: "Request is too big", -32008: "Response is too big", -32010: "The batch request was too large",
    -32011: "The batch response was too large",
}
WITH_DATA = {-32006, -32007, -32008, -32010, -32011}


def ser_str(s):
    """serde_json string escaping of a Python str -> bytes"""
    out = bytearray(b'"')
    for ch in s:
        o = ord(ch)
        if ch == '"':
            out += b'\\"'
        elif ch == "\\":
            out += b"\\\\"
        elif o == 8:
            out += b"\\b"
        elif o == 12:
            out += b"\\f"
        elif o == 10:
            out += b"\\n"
        elif o == 13:
            out += b"\\r"
        elif o == 9:
            out += b"\\t"
        elif o < 32:
            out += b"\\u00%02x" % o
        else:
            out += ch.encode("utf-8")
    out += b'"'
    return bytes(out)


def ser_id(i):
    if i is None:
        return b"null"
    if isinstance(i, int):
        return str(i).encode()
    return ser_str(i)


def response_bytes(i, result_raw):
    return b'{"jsonrpc":"2.0","id":' + ser_id(i) + b',"result":' + result_raw + b"}"


def error_bytes(i, code, msg, data_raw=None):
    e = b'{"code":' + str(code).encode() + b',"message":' + ser_str(msg)
    if data_raw is not None:
        e += b',"data":' + data_raw
    return b'{"jsonrpc":"2.0","id":' + ser_id(i) + b',"error":' + e + b"}}"


def exceeded(limit):
    return ser_str("Exceeded max limit of %d" % limit)


def too_big_response(i, limit):
    return error_bytes(i, -32008, FIXED[-32008], exceeded(limit))


def too_big_batch(limit):
    return error_bytes(None, -32011, FIXED[-32011], exceeded(limit))


def too_big_request(limit):
    return error_bytes(None, -32007, FIXED[-32007], exceeded(limit))


def fixed_error_of(b):
    """(code, id) when b is one of the fixed library error objects in the library's own layout, else None"""
    try:
        o = json.loads(b.decode("utf-8"))
    except Exception:
        return None
    if not isinstance(o, dict) or sorted(o) != ["error", "id", "jsonrpc"]:
        return None
    e = o["error"]
    if not isinstance(e, dict) or e.get("code") not in FIXED or e.get("message") != FIXED[e["code"]]:
        return None
    code = e["code"]
    if code in WITH_DATA:
        d = e.get("data")
        if not (isinstance(d, str) and re.fullmatch(r"Exceeded max limit of \d+", d) and sorted(e) == ["code", "data", "message"]):
            return None
        data_raw = ser_str(d)
    else:
        if sorted(e) != ["code", "message"]:
            return None
        data_raw = None
    if b != error_bytes(o["id"], code, FIXED[code], data_raw):
        return None
    return code, o["id"]


# ---------------------------------------------------------------- segs: hex*count+hex*count

def seg(b, n=1):
    return "%s*%d" % (b.hex(), n) if n != 1 else b.hex()


def segs_join(parts):
    parts = [p for p in parts if p and not p.endswith("*0")]
    return "+".join(parts) if parts else "-"


def segs_bytes(s):
    if s == "-" or not s:
        return b""
    out = bytearray()
    for p in s.split("+"):
        if "*" in p:
            h, c = p.split("*")
            out += bytes.fromhex(h) * int(c)
        else:
            out += bytes.fromhex(p)
    return bytes(out)


def segs_parse(s):
    if s == "-" or not s:
        return []
    out = []
    for p in s.split("+"):
        if "*" in p:
            h, c = p.split("*")
            out.append((bytes.fromhex(h), int(c)))
        else:
            out.append((bytes.fromhex(p), 1))
    return out


def segs_len(s):
    return sum(len(u) * c for u, c in segs_parse(s))


def _take(runs, n):
    """first n bytes of runs [(unit, count)...] -> (taken runs, remaining runs)"""
    out = []
    runs = list(runs)
    while n > 0 and runs:
        u, c = runs[0]
        ln = len(u) * c
        if ln <= n:
            out.append((u, c))
            n -= ln
            runs.pop(0)
            continue
        full, rem = divmod(n, len(u))
        if full:
            out.append((u, full))
        first = []
        if rem:
            out.append((u[:rem], 1))
            first.append((u[rem:], 1))
            left = c - full - 1
        else:
            left = c - full
        if left:
            first.append((u, left))
        runs = first + runs[1:]
        n = 0
    return out, runs


def segs_split(s, cuts):
    """split the byte string denoted by segs `s` at the (sorted) byte positions `cuts` without expanding it"""
    runs = segs_parse(s)
    parts, prev = [], 0
    for c in cuts:
        t, runs = _take(runs, c - prev)
        parts.append(segs_join([seg(u, k) for u, k in t]))
        prev = c
    parts.append(segs_join([seg(u, k) for u, k in runs]))
    return parts


def digest(b):
    n = len(b)
    head = b[:300].hex() if n else "-"
    tail = "-" if n <= 300 else b[-64:].hex()
    return "%d %08x %s %s" % (n, zlib.crc32(b) & 0xFFFFFFFF, head, tail)


# ---------------------------------------------------------------- request builders (exact total length)

def call_skeleton(i, method, fill=False):
    return b'{"jsonrpc":"2.0","id":' + ser_id(i) + b',"method":"' + method.encode() + b'","params":["'


def sized_message(i, total, lead=0, ws=b" "):
    """A request of exactly `total` bytes as segs, and its kind; the first `lead` bytes are JSON whitespace `ws`.
    echo call padded inside its string parameter when it fits; otherwise a method-less / empty object padded with
    spaces (parsed, answered -32600 / -32601, no handler)."""
    lead = max(0, min(lead, total - 2))
    pre = [seg(ws, lead)] if lead else []
    inner = total - lead
    head = call_skeleton(i, "echo")
    tailb = b'"]}'
    k = inner - len(head) - len(tailb)
    if k >= 0:
        return segs_join(pre + [seg(head), seg(b"x", k), seg(tailb)]), "echo", k + 4   # params text = ["x..."] -> k + 4 bytes
    if inner >= 2:
        return segs_join(pre + [seg(b"{"), seg(b" ", inner - 2), seg(b"}")]), "pad", None
    return seg(b"{"), "pad", None


def small_call(i):
    return seg(call_skeleton(i, "echo") + b'"]}'), "echo", 4


# ---------------------------------------------------------------- running srvlimits

def impl_bin():
    """VERIF_SRVLIMITS_BIN overrides the implementation binary (a harness copy built against another tree)."""
    return os.environ.get("VERIF_SRVLIMITS_BIN") or vlib.rust_bin("srvlimits")


def run_srv(cases, timeout=3000, min_shard=8):
    lines = [json.dumps(c, separators=(",", ":")) for c in cases]
    out = vlib.run_lines([impl_bin()], lines, min_shard=min_shard, timeout=timeout)
    res = []
    for l in out:
        try:
            res.append(json.loads(l))
        except Exception:
            res.append({"error": l[:300], "log": []})
    return res


def frame_bytes(x):
    """reply entry of a ws result -> bytes or None (TIMEOUT / CLOSED / ...)"""
    if not x or not re.fullmatch(r"[0-9a-f]*", x):
        return None
    return bytes.fromhex(x)


# ---------------------------------------------------------------- WS pipeline mode (srvlimits "mode":"pipeline")

GEN_UNIT = "x" * 16


def gen_call(i, nbytes):
    """call of method `gen` whose result is a string of nbytes bytes (a multiple of 16): (segs, request length, expected response bytes)"""
    count = nbytes // len(GEN_UNIT)
    req = b'{"jsonrpc":"2.0","id":%d,"method":"gen","params":[%d,"%s"]}' % (i, count, GEN_UNIT.encode())
    # GEN_UNIT needs no escaping: the serialised string is the text between quotes (ser_str char by char is too slow for MiBs)
    return seg(req), len(req), response_bytes(i, b'"' + GEN_UNIT.encode() * count + b'"')


def socket_absorb_bytes():
    """upper bound of what a loop-back TCP connection holds between a writer and a peer that does not read: the send
    buffer can grow to tcp_wmem[2] (auto-tuning), the receive buffer is the small SO_RCVBUF the client asked for"""
    try:
        with open("/proc/sys/net/ipv4/tcp_wmem") as f:
            return int(f.read().split()[2])
    except Exception:
        return 4 * 1024 * 1024


def pipeline_frame(x):
    """entry of a pipeline-mode `replies` list -> dict(kind="frame", len, crc, head bytes, full bytes or None) or dict(kind="marker", text)"""
    if x.startswith("L:"):
        _, ln, crc, head = x.split(":")
        return {"kind": "frame", "len": int(ln), "crc": int(crc, 16), "head": bytes.fromhex(head), "bytes": None}
    b = frame_bytes(x)
    if b is None:
        return {"kind": "marker", "text": x}
    return {"kind": "frame", "len": len(b), "crc": zlib.crc32(b) & 0xFFFFFFFF, "head": b[:96], "bytes": b}


def frame_numeric_id(head):
    m = re.match(rb'\{"jsonrpc":"2\.0","id":(\d+),"(result|error)":', head)
    return int(m.group(1)) if m else None


# ---------------------------------------------------------------- WS frag mode (srvlimits "mode":"frag")

FRAG_BARRIER = 9999999


def frag_barrier_call(i=FRAG_BARRIER):
    """the call srvlimits writes after the last message of a frag-mode case (answered -32601, no handler)"""
    return b'{"jsonrpc":"2.0","id":%d,"method":"nosuch"}' % i


def client_header_len(n):
    """header of a masked client frame with the minimal length encoding (what srvlimits writes)"""
    return 6 if n < 126 else (8 if n <= 0xFFFF else 14)


def frag_wire(items):
    """items of one frag-mode message -> [(kind, payload length)] in wire order; kind in t0 t1 c0 c1 p o r
    (plain segs = fragments: Text first, Continuation afterwards, FIN on the last; pauses are dropped)"""
    plain = [k for k, it in enumerate(items) if ":" not in it]
    out, seen = [], False
    for k, it in enumerate(items):
        if ":" not in it:
            out.append((("c" if seen else "t") + ("1" if k == plain[-1] else "0"), segs_len(it)))
            seen = True
            continue
        pre, rest = it.split(":", 1)
        if pre == "S":
            continue
        out.append(({"T0": "t0", "T1": "t1", "C0": "c0", "C1": "c1", "P": "p", "O": "o", "R": "r"}[pre], segs_len(rest)))
    return out


def wire_bytes(kind, n):
    return n if kind == "r" else client_header_len(n) + n


def frag_items_of(m):
    return m if isinstance(m, list) else m["items"]


def frag_frame(x):
    """entry of a frag-mode reply list -> ("text", bytes) | ("pong", bytes) | ("marker", str)"""
    b = frame_bytes(x)
    if b is not None:
        return "text", b
    if x.startswith("PONG:"):
        return "pong", bytes.fromhex(x[5:])
    return "marker", x
