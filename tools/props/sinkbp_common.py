"""Back-pressure part of C04: engine `sinkbp` -- one subscription's SubscriptionSink over the bounded mpsc channel of
`Methods::raw_json_request` / `Methods::subscribe` (harness/src/bin/sinkbp.rs, no server) vs coq/Model/SinkQueue.v
(modelrun/sinkbp_driver.ml).

Case line:  `<cap> <-|s<hex>> <raw|sub> | op op ...`   (ops: s<x> t<x> o<x> fresh message x through send / try_send /
send_timeout, kept in slot x when it is handed back; Rs<k> Rt<k> Ro<k> re-send of slot k; r recv; c close).
`-`: the implementation draws a numeric subscription id at random and reports it as the first token `id=<n>`; the model
is run second, on the same line with `-` replaced by that id.
`s<hex>`: a STRING subscription id (hex of its UTF-8 text) handed out by a custom IdProvider that the harness installs
(SubscriptionState { id_provider, .. }, raw mode only); both sides report `id=j<hex of the id as JSON text>` = the
`result` of the accepting response.  The pool STRING_IDS holds ids that need JSON escaping."""
import json, os
import vlib

METHOD = "note"


def impl_bin():
    """VERIF_SINKBP_BIN overrides the implementation binary (a harness copy built against another tree)."""
    return os.environ.get("VERIF_SINKBP_BIN") or vlib.rust_bin("sinkbp")


# string subscription ids a custom IdProvider may hand out (jsonrpsee_core::traits::IdProvider -> SubscriptionId::Str)
STRING_IDS = [
    "plain-id_01",
    "rack\\node-0",                # backslash followed by a letter that is a JSON escape (\n)
    "DOMAIN\\user",                # backslash followed by a letter that is NOT a JSON escape (\u needs 4 hex digits)
    'a"b',
    "line\nfeed",
    "tab\there",
    "\u00e9",                       # e acute, two bytes of UTF-8
    "sub-\U0001F600-\u4e16",       # emoji (4 bytes) + CJK (3 bytes)
    "",
    "x" * 199 + "\\",              # 200 characters, the last one needs escaping
    "\b", "\f", "\n", "\r", "\t", '"', "\\",      # the seven characters with a short escape
    "\x01", "a\x1fb", "\x00",      # need \u00XX
    "\x7f",                        # DEL: not escaped by serde
    "/",                           # solidus: may be escaped in JSON, serde does not
    "\\u0041",                     # the TEXT backslash-u-0-0-4-1: unescaped it would read back as "A"
    '\\"',                         # backslash + quote
    "1000",                        # a string that looks like a number: must stay a string
    " lead and trail ",
]


def sid_field(s):
    return "s" + s.encode().hex()


# ------------------------------------------------------------------------------------------------------ generator
def _exhaustive(maxlen):
    """every script of 1..maxlen ops: a fresh send takes the next unused payload, a re-send names any earlier payload"""
    out = []

    def rec(prefix, nfresh):
        if prefix:
            out.append(prefix)
        if len(prefix) == maxlen:
            return
        x = nfresh + 1
        for p in "sto":
            rec(prefix + [p + str(x)], nfresh + 1)
        for k in range(1, nfresh + 1):
            for p in "sto":
                rec(prefix + ["R%s%d" % (p, k)], nfresh)
        rec(prefix + ["r"], nfresh)
        rec(prefix + ["c"], nfresh)

    rec([], 0)
    return out


def _targeted(ctx):
    """fill the queue, a send_timeout / try_send fails (twice), recv k items, re-send the held message through each path,
    more sends, drain; with an optional close at each of the seams"""
    out = []
    for cap in range(1, ctx.scale(3, 4) + 1):
        fillers = ["s", "t", "o"]
        for fi, fill in enumerate(fillers):
            for fail in "to":
                for k in range(0, cap + 1):
                    for rp in "sto":
                        for extra in range(0, ctx.scale(2, 3)):
                            for close_at in (None, "before-resend", "after-resend", "before-fail"):
                                if close_at is not None and (fi != 0 or extra > 1):
                                    continue
                                ops = [fill + str(i + 1) for i in range(cap)]
                                a, b = cap + 1, cap + 2
                                if close_at == "before-fail":
                                    ops.append("c")
                                ops += [fail + str(a), ("o" if fail == "t" else "t") + str(b)]
                                ops += ["r"] * k
                                if close_at == "before-resend":
                                    ops.append("c")
                                ops += ["R%s%d" % (rp, a), "R%s%d" % (rp, b), "R%s%d" % (rp, b)]
                                if close_at == "after-resend":
                                    ops.append("c")
                                for e in range(extra):
                                    ops.append("sto"[(e + fi) % 3] + str(cap + 3 + e))
                                ops += ["r"] * (cap + 3)
                                ops += ["R%s%d" % ("t", a), "R%s%d" % ("o", b), "r", "r"]
                                out.append((cap, ops))
    return out


def _walk(rng, cap, n):
    """random walk, biased by a rough book of what is probably queued / held (bias only; no oracle uses it)"""
    ops, qlen, closed, held, nx = [], 0, False, [], 0
    for _ in range(n):
        r = rng.random()
        if r < 0.40 or (r < 0.62 and not held):
            nx += 1
            p = rng.choice("sttooo" if qlen >= cap else "ssttoo")
            ops.append(p + str(nx))
            if closed or (qlen >= cap and p != "s"):
                held.append(nx)
            elif qlen < cap:
                qlen += 1
        elif r < 0.62:
            k = rng.choice(held) if rng.random() < 0.9 else rng.randrange(1, nx + 2)
            p = rng.choice("sto")
            ops.append("R%s%d" % (p, k))
            if k in held and not closed and (qlen < cap or p == "s"):
                held.remove(k)          # accepted, or lost with the dropped `send` future
                if qlen < cap:
                    qlen += 1
        elif r < 0.96:
            ops.append("r")
            qlen = max(0, qlen - 1)
        else:
            ops.append("c")
            closed = True
    return ops


def _targeted_short():
    """the seams of the fill/fail/recv/re-send family in their shortest form, one script per (capacity, failing path,
    re-send path, close or not): used with every string id of the pool"""
    out = []
    for cap in (1, 2):
        for fail in "to":
            for rp in "sto":
                for close in (False, True):
                    ops = ["s%d" % (i + 1) for i in range(cap)] + [fail + str(cap + 1), "r"]
                    if close:
                        ops.append("c")
                    ops += ["R%s%d" % (rp, cap + 1)] + ["r"] * (cap + 1)
                    out.append((cap, ops))
    return out


def gen_cases(ctx):
    rng = ctx.rng
    cases = []     # (family, cap, mode, ops) with a numeric id drawn by the library | (family, cap, mode, ops, string id)
    short = _exhaustive(3)
    for cap in (1, 2):
        cases += [("exhaustive<=3", cap, "raw", ops) for ops in short]
    # string ids: every id of the pool with all scripts of <= 2 ops and with the short targeted scripts; all scripts of
    # <= 3 ops with the ids of the pool in turn
    two = [o for o in short if len(o) <= 2]
    tshort = _targeted_short()
    for sid in STRING_IDS:
        cases += [("string-id:exhaustive<=2", 1, "raw", ops, sid) for ops in two]
        cases += [("string-id:fill-fail-recv-resend", cap, "raw", ops, sid) for cap, ops in tshort]
    n = 0
    for cap in (1, 2):
        for ops in short:
            cases.append(("string-id:exhaustive<=3", cap, "raw", ops, STRING_IDS[n % len(STRING_IDS)]))
            n += 1
    four = [o for o in _exhaustive(4) if len(o) == 4]
    if ctx.thorough or ctx.search_mode:
        for cap in (1, 2):
            cases += [("exhaustive=4", cap, "raw", ops) for ops in four]
        five = [o for o in _exhaustive(5) if len(o) == 5]
        cases += [("exhaustive=5", 1, "raw", ops) for ops in five]
        cases += [("sampled=5", 2, "raw", ops) for ops in rng.sample(five, 6000)]
        ctx.extra["sinkbp_exhaustive"] = "all scripts of <= 4 ops for cap 1 and 2, all scripts of 5 ops for cap 1"
    else:
        for cap in (1, 2):
            cases += [("sampled=4", cap, "raw", ops) for ops in rng.sample(four, 250)]
        ctx.extra["sinkbp_exhaustive"] = "all scripts of <= 3 ops for cap 1 and 2; 4-op scripts sampled"
    for i, (cap, ops) in enumerate(_targeted(ctx)):
        cases.append(("fill-fail-recv-resend", cap, "sub" if i % 4 == 3 else "raw", ops))
        if i % ctx.scale(12, 3) == 1:
            cases.append(("string-id:fill-fail-recv-resend", cap, "raw", ops, STRING_IDS[(i // 3) % len(STRING_IDS)]))
    for i in range(ctx.scale(400, 8000)):
        cap = rng.choice([1, 1, 2, 2, 3, 4])
        cases.append(("random", cap, "sub" if i % 4 == 3 else "raw", _walk(rng, cap, rng.randrange(5, ctx.scale(28, 48)))))
    for i in range(ctx.scale(100, 2000)):
        cap = rng.choice([1, 1, 2, 2, 3, 4])
        cases.append(("string-id:random", cap, "raw", _walk(rng, cap, rng.randrange(5, ctx.scale(28, 48))), rng.choice(STRING_IDS)))
    return [(c[0], "%d %s %s | %s" % (c[1], sid_field(c[4]) if len(c) > 4 else "-", c[2], " ".join(c[3]))) for c in cases]


# ------------------------------------------------------------------------------------------------- direct oracle
def _pairs(pairs):
    keys = [k for k, _ in pairs]
    if len(set(keys)) != len(keys):
        raise ValueError("duplicate key")
    return dict(pairs)


def _plain_number(v):
    return isinstance(v, int) and not isinstance(v, bool)


def _same_id(a, b):
    """decoded subscription ids are equal: both plain numbers or both strings, and the same value"""
    if _plain_number(a) and _plain_number(b):
        return a == b
    return isinstance(a, str) and isinstance(b, str) and a == b


def _strict_json(text):
    """RFC 8259 as a client reads it: duplicate keys refused, raw control characters inside strings refused"""
    return json.loads(text, object_pairs_hook=_pairs, strict=True)


def _frame(tok, sid, produced):
    """-> (payload or None, failure key or None, detail) for one received frame token (or C<hex>: the full text of a
    handed-back message); `sid` is the DECODED id of the accepting response"""
    if tok.startswith(("F", "C")):
        try:
            text = bytes.fromhex(tok[1:]).decode()
            v = _strict_json(text)
        except Exception as e:  # noqa
            return None, "sink-item-not-as-produced", "frame is not JSON (%r): %s" % (e, tok[:200])
        if not (isinstance(v, dict) and set(v) == {"jsonrpc", "method", "params"} and v["jsonrpc"] == "2.0"
                and isinstance(v["params"], dict) and set(v["params"]) == {"subscription", "result"}):
            return None, "sink-item-not-as-produced", "frame is not a subscription notification with exactly jsonrpc/method/params{subscription,result}: " + text[:300]
        res, fsid, meth = v["params"]["result"], v["params"]["subscription"], v["method"]
    elif tok.startswith("I"):
        s, _, h = tok[1:].partition(":")
        try:
            fsid = json.loads(s)
            res = json.loads(bytes.fromhex(h).decode(), object_pairs_hook=_pairs)
        except Exception as e:  # noqa
            return None, "sink-item-not-as-produced", "item is not JSON (%r): %s" % (e, tok[:200])
        meth, text = METHOD, tok      # Subscription::next does not show the method
    else:
        return None, "sink-item-not-as-produced", "undecodable frame: " + tok[:200]
    if not _plain_number(res) or res not in produced:
        return None, "sink-item-not-as-produced", "result %s is not a payload the handler produced %s: %s" % (json.dumps(res)[:200], sorted(produced), text[:300])
    if not _same_id(fsid, sid) or meth != METHOD:
        return res, "sink-item-foreign-id-or-method", "subscription %r / method %r, expected %r / %s: %s" % (fsid, meth, sid, METHOD, text[:300])
    return res, None, None


def parse_case(line):
    head, _, script = line.partition("|")
    cap, _sid, mode = head.split()
    return int(cap), mode, script.split()


def configured_id(line):
    """the string id the case line configures (None: the library draws a number)"""
    f = line.partition("|")[0].split()[1]
    return bytes.fromhex(f[1:]).decode() if f.startswith("s") else None


def decode_id_token(tok):
    """`id=<n>` | `id=j<hex of JSON text>` -> the decoded id of the accepting response"""
    t = tok[3:]
    if t.startswith("j"):
        v = _strict_json(bytes.fromhex(t[1:]).decode())
        if not isinstance(v, str):
            raise ValueError("not a string")
        return v
    if not t.isdigit():
        raise ValueError("not a number")
    return int(t)


def oracle(line, out):
    """C04 on the implementation's output alone.  Returns [(key, detail)]."""
    if out.startswith("PANIC"):
        try:
            msg = bytes.fromhex(out[5:].strip()).decode(errors="replace")
        except ValueError:
            msg = out
        return [("sink-panic", "a task panicked while the script ran: " + msg[:300])]
    if out.startswith(("CRASH", "?")):
        return [("sinkbp-harness-trouble", out[:300])]
    cap, mode, ops = parse_case(line)
    toks = out.split()
    if not toks or not toks[0].startswith("id=") or len(toks) != len(ops) + 1:
        return [("sinkbp-harness-trouble", "expected id + %d tokens: %s" % (len(ops), out[:300]))]
    try:
        sid = decode_id_token(toks[0])
    except Exception as e:  # noqa
        return [("sink-accepting-response-id-undecodable", "%r: %s" % (e, toks[0][:300]))]
    fails = []
    want = configured_id(line)
    if want is not None and not _same_id(sid, want):
        fails.append(("sink-accepted-id-not-the-provider's", "accepting response names %r, the IdProvider returned %r" % (sid, want)))
    book = {}            # slot -> payload of the message the handler keeps there
    produced = set()
    ok_seq = []          # payloads of the sends that reported ok, in order of success
    ok_after_close = set()
    rcv = []             # payload of every frame received, None for a frame that is not a produced item
    lost = []
    closed = False

    def succeeded(x, i):
        ok_seq.append(x)
        if closed:
            ok_after_close.add(x)
            fails.append(("sink-send-accepted-after-close", "op %d: payload %d accepted after close" % (i, x)))
        if len(ok_seq) - len(rcv) > cap:
            fails.append(("sink-queue-over-capacity", "op %d: %d sends accepted, %d frames received, capacity %d" % (i, len(ok_seq), len(rcv), cap)))

    def handed_back(i, tok, x):
        """the message a failed send hands back is the handler's payload x, or the full notification of x with the
        subscription's own id and method"""
        m = tok.partition("=")[2]
        if m.startswith("N"):
            if m[1:] != str(x).encode().hex():
                fails.append(("sink-item-not-as-produced", "op %d: handed back %s, produced %d" % (i, m[:80], x)))
        else:
            y, key, detail = _frame(m, sid, {x})
            if key:
                fails.append((key, "op %d (handed back): %s" % (i, detail)))

    for i, (op, tok) in enumerate(zip(ops, toks[1:])):
        kind = tok.split("=")[0]
        if op[0] in "sto":
            x = int(op[1:])
            produced.add(x)
            if kind == "ok":
                succeeded(x, i)
            elif kind in ("full", "timeout", "closed"):
                book[x] = x
                handed_back(i, tok, x)
            elif kind != "wouldblock":
                fails.append(("sinkbp-harness-trouble", "op %d %s -> %s" % (i, op, tok[:80])))
        elif op[0] == "R":
            k = int(op[2:])
            if k not in book:
                if kind != "na":
                    fails.append(("sinkbp-harness-trouble", "op %d %s: slot holds nothing but -> %s" % (i, op, tok[:80])))
                continue
            x = book.pop(k)
            if kind == "ok":
                succeeded(x, i)
            elif kind in ("full", "timeout", "closed"):
                book[k] = x
                handed_back(i, tok, x)
            elif kind != "wouldblock":
                fails.append(("sinkbp-harness-trouble", "op %d %s -> %s" % (i, op, tok[:80])))
        elif op == "c":
            closed = True
        elif op == "r":
            if tok in ("empty", "end"):
                if len(rcv) < len(ok_seq) and not lost:
                    lost.append(i)
                    fails.append(("sink-items-reordered-or-lost", "op %d: receiver finds nothing, but %s accepted and only %s received" % (i, ok_seq, rcv)))
                continue
            x, key, detail = _frame(tok, sid, produced)
            if key:
                fails.append((key, "op %d: %s" % (i, detail)))
            if x is None:
                rcv.append(None)        # an undecodable frame still took one place of the queue and one turn of the order
                continue
            if x in ok_after_close:
                fails.append(("sink-item-after-close", "op %d: payload %d was sent after close and is delivered" % (i, x)))
            if x in rcv:
                fails.append(("sink-item-duplicated", "op %d: payload %d delivered again; received %s, accepted %s" % (i, x, rcv, ok_seq)))
            elif len(rcv) >= len(ok_seq) or ok_seq[len(rcv)] != x:
                fails.append(("sink-items-reordered-or-lost", "op %d: payload %d delivered, expected %s; received %s, accepted %s" % (
                    i, x, ok_seq[len(rcv)] if len(rcv) < len(ok_seq) else "nothing", rcv, ok_seq)))
            rcv.append(x)
    return fails


# ----------------------------------------------------------------------------------------------------------- run
def model_lines(lines, impl_out):
    """the model's input: the same line with the subscription id the implementation reported"""
    res = []
    for l, a in zip(lines, impl_out):
        t = a.split(" ", 1)[0]
        sid = t[3:] if t.startswith("id=") and t[3:].isdigit() else "0"
        head, _, script = l.partition("|")
        cap, given, mode = head.split()
        res.append("%s %s %s |%s" % (cap, given if given.startswith("s") else sid, mode, script))
    return res


def run_both(lines):
    ri = vlib.run_lines([impl_bin()], lines, shards=vlib.NCPU, min_shard=40, timeout=1500)
    rm = vlib.run_lines([vlib.model_bin("sinkbp")], model_lines(lines, ri), min_shard=500)
    return ri, rm


def has_frame(out):
    return any(t[:1] in ("F", "I") for t in out.split())


def run(ctx):
    ctx.engines.append("sinkbp (harness/src/bin/sinkbp.rs: SubscriptionSink over the bounded channel of Methods::raw_json_request / "
                       "Methods::subscribe, no server, vs modelrun/sinkbp_driver.ml over coq/Model/SinkQueue.v)")
    if os.environ.get("VERIF_SINKBP_BIN"):
        ctx.note("sinkbp implementation binary overridden: " + impl_bin())
    cases = gen_cases(ctx)
    lines = [l for _, l in cases]
    ri, rm = run_both(lines)
    seen = {}
    for (fam, line), a, b in zip(cases, ri, rm):
        ctx.count("bp:" + fam)
        case = {"bp": line, "tag": fam}
        if a != b:
            ctx.fail("diff", "sinkbp-model-differs", case, {"impl": a[:1500], "model": b[:1500]})
        for key, detail in oracle(line, a):
            seen.setdefault(key, []).append((len(line), case, detail))
        toks = a.split()
        ctx.count("bp-results:" + ("handed-back+frames" if has_frame(a) and any("=" in t for t in toks[1:]) else
                                   "frames" if has_frame(a) else "handed-back" if any("=" in t for t in toks[1:]) else "neither"))
        ctx.record({"bp": line}, a, nontrivial=has_frame(a), validated=(a == b))
    for key, lst in sorted(seen.items()):
        lst.sort(key=lambda t: t[0])           # the shortest failing script first: it becomes the replay
        for _, case, detail in lst[:100]:
            ctx.fail("oracle", key, case, detail)


def replay_case(case):
    line = case["bp"] if isinstance(case, dict) else case
    print("script:", line)
    ri, rm = run_both([line])
    print("impl  ->", ri[0])
    print("model ->", rm[0])
    o = oracle(line, ri[0])
    print("impl == model:", ri[0] == rm[0])
    print("oracle C04 (back-pressure):", "holds" if not o else o)
    return 0 if not o and ri[0] == rm[0] else 1
