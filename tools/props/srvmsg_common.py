"""Shared by C01 and C02: the `srvmsg` engine (real server, harness/src/bin/srvmsg.rs) against the extracted model
(modelrun/server_driver.ml over coq/Model/Server.v), the registry's handler function restated in Python, a small raw
JSON scanner, and the property-level classification of a message that the direct oracles use.

Nothing in the ORACLE part (classify_message / expected_* / wellformed) looks at the Coq model or its output."""
import json, os, re, sys
import vlib
from gen import jsongen as G

sys.setrecursionlimit(10000)

ASCII_WS = b" \t\n\r\x0c"      # u8::is_ascii_whitespace (the sniffers; includes form feed -- documented leniency)
JSON_WS = b" \t\n\r"
WINDOW = 128

# ---------------------------------------------------------------- registry (as harness/src/bin/srvmsg.rs)
REG = {"echo": "sync", "hexs": "sync", 'x"y': "sync", "parse1": "sync", "aecho": "async",
       "becho": "blocking", "bpanic": "blocking", "sub": "sub", "unsub": "unsub"}
FAIL_MSG = 'failed "q" \\ \n \u00e9\U0001f600'


def handler(method, params):
    """params: raw text (str) or None.  -> ("ok", raw) | ("err", code, message, data_raw|None) | ("badparams",) | ("panic",)"""
    text = params if params is not None else "null"
    has = lambda s: params is not None and s in params
    if method == "unsub":
        return ("ok", "false")
    if method == "sub":
        return ("err", 43, "rejected", None) if has("rej") else ("ok", '"S#1"')
    if method == "parse1":
        try:
            v = json.loads(text, parse_int=lambda s: ("int", s), parse_float=lambda s: ("float", s))
        except Exception:
            return ("badparams",)
        if isinstance(v, list) and len(v) == 1 and isinstance(v[0], tuple) and v[0][0] == "int" \
                and re.fullmatch(r"0|[1-9][0-9]*", v[0][1]) and int(v[0][1]) < 2**64:
            return ("ok", str(int(v[0][1])))
        return ("badparams",)
    if method == "bpanic" and not has("calm"):
        return ("panic",)
    if has("err"):
        return ("err", 42, "handler error in " + method, text)
    if has("fail"):
        code = -2**31 if has("failmin") else 2**31 - 1 if has("failmax") else -32099
        return ("err", code, FAIL_MSG, None)
    if method == "aecho":
        return ("ok", '{"method":"aecho","params":%s}' % text)
    if method in ("becho", "bpanic"):
        return ("ok", "[%s]" % text)
    if method == "hexs":
        return ("ok", '"%s"' % (params or "").encode("utf-8").hex())
    return ("ok", text)


def runs_on(kind, transport):
    """a user handler is invoked for a valid call to a method of this kind over this transport"""
    return kind in ("sync", "async", "blocking") or (kind == "sub" and transport == "ws")


# ---------------------------------------------------------------- raw JSON scanner (spans), lenient like a generic JSON reader
class Bad(Exception):
    pass


def _ws(b, i):
    while i < len(b) and b[i] in JSON_WS:
        i += 1
    return i


_NUM = re.compile(rb"-?(?:0|[1-9][0-9]*)(?:\.[0-9]+)?(?:[eE][+-]?[0-9]+)?")


def _skip(b, i):
    """index after the value starting at b[i] (no leading whitespace)"""
    if i >= len(b):
        raise Bad()
    c = b[i:i + 1]
    if c == b'"':
        j = i + 1
        while True:
            if j >= len(b):
                raise Bad()
            if b[j] == 0x22:
                return j + 1
            if b[j] == 0x5c:
                j += 2
            elif b[j] < 0x20:
                raise Bad()
            else:
                j += 1
    if c in (b"[", b"{"):
        close = b"]" if c == b"[" else b"}"
        j = _ws(b, i + 1)
        if b[j:j + 1] == close:
            return j + 1
        while True:
            if c == b"{":
                j = _ws(b, j)
                if b[j:j + 1] != b'"':
                    raise Bad()
                j = _ws(b, _skip(b, j))
                if b[j:j + 1] != b":":
                    raise Bad()
                j += 1
            j = _ws(b, _skip(b, _ws(b, j)))
            if b[j:j + 1] == b",":
                j += 1
            elif b[j:j + 1] == close:
                return j + 1
            else:
                raise Bad()
    for lit in (b"null", b"true", b"false"):
        if b.startswith(lit, i):
            return i + len(lit)
    m = _NUM.match(b, i)
    if m and m.end() > i:
        return m.end()
    raise Bad()


def array_spans(b):
    """raw element spans of a JSON array text (None if it is not one)"""
    try:
        i = _ws(b, 0)
        if b[i:i + 1] != b"[":
            return None
        j = _ws(b, i + 1)
        out = []
        if b[j:j + 1] == b"]":
            j += 1
        else:
            while True:
                j = _ws(b, j)
                k = _skip(b, j)
                out.append(b[j:k])
                j = _ws(b, k)
                if b[j:j + 1] == b",":
                    j += 1
                elif b[j:j + 1] == b"]":
                    j += 1
                    break
                else:
                    return None
        return out if _ws(b, j) == len(b) else None
    except (Bad, IndexError):
        return None


def member_spans(b):
    """[(raw key text, raw value span)] of a JSON object text (None if it is not one)"""
    try:
        i = _ws(b, 0)
        if b[i:i + 1] != b"{":
            return None
        j = _ws(b, i + 1)
        out = []
        if b[j:j + 1] == b"}":
            j += 1
        else:
            while True:
                j = _ws(b, j)
                if b[j:j + 1] != b'"':
                    return None
                k = _skip(b, j)
                key = b[j:k]
                j = _ws(b, k)
                if b[j:j + 1] != b":":
                    return None
                j = _ws(b, j + 1)
                k = _skip(b, j)
                out.append((key, b[j:k]))
                j = _ws(b, k)
                if b[j:j + 1] == b",":
                    j += 1
                elif b[j:j + 1] == b"}":
                    j += 1
                    break
                else:
                    return None
        return out if _ws(b, j) == len(b) else None
    except (Bad, IndexError):
        return None


# ---------------------------------------------------------------- property-level reading of a message (ORACLE side)
class Obj(list):
    """a JSON object as its member list (order and duplicates kept)"""


def _const(s):
    raise ValueError("NaN/Infinity are not JSON")


def loads(text_bytes):
    """strict-enough JSON -> python value with objects as Obj member lists, ints as ('int', lexeme), floats as
    ('float', lexeme).  Raises on anything that is not JSON text in UTF-8."""
    s = text_bytes.decode("utf-8")
    v = json.loads(s, object_pairs_hook=Obj, parse_int=lambda x: ("int", x), parse_float=lambda x: ("float", x),
                   parse_constant=_const)
    return v


def has_lone_surrogate(v):
    if isinstance(v, str):
        try:
            v.encode("utf-8")
            return False
        except UnicodeEncodeError:
            return True
    if isinstance(v, Obj):
        return any(has_lone_surrogate(k) or has_lone_surrogate(x) for k, x in v)
    if isinstance(v, list):
        return any(has_lone_surrogate(x) for x in v)
    return False


def in_id_domain(v):
    """null, unsigned 64-bit integer, string"""
    if v is None or isinstance(v, str):
        return True
    return isinstance(v, tuple) and v[0] == "int" and re.fullmatch(r"0|[1-9][0-9]*", v[1]) is not None and int(v[1]) < 2**64


def id_value(v):
    """comparable python value of an id in the domain"""
    return int(v[1]) if isinstance(v, tuple) else v


def classify_value(v, raw):
    """The property's reading of ONE JSON value as a message/entry:
         ("call", id, method, params_raw|None) | ("notif",) | ("invalid", id|None, recoverable?)
       raw = the raw text of v (to cut out the params span)."""
    if not isinstance(v, Obj):
        return ("invalid", None, False)
    cnt = lambda k: sum(1 for kk, _ in v if kk == k)
    get = lambda k: next(x for kk, x in v if kk == k)
    id_ok = cnt("id") == 1 and in_id_domain(get("id"))
    shaped = (cnt("jsonrpc") == 1 and get("jsonrpc") == "2.0" and cnt("method") == 1 and isinstance(get("method"), str)
              and cnt("params") <= 1)
    if shaped:
        if id_ok:
            praw = None
            if cnt("params") == 1 and get("params") is not None:
                ms = member_spans(raw)
                praw = next(val for key, val in ms if json.loads(key.decode("utf-8")) == "params")
            return ("call", id_value(get("id")), get("method"), praw)
        # no id member, an id outside the domain, or (documented reading) two or more id members
        return ("notif",)
    return ("invalid", id_value(get("id")) if id_ok else None, id_ok)


def sniffed(msg):
    """('single'|'batch', text after the skipped whitespace) or None when the first non-whitespace byte inside the
    window is neither '{' nor '['"""
    for i, c in enumerate(msg[:WINDOW]):
        if c in ASCII_WS:
            continue
        if c == 0x7b:
            return ("single", msg[i:])
        if c == 0x5b:
            return ("batch", msg[i:])
        return None
    return None


def parse_domain(text):
    """python value of a JSON text, or None if not JSON; raises OutOfDomain for texts the oracle does not judge
    (lone surrogate escapes: accepted leniently inside skipped members)"""
    try:
        text.decode("utf-8")
    except UnicodeDecodeError:
        # structurally JSON but not UTF-8: the server does not validate the encoding of members it skips
        if member_spans(text) is not None or array_spans(text) is not None:
            raise OutOfDomain()
        return None, False
    try:
        v = loads(text)
    except RecursionError:
        raise OutOfDomain()
    except Exception:
        return None, False
    if has_lone_surrogate(v):
        raise OutOfDomain()
    return v, True


class OutOfDomain(Exception):
    pass


# ---------------------------------------------------------------- replies (ORACLE side)
def wellformed(frame):
    """the frame is exactly one JSON-RPC 2.0 response object; returns (ok, id, kind, payload) with payload parsed"""
    try:
        v = loads(frame)
    except Exception:
        return False, None, None, None
    if not isinstance(v, Obj):
        return False, None, None, None
    cnt = lambda k: sum(1 for kk, _ in v if kk == k)
    get = lambda k: next(x for kk, x in v if kk == k)
    if cnt("jsonrpc") != 1 or get("jsonrpc") != "2.0" or cnt("id") != 1 or not in_id_domain(get("id")):
        return False, None, None, None
    if cnt("result") + cnt("error") != 1 or len(v) != 3:
        return False, None, None, None
    if cnt("error"):
        e = get("error")
        if not isinstance(e, Obj):
            return False, None, None, None
        ec = lambda k: sum(1 for kk, _ in e if kk == k)
        eg = lambda k: next(x for kk, x in e if kk == k)
        if ec("code") != 1 or ec("message") != 1 or ec("data") > 1 or any(k not in ("code", "message", "data") for k, _ in e):
            return False, None, None, None
        c = eg("code")
        if not (isinstance(c, tuple) and c[0] == "int" and -2**31 <= int(c[1]) < 2**31) or not isinstance(eg("message"), str):
            return False, None, None, None
        return True, id_value(get("id")), "error", (int(c[1]), eg("message"), eg("data") if ec("data") else NODATA)
    return True, id_value(get("id")), "result", get("result")


NODATA = ("nodata",)


def same_id(a, b):
    return type(a) is type(b) and a == b


def expected_call_reply(transport, method, params_raw):
    """what the property promises for a valid call: ('result', value) | ('error', code, message, data|NODATA|ANY)"""
    kind = REG.get(method)
    if kind is None:
        return ("error", -32601, "Method not found", NODATA)
    if kind in ("sub", "unsub") and transport == "http":
        return ("error", -32603, "Internal error", NODATA)
    p = params_raw.decode("utf-8") if params_raw is not None else None
    r = handler(method, p)
    if r[0] == "ok":
        return ("result", loads(r[1].encode("utf-8")))
    if r[0] == "err":
        return ("error", r[1], r[2], loads(r[3].encode("utf-8")) if r[3] is not None else NODATA)
    if r[0] == "badparams":
        return ("error", -32602, "Invalid params", ANY)
    return ("error", -32603, "Internal error", NODATA)


ANY = ("any",)


def reply_matches(frame, want_id, want):
    """frame is well-formed, carries want_id and the promised payload; returns None or a reason"""
    ok, i, kind, payload = wellformed(frame)
    if not ok:
        return "reply is not a well-formed JSON-RPC 2.0 response object"
    if not same_id(i, want_id):
        return "reply carries id %r, the message's id is %r" % (i, want_id)
    if want[0] == "result":
        if kind != "result" or payload != want[1]:
            return "expected result %r" % (want[1],)
        return None
    if kind != "error" or payload[0] != want[1] or payload[1] != want[2]:
        return "expected error %r %r, got %r" % (want[1], want[2], payload)
    if want[3] is not ANY and payload[2] != want[3]:
        return "expected error data %r, got %r" % (want[3], payload[2])
    return None


def expected_log(transport, calls):
    """handler log promised for the valid calls [(method, params_raw)] in order"""
    out = []
    for method, praw in calls:
        k = REG.get(method)
        if k is not None and runs_on(k, transport):
            out.append("%s:%s" % (method.encode("utf-8").hex(), praw.hex() if praw is not None else "-"))
    return out


# ---------------------------------------------------------------- engine plumbing
def parse_out(line):
    """engine output line -> dict(status, frames [bytes], log [str], alive) or None"""
    try:
        d = dict(x.split("=", 1) for x in line.split())
        frames = [] if d["f"] == "-" else [b"" if x == "e" else bytes.fromhex(x) for x in d["f"].split(",")]
        return {"status": d["s"], "frames": frames, "log": [] if d["l"] == "-" else d["l"].split(";"), "alive": d["a"] == "1"}
    except Exception:
        return None


_BADPARAMS = re.compile(rb'"code":-32602,"message":"Invalid params","data":"(?:[^"\\]|\\.)*"')


def canon(line):
    """the genuine -32602 of `parse1` carries serde's own message as data: not compared"""
    if "2d3332363032" not in line:
        return line
    o = parse_out(line)
    if o is None:
        return line
    fr = [_BADPARAMS.sub(b'"code":-32602,"message":"Invalid params","data":"?"', f) for f in o["frames"]]
    return "s=%s f=%s l=%s a=%d" % (o["status"], ",".join(f.hex() for f in fr) or "-", ";".join(o["log"]) or "-", o["alive"])


def replies_of(transport, o):
    """what the peer receives as replies: HTTP acknowledges 'no reply' with an empty or `null` body"""
    if transport == "http":
        return [f for f in o["frames"] if f not in (b"", b"null")]
    return list(o["frames"])


def impl_bin():
    """VERIF_SRVMSG_BIN overrides the implementation binary (a harness copy built against another tree)."""
    return os.environ.get("VERIF_SRVMSG_BIN") or vlib.rust_bin("srvmsg")


def run_engine(ctx, cases):
    """cases: [(transport, cfg, msg)] -> [(impl_line, model_line)] (WS cases that disagree or look odd are re-run
    alone with a long quiet period before they are believed)"""
    impl, model = impl_bin(), vlib.model_bin("server")
    lines = ["%s %s %s" % (t, c, m.hex() or "-") for t, c, m in cases]
    http = [i for i, (t, _, _) in enumerate(cases) if t.startswith("http")]
    ws = [i for i, (t, _, _) in enumerate(cases) if not t.startswith("http")]
    ri = [None] * len(cases)
    for idx, shard in ((http, 150), (ws, 12)):
        res = vlib.run_lines([impl], [lines[i] for i in idx], min_shard=shard)
        for i, r in zip(idx, res):
            ri[i] = r
    rm = vlib.run_lines([model], lines, min_shard=400)
    retried = 0
    for i in ws:
        if canon(ri[i]) != rm[i] and retried < 200:
            retried += 1
            rc, out = vlib.sh([impl], input=lines[i] + " 250\n", timeout=120)
            out = out.strip().split("\n")
            if rc == 0 and out and out[-1].startswith("s="):
                ri[i] = out[-1]
    if retried:
        ctx.count("ws-rerun-with-long-quiet-period", retried)
    return list(zip(ri, rm))


# ---------------------------------------------------------------- generators
def q(s):
    return json.dumps(s, ensure_ascii=False).encode("utf-8")


ID_FORMS = [b"null", b"0", b"1", b"42", b"18446744073709551615", b'"a"', b'""', b'"1"', b'"\\u0041\\n\\"\\\\"', b'"\xc3\xa9"',
            b'"\\ud83d\\ude00"', b'"\xf0\x9f\x98\x80"', b'"null"']
NON_IDS = [b"18446744073709551616", b"-1", b"1.0", b"1e2", b"-0", b"true", b"false", b"[]", b"{}", b"[1]", b'{"a":1}', b"1.5"]
METHODS = ["echo", "aecho", "becho", "bpanic", "hexs", 'x"y', "parse1", "sub", "unsub", "nope", "", "ECHO", "echo "]
METHOD_TEXTS = {'echo': [b'"echo"', b'"ech\\u006f"', b'"\\u0065cho"'], 'x"y': [b'"x\\"y"', b'"x\\u0022y"']}
PARAMS = [None, b"null", b"[]", b"[1]", b"[1, 2]", b"{}", b'{"a":[1,{"b":null}]}', b'["err"]', b'["fail"]', b'["failmin"]',
          b'["failmax"]', b'["calm"]', b'["rej"]', b'"str"', b"7", b"[18446744073709551615]", b"[18446744073709551616]",
          b"[1.0]", b"[-1]", b'["x"]', b"[ 3 ]", b"[1,2]", b'["S#1"]', b'["\\u00e9\xc3\xa9"]', b"true", b'["\\ud83d\\ude00"]']


def method_text(rng, m):
    if m in METHOD_TEXTS and rng.random() < 0.3:
        return rng.choice(METHOD_TEXTS[m])
    return q(m)


def obj(rng, members, wsp=0.1):
    parts = [G.ws(rng, wsp) + k + G.ws(rng, wsp) + b":" + G.ws(rng, wsp) + v + G.ws(rng, wsp) for k, v in members]
    return b"{" + (b",".join(parts) if parts else G.ws(rng, wsp)) + b"}"


def request_members(rng, method=None, idt=None, params="pick"):
    m = method if method is not None else rng.choice(METHODS[:9] * 3 + METHODS)
    ms = [(b'"jsonrpc"', b'"2.0"'), (b'"id"', idt if idt is not None else rng.choice(ID_FORMS)), (b'"method"', method_text(rng, m))]
    p = rng.choice(PARAMS + [G.value(rng, 2)] * 4) if params == "pick" else params
    if p is not None:
        ms.append((b'"params"', p))
    return ms


def wellformed_request(rng, **kw):
    ms = request_members(rng, **kw)
    if rng.random() < 0.5:
        rng.shuffle(ms)
    return obj(rng, ms, wsp=rng.choice([0, 0, 0.1, 0.4]))


def mutated_request(rng):
    """structural mutations: drop / duplicate / reorder / retype each member, unknown members, trailing bytes"""
    ms = request_members(rng)
    r = rng.random()
    names = [k for k, _ in ms]
    if r < 0.2:
        ms.pop(rng.randrange(len(ms)))
    elif r < 0.4:
        k, v = rng.choice(ms)
        other = {b'"jsonrpc"': [b'"2.0"', b'"1.0"', b"null"], b'"id"': ID_FORMS + NON_IDS, b'"method"': [b'"echo"', b"1"],
                 b'"params"': [b"null", b"[1]", b"[2]"]}[k]
        ms.insert(rng.randrange(len(ms) + 1), (k, rng.choice([v] + other)))
    elif r < 0.65:
        i = rng.randrange(len(ms))
        k = ms[i][0]
        bad = {b'"jsonrpc"': [b'"1.0"', b"2.0", b"null", b'"2.0 "', b'"2\\u002e0"', b"[]", b'"2"'],
               b'"id"': NON_IDS, b'"method"': [b"1", b"null", b"[]", b'{"a":1}', b"true"],
               b'"params"': [b"null", b"nul", b"[1", b'"\\ud800"', b"1e", b"[1,]"]}[k]
        ms[i] = (k, rng.choice(bad))
    elif r < 0.8:
        ms.insert(rng.randrange(len(ms) + 1), (rng.choice([b'"x"', b'"ID"', b'"Id"', b'"result"', b'"error"', b'"\\u0069d"', b'"jsonrpc "', G.string(rng)]),
                                               G.value(rng, 2, lenient=rng.random() < 0.3)))
    else:
        rng.shuffle(ms)
    t = obj(rng, ms, wsp=rng.choice([0, 0.2]))
    r = rng.random()
    if r < 0.08:
        t += rng.choice([b"x", b"{}", b",", b"]", b"}", b" 1", b"\x00"])
    elif r < 0.16:
        t = G.mutate_bytes(rng, t)
    return t


def leading_ws_cases(rng, n):
    out = []
    base = b'{"jsonrpc":"2.0","id":5,"method":"echo","params":[1]}'
    for k in list(range(0, 8)) + [63, 64, 100, 120, 125, 126, 127, 128, 129, 130]:
        for w in (b" ", b"\t", b"\n", b"\r", b"\x0c"):
            out.append(w * k + base)
    for _ in range(n):
        k = rng.choice([1, 2, 3, 126, 127, 128, 129])
        pre = bytes(rng.choice(ASCII_WS + b" ") for _ in range(k))
        out.append(pre + rng.choice([base, b'[' + base + b']', b'{"jsonrpc":"2.0","method":"echo"}', b"1", b""]))
    out += [b"\x0b" + base, b"\xc2\xa0" + base, b"\xef\xbb\xbf" + base, b"\x00" + base, base + b"\x0c", b"\x0c" * 3 + base + b" \n"]
    return out


TOKENS = [b"{", b"}", b"[", b"]", b":", b",", b'"jsonrpc"', b'"2.0"', b'"id"', b"1", b'"method"', b'"echo"', b"null", b'"params"']


def token_texts(rng, n, maxlen=6):
    """token-level texts over a 14-token alphabet (sampled; exhaustive up to 3 tokens)"""
    import itertools
    out = []
    for L in range(1, 4):
        for seq in itertools.product(TOKENS, repeat=L):
            if seq[0] in (b"{", b"["):
                out.append(b"".join(seq))
    out = rng.sample(out, min(len(out), n // 2))
    for _ in range(n - len(out)):
        L = rng.randint(3, maxlen + 6)
        out.append(rng.choice([b"{", b"{", b"["]) + b"".join(rng.choice(TOKENS) for _ in range(L)))
    return out


def arbitrary_bytes(rng, n):
    out = []
    for _ in range(n):
        k = rng.choice([0, 1, 2, 3, 5, 8, 20, 60])
        b = bytes(rng.choice(b'{}[]:," \t\n01a\\u\x00\x7f\x80\xc3\xa9\xff\xe2\x82') for _ in range(k))
        if rng.random() < 0.5:
            b = rng.choice([b"{", b"[", b" {", b"\x0c["]) + b
        out.append(b)
    return out


def show(msg):
    return msg.decode("latin1") if len(msg) < 300 else msg[:300].decode("latin1") + "..."
