"""Shared by C04 and C06: case generator, engine runner (cached by content), and the DIRECT ORACLES that restate
both properties on the implementation's output alone (script + observed results/frames; no Coq model involved).

Script line:  [E<server|tower|towermw>] K<cap> C<nconns> step step ...
  E = the entry point the REAL server is assembled through (harness/src/bin/subhist.rs): `server` (default, no token)
      = Server::builder().build(addr) + Server::start(module); `tower` = ONE TowerServiceBuilder
      (ServerBuilder::to_service_builder()) per history, cloned for every accepted TCP connection and served from the
      harness's own hyper accept loop.  The model has one semaphore per connection whatever the entry point and ignores
      the token; the oracles below do not look at it either.
  sub,c,req | uns,c,req,target | acc,s | rej,s,code | cl,s,src,k | dr,s,k | snd,s,k,x | tsnd,s,k,x | isc,s,k
  ret,s,n|m|e,x | ab,s,k|d | dp,s | cd,c | stop
  ab,s,k|d = the subscribe call of s is ABANDONED (the harness's rpc middleware drops the call future and answers 44);
             k: the pending sink lives on in a task of its own, d: it dies with the handler future.  dp,s = whoever
             holds the pending sink drops it unanswered.
Output line (both sides): {"c":[[frame,...] per connection],"end":[closed by the server?],"r":[result per step]}
Subscription ids come from the harness's counting IdProvider: handle s has id 1000+s.
"""
import hashlib, json, os, random
import vlib

ID_BASE = 1000
KNOWN_KEY = "sink-clone-dropped"
BELOW_OWN_CAP_KEY = "subscribe-refused-below-own-cap"
ENTRIES = ("server", "tower", "towermw")   # towermw: rpc middleware set per connection on a clone of the shared builder
NEVER_ACTIVE_KEY = "unsubscribe-true-for-never-active"


def impl_bin():
    """VERIF_SUBHIST_BIN overrides the implementation binary (a harness copy built against another tree)."""
    return os.environ.get("VERIF_SUBHIST_BIN") or vlib.rust_bin("subhist")


# ---------------------------------------------------------------------------------------------- generator
def free_slot(sinks):
    k = 0
    while k in sinks:
        k += 1
    return k


class GSub:
    def __init__(self, conn, req):
        self.conn, self.req = conn, req
        self.state = "P"          # P pending, A active, R rejected, D done, B call abandoned + pending sink kept
        self.sinks = set()
        self.returned = False
        self.unsub = False


class GenSim:
    """Light bookkeeping used ONLY to pick mostly-meaningful next steps (not an oracle)."""

    def __init__(self, cap, nconns):
        self.cap, self.nconns = cap, nconns
        self.open = [True] * nconns
        self.stopped = False
        self.subs = []
        self.req = 0
        self.x = 0
        self.steps = []

    def live(self, c):
        return sum(1 for s in self.subs if s.conn == c and (s.state in "PB" or (s.state == "A" and s.sinks)))

    def next_req(self):
        self.req += 1
        return self.req

    def next_x(self):
        self.x += 1
        return self.x

    def settle(self):
        if self.stopped:
            for c in range(self.nconns):
                if self.open[c] and not any(s.conn == c and s.state == "P" for s in self.subs):
                    self.open[c] = False

    def apply(self, tok):
        f = tok.split(",")
        k = f[0]
        if k == "sub":
            c = int(f[1])
            if self.open[c] and not self.stopped and self.live(c) < self.cap:
                self.subs.append(GSub(c, int(f[2])))
        elif k == "acc":
            s = self.subs[int(f[1])] if int(f[1]) < len(self.subs) else None
            if s and s.state == "P" and not s.returned:
                if self.open[s.conn]:
                    s.state, s.sinks = "A", {0}
                else:
                    s.state = "D"
            elif s and s.state == "B":
                s.state = "D"
        elif k == "rej":
            s = self.subs[int(f[1])] if int(f[1]) < len(self.subs) else None
            if s and ((s.state == "P" and not s.returned) or s.state == "B"):
                s.state = "R"
        elif k == "ab":
            s = self.subs[int(f[1])] if int(f[1]) < len(self.subs) else None
            if s and s.state == "P" and not s.returned:
                s.state = "B" if (len(f) < 3 or f[2] == "k") else "D"
                s.returned = True
        elif k == "dp":
            s = self.subs[int(f[1])] if int(f[1]) < len(self.subs) else None
            if s and ((s.state == "P" and not s.returned) or s.state == "B"):
                s.state = "D"
                s.returned = True
        elif k == "cl":
            s = self.subs[int(f[1])] if int(f[1]) < len(self.subs) else None
            if s and int(f[2]) in s.sinks and int(f[3]) not in s.sinks:
                s.sinks.add(int(f[3]))
        elif k == "dr":
            s = self.subs[int(f[1])] if int(f[1]) < len(self.subs) else None
            if s:
                s.sinks.discard(int(f[2]))
        elif k == "ret":
            s = self.subs[int(f[1])] if int(f[1]) < len(self.subs) else None
            if s and not s.returned:
                s.returned = True
                if s.state == "P":
                    s.state = "D"
        elif k == "uns":
            c, t = int(f[1]), int(f[3])
            if self.open[c] and not self.stopped:
                for s_i, s in enumerate(self.subs):
                    if s.conn == c and ID_BASE + s_i == t and s.state == "A":
                        s.unsub = True
        elif k == "cd":
            self.open[int(f[1])] = False
        elif k == "stop":
            self.stopped = True
        self.settle()
        self.steps.append(tok)

    # candidate next steps, with weights
    def candidates(self, rng):
        out = []
        conns = list(range(self.nconns))
        openc = [c for c in conns if self.open[c]]
        for c in openc or conns[:1]:
            w = 1 if self.stopped else (6 if len(self.subs) < 5 else 2)
            out.append((w, lambda c=c: "sub,%d,%d" % (c, self.next_req())))
        for i, s in enumerate(self.subs):
            if s.state == "P" and not s.returned:
                out.append((8, lambda i=i: "acc,%d" % i))
                out.append((2, lambda i=i: "rej,%d,%d" % (i, rng.choice([-32000, -5, 1, 7, 32001]))))
                out.append((1, lambda i=i: "ret,%d,%s,%d" % (i, rng.choice("nme"), self.next_x())))
                out.append((2, lambda i=i: "ab,%d,k" % i))
                out.append((1, lambda i=i: "ab,%d,d" % i))
                out.append((1, lambda i=i: "dp,%d" % i))
            if s.state == "B":
                out.append((6, lambda i=i: "acc,%d" % i))
                out.append((2, lambda i=i: "rej,%d,%d" % (i, rng.choice([-32000, -5, 1, 7, 32001]))))
                out.append((2, lambda i=i: "dp,%d" % i))
                out.append((1, lambda i=i: rng.choice(["ab,%d,k" % i, "ret,%d,n,0" % i])))
            if s.state == "A":
                for k in sorted(s.sinks):
                    out.append((5, lambda i=i, k=k: "%s,%d,%d,%d" % (rng.choice(["snd", "snd", "tsnd"]), i, k, self.next_x())))
                    out.append((3, lambda i=i, k=k: "isc,%d,%d" % (i, k)))
                    out.append((2, lambda i=i, k=k, s=s: "cl,%d,%d,%d" % (i, k, free_slot(s.sinks))))
                    out.append((2, lambda i=i, k=k: "dr,%d,%d" % (i, k)))
                if not s.returned:
                    out.append((2, lambda i=i: "ret,%d,%s,%d" % (i, rng.choice("nmmee"), self.next_x())))
            if s.state in "RD" and not s.returned:
                out.append((1, lambda i=i: "ret,%d,%s,%d" % (i, rng.choice("nme"), self.next_x())))
        ids = [ID_BASE + i for i in range(len(self.subs))]
        for c in ([] if (self.stopped and rng.random() < 0.8) else openc):
            own = [ID_BASE + i for i, s in enumerate(self.subs) if s.conn == c and s.state == "A" and not s.unsub]
            stale = [ID_BASE + i for i, s in enumerate(self.subs) if s.conn == c and (s.unsub or s.state != "A" or not s.sinks)]
            foreign = [ID_BASE + i for i, s in enumerate(self.subs) if s.conn != c]
            if own:
                out.append((4, lambda c=c, own=own: "uns,%d,%d,%d" % (c, self.next_req(), rng.choice(own))))
            if stale:
                out.append((2, lambda c=c, stale=stale: "uns,%d,%d,%d" % (c, self.next_req(), rng.choice(stale))))
            if foreign:
                out.append((2, lambda c=c, foreign=foreign: "uns,%d,%d,%d" % (c, self.next_req(), rng.choice(foreign))))
            out.append((1, lambda c=c: "uns,%d,%d,%d" % (c, self.next_req(), rng.choice([0, 999, ID_BASE + len(self.subs), 2 ** 40]))))
        # rarely: steps that should not be applicable
        if self.subs:
            i = rng.randrange(len(self.subs))
            out.append((1, lambda i=i: rng.choice(["acc,%d" % i, "rej,%d,3" % i, "snd,%d,%d,%d" % (i, rng.randrange(4), self.next_x()),
                                                   "isc,%d,%d" % (i, rng.randrange(4)), "dr,%d,%d" % (i, rng.randrange(4)),
                                                   "cl,%d,0,0" % i, "cl,%d,5,6" % i, "acc,%d" % (len(self.subs) + 1),
                                                   "ab,%d,k" % i, "ab,%d,d" % i, "dp,%d" % i, "ab,%d,k" % (len(self.subs) + 1)])))
        return out


def random_script(rng, cap, nconns, length, p_cd=0.04, p_stop=0.02):
    g = GenSim(cap, nconns)
    for _ in range(length):
        r = rng.random()
        if r < p_cd and any(g.open):
            g.apply("cd,%d" % rng.choice([c for c in range(nconns) if g.open[c]]))
            continue
        if r < p_cd + p_stop and not g.stopped:
            g.apply("stop")
            continue
        cands = g.candidates(rng)
        tot = sum(w for w, _ in cands)
        pick = rng.random() * tot
        for w, mk in cands:
            pick -= w
            if pick <= 0:
                g.apply(mk())
                break
    return g.steps


def line_of(cap, nconns, steps, entry=None):
    """entry None / "server" = no token: the line (and the engine's output) is what it was before the entry-point dimension"""
    return "%sK%d C%d %s" % ("" if entry in (None, "server") else "E%s " % entry, cap, nconns, " ".join(steps))


def entry_of(line):
    for tok in line.split():
        if tok[0] == "E":
            return tok[1:]
    return "server"


def with_entry(line, entry):
    cap, nconns, steps = parse_line(line)
    return line_of(cap, nconns, steps, entry)


def inject_drop(steps, pos, c):
    return steps[:pos] + ["cd,%d" % c] + steps[pos:]


def exhaustive_short(cap, nconns, depth, limit=None, rng=None):
    """All scripts up to `depth` steps over the state-relative alphabet {sub, acc, rej, ret, abandon(k/d), drop pending,
    clone, drop, send, is_closed, unsubscribe(own/foreign/stale/unknown), conn drop, stop}."""
    out = []

    def alphabet(g):
        a = []
        for c in range(nconns):
            a.append("sub,%d,%d" % (c, g.req + 1))
        for i, s in enumerate(g.subs):
            if s.state == "P" and not s.returned:
                a += ["acc,%d" % i, "rej,%d,7" % i, "ret,%d,m,%d" % (i, g.x + 1), "ab,%d,k" % i, "ab,%d,d" % i, "dp,%d" % i]
            if s.state == "B":
                a += ["acc,%d" % i, "rej,%d,7" % i, "dp,%d" % i]
            if s.state == "A":
                ks = sorted(s.sinks)
                for k in ks[:2]:
                    a += ["snd,%d,%d,%d" % (i, k, g.x + 1), "isc,%d,%d" % (i, k), "dr,%d,%d" % (i, k)]
                if ks:
                    a.append("cl,%d,%d,%d" % (i, ks[0], free_slot(s.sinks)))
                if not s.returned:
                    a += ["ret,%d,m,%d" % (i, g.x + 1), "ret,%d,n,0" % i]
        for c in range(nconns):
            for t in [ID_BASE + i for i in range(len(g.subs))] + [999]:
                a.append("uns,%d,%d,%d" % (c, g.req + 1, t))
            if g.open[c]:
                a.append("cd,%d" % c)
        if not g.stopped:
            a.append("stop")
        return a

    def rec(g, d):
        if g.steps:
            out.append(list(g.steps))
        if d == 0:
            return
        for tok in alphabet(g):
            g2 = GenSim(cap, nconns)
            for t in g.steps:
                g2.apply(t)
            g2.req, g2.x = g.req, g.x
            f = tok.split(",")
            if f[0] in ("sub", "uns"):
                g2.req = g.req + 1
            if f[0] in ("snd", "ret"):
                g2.x = g.x + 1
            g2.apply(tok)
            rec(g2, d - 1)

    rec(GenSim(cap, nconns), depth)
    if limit and len(out) > limit:
        out = rng.sample(out, limit) if rng is not None else out[:limit]
    return out


CORPUS = [
    # the C06 clone-drop witness and friends
    "K2 C1 sub,0,1 acc,0 cl,0,0,1 dr,0,1 isc,0,0 snd,0,0,5 uns,0,2,1000",
    "K2 C1 sub,0,1 acc,0 cl,0,0,1 dr,0,0 isc,0,1 snd,0,1,5 uns,0,2,1000",
    "K1 C1 sub,0,1 acc,0 cl,0,0,1 dr,0,1 sub,0,2 dr,0,0 sub,0,3",
    "K2 C1 sub,0,1 acc,0 snd,0,0,7 isc,0,0 uns,0,2,1000 isc,0,0 snd,0,0,8 ret,0,m,9 dr,0,0",
    "K1 C2 sub,0,1 sub,0,2 sub,1,3 acc,0 rej,1,-5 uns,1,4,1000 uns,0,5,1000 uns,0,6,1000 sub,0,7 dr,0,0 sub,0,8",
    "K1 C1 sub,0,1 ret,0,m,4 sub,0,2 acc,1 ret,1,e,3 snd,1,0,1 cd,0 isc,1,0 snd,1,0,2",
    "K2 C2 sub,0,1 sub,1,2 acc,0 acc,1 snd,0,0,1 stop snd,0,0,2 isc,0,0 isc,1,0",
    "K2 C2 sub,0,1 sub,1,2 acc,0 snd,0,0,1 stop snd,0,0,2 isc,0,0 acc,1 snd,0,0,3 isc,1,0",
    "K0 C1 sub,0,1 uns,0,2,1000",
    "K3 C2 sub,0,1 sub,0,2 sub,0,3 sub,0,4 acc,0 acc,1 acc,2 uns,0,5,1001 sub,0,6 dr,1,0 sub,0,7 cd,0 acc,3 sub,1,8",
    "K1 C1 sub,0,1 cd,0 acc,0 sub,0,2",
    "K2 C1 sub,0,1 sub,0,2 stop acc,0 snd,0,0,1 rej,1,3 snd,0,0,2 isc,0,0",
    # minimised witnesses of defects / seeded mutations, kept so that they are reported again if they return
    "K2 C1 sub,0,1 acc,0 cl,0,0,1 dr,0,1 uns,0,2,1000",       # C06 sink-clone-dropped (fixed by fixes/C06.patch)
    "K1 C2 sub,0,2 acc,0 uns,0,5,1000 uns,0,6,1000",          # unsubscribe that does not remove the entry
    "K1 C1 sub,0,2 sub,0,3",                                  # cap off by one
    "K2 C1 sub,0,1 acc,0 uns,0,2,1000 snd,0,0,8",             # send without the closed check
    "K2 C1 sub,0,1 acc,0 uns,0,2,1000 isc,0,0",
    "K1 C1 sub,0,1 rej,0,1 sub,0,2",                          # permit leaked on reject
    "K1 C1 sub,0,1 ret,0,n,0 sub,0,2",
    "K1 C1 sub,0,1 acc,0 dr,0,0 sub,0,2",
    "K1 C1 sub,0,1 acc,0 uns,0,2,1000 sub,0,3 dr,0,0 sub,0,4",
    # abandoned subscribe call: accept on the surviving pending sink fails after the response was enqueued
    "K1 C1 sub,0,1 ab,0,k acc,0 uns,0,2,1000 sub,0,3 acc,1 uns,0,4,1001",     # entry registered before the fallible sends
    "K1 C1 sub,0,1 ab,0,k sub,0,2 acc,0 sub,0,3",
    "K1 C1 sub,0,1 ab,0,d sub,0,2 acc,0 acc,1",
    "K2 C2 sub,0,1 sub,1,2 ab,0,k acc,0 uns,1,3,1000 uns,0,4,1000 acc,1 uns,1,5,1001",
    "K1 C1 sub,0,1 acc,0 ab,0,k isc,0,0 snd,0,0,5 uns,0,2,1000",
    "K1 C1 sub,0,1 ab,0,k rej,0,7 uns,0,2,1000 sub,0,3",
    "K1 C1 sub,0,1 ab,0,k cd,0 acc,0",
    "K1 C1 sub,0,1 ab,0,k dp,0 sub,0,2 ab,0,k",
    "K1 C1 sub,0,1 stop ab,0,k acc,0",
]


def abandon_family():
    """Targeted family around the abandoned subscribe call: [other subscription] ; sub ; abandon(k/d) ; [conn drop | stop |
    slot probe] ; accept/reject/drop/return/nothing ; unsubscribe of that id (own and other connection) ; subscribe again
    up to the cap and one more ; unsubscribe of a new id.  Also: abandon AFTER accept (must change nothing), double
    abandon, k abandoned -> k new ones."""
    out = []
    for cap in (1, 2, 3):
        for nconns in (1, 2):
            for other in ((False, True) if cap >= 2 else (False,)):
                for mode in "kd":
                    for mid in ("", "cd", "stop", "probe", "ab"):
                        for end in ("acc", "rej", "dp", "ret", ""):
                            st, req, h = [], 0, 0
                            if other:
                                req += 1
                                st += ["sub,0,%d" % req, "acc,%d" % h]
                                h += 1
                            req += 1
                            target = h
                            st.append("sub,0,%d" % req)
                            h += 1
                            st.append("ab,%d,%s" % (target, mode))
                            if mid == "cd":
                                st.append("cd,0")
                            elif mid == "stop":
                                st.append("stop")
                            elif mid == "probe":
                                for _ in range(cap):
                                    req += 1
                                    st.append("sub,0,%d" % req)
                                # those that were admitted are answered so that they do not hold the connection
                                st += ["rej,%d,3" % j for j in range(h, h + cap)]
                            elif mid == "ab":
                                st.append("ab,%d,k" % target)
                            if end == "acc":
                                st.append("acc,%d" % target)
                            elif end == "rej":
                                st.append("rej,%d,9" % target)
                            elif end == "dp":
                                st.append("dp,%d" % target)
                            elif end == "ret":
                                st.append("ret,%d,m,77" % target)
                            req += 1
                            st.append("uns,0,%d,%d" % (req, ID_BASE + target))
                            if nconns == 2:
                                req += 1
                                st.append("uns,1,%d,%d" % (req, ID_BASE + target))
                            out.append((cap, nconns, st, req))
    res = []
    for cap, nconns, st, req in out:
        # subscribe again up to the cap and one more; accept what was admitted; unsubscribe the first new id.
        # Handles are assigned by the implementation: the generator's bookkeeping tells which subscribes are admitted.
        g = GenSim(cap, nconns)
        for t in st:
            g.apply(t)
        g.req = req
        tail = []
        for _ in range(cap + 1):
            before = len(g.subs)
            tok = "sub,0,%d" % g.next_req()
            g.apply(tok)
            tail.append(tok)
            if len(g.subs) > before:
                a = "acc,%d" % before
                g.apply(a)
                tail.append(a)
        new = [i for i, s in enumerate(g.subs) if s.state == "A" and s.sinks and s.conn == 0]
        if new:
            tok = "uns,0,%d,%d" % (g.next_req(), ID_BASE + new[-1])
            g.apply(tok)
            tail.append(tok)
        res.append(line_of(cap, nconns, st + tail))
    # abandon AFTER accept must change nothing; k abandoned -> k new ones; two connections
    res += [
        "K1 C1 sub,0,1 acc,0 ab,0,k isc,0,0 snd,0,0,5 uns,0,2,1000 sub,0,3",
        "K1 C1 sub,0,1 acc,0 ab,0,d isc,0,0 snd,0,0,5 ret,0,m,6 uns,0,2,1000 sub,0,3",
        "K2 C1 sub,0,1 sub,0,2 ab,0,k ab,1,k sub,0,3 acc,0 acc,1 sub,0,4 sub,0,5 sub,0,6 acc,2 acc,3 uns,0,7,1000 uns,0,8,1001 uns,0,9,1002",
        "K2 C1 sub,0,1 sub,0,2 ab,0,d ab,1,d sub,0,3 sub,0,4 sub,0,5 acc,2 acc,3 uns,0,7,1000 uns,0,8,1001 uns,0,9,1002",
        "K3 C1 sub,0,1 sub,0,2 sub,0,3 ab,0,k ab,1,d ab,2,k acc,0 dp,2 sub,0,4 sub,0,5 sub,0,6 sub,0,7 uns,0,8,1000 uns,0,9,1002",
        "K1 C2 sub,0,1 sub,1,2 ab,0,k ab,1,k acc,1 acc,0 uns,0,3,1001 uns,1,4,1000 uns,0,5,1000 uns,1,6,1001 sub,0,7 sub,1,8 acc,2 acc,3 uns,0,9,1002 uns,1,10,1003",
        "K1 C2 sub,0,1 ab,0,k cd,0 acc,0 sub,1,2 acc,1 uns,1,3,1000 uns,1,4,1001",
        "K1 C2 sub,0,1 sub,1,2 ab,0,k stop acc,0 acc,1 snd,1,0,4",
        "K1 C1 sub,0,1 ab,0,k ab,0,k ab,0,d acc,0 acc,0 dp,0 rej,0,3",
        "K1 C1 sub,0,1 rej,0,4 ab,0,k sub,0,2 ret,1,n,0 ab,1,k sub,0,3 dp,2 ab,2,k sub,0,4",
    ]
    return res


def own_cap_family():
    """Targeted family for "the cap is per CONNECTION" (2 and 3 connections, caps 1..3): A fills its cap (pending or
    accepted) and is refused one more; B -- holding nothing -- subscribes up to ITS OWN cap (each must be admitted) and is
    refused one more; A ends k of its subscriptions (reject / drop pending / handler return / abandon / unsubscribe + last
    sink dropped / connection drop); B, still at its own count, is still refused; A starts k new ones and is refused the
    k+1-th; B ends j and starts j new ones; a third connection that holds nothing is admitted throughout.
    Returns script lines WITHOUT entry token (handles are the implementation's: the generator's bookkeeping tells which
    subscribes are admitted)."""
    res = []
    for cap in (1, 2, 3):
        for nconns in (2, 3):
            for a_mode in ("acc", "pend"):
                for b_mode in ("acc", "pend"):
                    for end in ("rej", "dp", "ret", "abd", "uns+dr", "dr", "cd"):
                        for k in range(1, cap + 1):
                            if end in ("rej", "dp", "ret", "abd") and a_mode != "pend":
                                continue
                            if end in ("uns+dr", "dr") and a_mode != "acc":
                                continue
                            if end == "cd" and k != cap:
                                continue
                            g = GenSim(cap, nconns)

                            def sub(c, n, mode):
                                """n subscribe calls on c; the admitted ones are accepted when mode = acc; -> their handles"""
                                hs = []
                                for _ in range(n):
                                    before = len(g.subs)
                                    g.apply("sub,%d,%d" % (c, g.next_req()))
                                    if len(g.subs) > before:
                                        hs.append(before)
                                        if mode == "acc":
                                            g.apply("acc,%d" % before)
                                return hs

                            ha = sub(0, cap + 1, a_mode)          # A fills its cap, one more is refused
                            if nconns == 3:
                                sub(2, 1, "pend")                 # the bystander is admitted while A is full
                            hb = sub(1, cap + 1, b_mode)          # B fills ITS OWN cap, one more is refused
                            for h in ha[:k]:                      # A ends k
                                if end == "rej":
                                    g.apply("rej,%d,7" % h)
                                elif end == "dp":
                                    g.apply("dp,%d" % h)
                                elif end == "ret":
                                    g.apply("ret,%d,n,0" % h)
                                elif end == "abd":
                                    g.apply("ab,%d,d" % h)
                                elif end == "uns+dr":
                                    g.apply("uns,0,%d,%d" % (g.next_req(), ID_BASE + h))
                                    g.apply("dr,%d,0" % h)
                                elif end == "dr":
                                    g.apply("dr,%d,0" % h)
                            if end == "cd":
                                g.apply("cd,0")
                            sub(1, 1, b_mode)                     # B is still at its own cap: refused
                            if end != "cd":
                                sub(0, k + 1, a_mode)             # A starts k new ones, the k+1-th is refused
                            j = min(k, len(hb))
                            for h in hb[:j]:                      # B ends j of its own ...
                                if b_mode == "acc":
                                    g.apply("dr,%d,0" % h)
                                else:
                                    g.apply("rej,%d,3" % h)
                            sub(1, j + 1, b_mode)                 # ... and starts j new ones, one more is refused
                            if nconns == 3:
                                sub(2, cap, "acc")                # the bystander up to its own cap (it holds 1 already)
                            res.append(line_of(cap, nconns, g.steps))
    return res


def entry_cases(ctx):
    """The entry-point dimension: [(line, tag)].  The two-connection families -- the targeted own-cap family, random walks
    over 2..3 connections, the exhaustive short scripts with 2 connections -- and the fixed corpus, each script under ALL THREE
    entry points (`server` lines carry no token, see line_of).  Own generator so that the case set of gen_cases' other
    families does not move."""
    rng = random.Random(ctx.seed * 104729 + 6006)
    scripts = [(l, "own-cap-family") for l in own_cap_family()]
    scripts += [(l, "corpus") for l in CORPUS if parse_line(l)[1] >= 2]
    scripts += [(l, "abandon-family") for l in abandon_family() if parse_line(l)[1] >= 2][:ctx.scale(60, 100000)]
    for _ in range(ctx.scale(500, 5000)):
        cap = rng.choice([1, 1, 2, 2, 3])
        nconns = rng.choice([2, 2, 2, 3])
        steps = random_script(rng, cap, nconns, rng.choice([8, 12, 18, 26]), p_cd=0.03, p_stop=0.01)
        scripts.append((line_of(cap, nconns, steps), "random-2c"))
    for cap in (1, 2):
        for steps in exhaustive_short(cap, 2, ctx.scale(3, 4), limit=ctx.scale(250, 6000), rng=rng):
            scripts.append((line_of(cap, 2, steps), "exhaustive-short-2c"))
    out = []
    for line, tag in scripts:
        for e in ENTRIES:
            out.append((with_entry(line, e), "entry-%s:%s" % (e, tag)))
    return out


# ---------------------------------------------------------------------------------------------- id re-use (entry suffix +r)
def reuses_ids(line):
    return entry_of(line).endswith("+r")


def impl_line_of(line):
    """What the implementation is sent for `line`.  Lines whose entry ends in `+r` run on a server whose IdProvider hands
    out the SAME id (ID_BASE) every time; the script (and the model, which numbers subscriptions ID_BASE + handle) names the
    subscriptions by their distinct ids, so every unsubscribe target >= ID_BASE becomes ID_BASE on the wire."""
    if not reuses_ids(line):
        return line
    out = []
    for tok in line.split():
        f = tok.split(",")
        if f[0] == "uns" and int(f[3]) >= ID_BASE:
            f[3] = str(ID_BASE)
            tok = ",".join(f)
        out.append(tok)
    return " ".join(out)


def rename_by_generation(line, out_text):
    """Inverse of impl_line_of on the implementation's OUTPUT: per connection the frames are walked in order, the answer
    to the subscribe call that reached handler h (result `h<h>` of its `sub` step) starts generation h, and every
    subscription id ID_BASE from there on is rewritten ID_BASE + h.  Sound for the scripts of reuse_family only (a new
    subscribe on a connection follows only after the previous subscription there is out of the table and closed, so every
    frame under the shared id belongs to the latest generation); anything else is left to the comparison to expose."""
    try:
        out = json.loads(out_text)
        if json.dumps(out, sort_keys=True, separators=(",", ":")) != out_text:
            return out_text            # not in the canonical form this function re-creates: compare as is
        _, _, steps = parse_line(line)
        gen_of = {}                    # (connection, request id) -> handle
        for tok, r in zip(steps, out["r"]):
            f = tok.split(",")
            if f[0] == "sub" and isinstance(r, str) and r[:1] == "h" and r[1:].isdigit():
                gen_of[(int(f[1]), int(f[2]))] = int(r[1:])
        for c, frames in enumerate(out["c"]):
            cur = None
            for fr in frames:
                if not isinstance(fr, dict):
                    continue
                if type(fr.get("result")) is int and fr["result"] == ID_BASE and (c, fr.get("id")) in gen_of:
                    cur = ID_BASE + gen_of[(c, fr["id"])]
                    fr["result"] = cur
                elif fr.get("method") is not None and isinstance(fr.get("params"), dict) \
                        and fr["params"].get("subscription") == ID_BASE and cur is not None:
                    fr["params"]["subscription"] = cur
        return json.dumps(out, sort_keys=True, separators=(",", ":"))
    except Exception:
        return out_text


def run_impl_lines(lines, **kw):
    ri = vlib.run_lines([impl_bin()], [impl_line_of(l) for l in lines], **kw)
    return [rename_by_generation(l, a) if reuses_ids(l) else a for l, a in zip(lines, ri)]


def reuse_family(rng, n):
    """Scripts for the `+r` entries: [(line, tag)].  One generation at a time per connection: a connection subscribes
    again only after its previous subscription was rejected, successfully unsubscribed, or lost its last sink; the sinks
    of earlier generations stay around and are used / cloned / dropped at any later point (a drop of an OLD generation's
    last sink must not touch the table entry the NEW generation registered under the same id); unsubscribe names the
    connection's current generation or an unknown id."""
    out = []
    fixed = [
        "K2 C1 sub,0,1 acc,0 snd,0,0,1 uns,0,2,1000 sub,0,3 acc,1 snd,1,0,2 dr,0,0 snd,1,0,3 isc,1,0 uns,0,4,1001",
        "K3 C1 sub,0,1 acc,0 cl,0,0,1 uns,0,2,1000 sub,0,3 acc,1 dr,0,0 snd,1,0,1 dr,0,1 snd,1,0,2 isc,1,0 uns,0,4,1001 isc,1,0",
        "K2 C2 sub,0,1 acc,0 sub,1,2 acc,1 uns,0,3,1000 sub,0,4 acc,2 uns,1,5,1001 dr,0,0 snd,2,0,1 dr,1,0 snd,2,0,2 uns,0,6,1002",
        "K2 C1 sub,0,1 acc,0 uns,0,2,1000 ret,0,m,1 sub,0,3 acc,1 dr,0,0 snd,1,0,2 ret,1,m,3",
    ]
    for e in ("server", "towermw"):
        out += [(with_entry(l, e + "+r"), "id-reuse:fixed") for l in fixed]
    for _ in range(n):
        cap = rng.choice([1, 2, 2, 3])
        nconns = rng.choice([1, 1, 2])
        length = rng.choice([8, 12, 18, 26])
        steps, req, x = [], 0, 0
        subs = []                      # dict(conn, state P|A|R, sinks set, ret bool)
        cur = [None] * nconns          # handle of the connection's generation that is pending or in the table
        latest = [None] * nconns       # handle of the connection's most recent subscribe call

        def live(c):
            return sum(1 for b in subs if b["conn"] == c and (b["state"] == "P" or b["sinks"]))

        for _ in range(length):
            acts = []
            for c in range(nconns):
                if cur[c] is None and live(c) < cap:
                    acts += [("sub", c)] * 3
                acts.append(("unk", c))
            for h, b in enumerate(subs):
                if b["state"] == "P":
                    acts += [("acc", h)] * 3 + [("rej", h)]
                elif b["state"] == "A":
                    for k in sorted(b["sinks"])[:2]:
                        acts += [("snd", h, k), ("isc", h, k), ("dr", h, k), ("dr", h, k)]
                    if b["sinks"] and len(b["sinks"]) < 3:
                        acts.append(("cl", h, min(b["sinks"])))
                    if not b["ret"] and latest[b["conn"]] == h:
                        # the handler's closing value goes out under the shared id even after an unsubscribe: only the
                        # connection's LATEST generation returns, so that the frame can be attributed
                        acts.append(("ret", h))
                    if cur[b["conn"]] == h:
                        acts += [("uns", h)] * 3
            a = rng.choice(acts)
            if a[0] == "sub":
                req += 1
                steps.append("sub,%d,%d" % (a[1], req))
                subs.append(dict(conn=a[1], state="P", sinks=set(), ret=False))
                cur[a[1]] = len(subs) - 1
                latest[a[1]] = len(subs) - 1
            elif a[0] == "unk":
                req += 1
                steps.append("uns,%d,%d,999" % (a[1], req))
            elif a[0] == "acc":
                steps.append("acc,%d" % a[1])
                subs[a[1]]["state"], subs[a[1]]["sinks"] = "A", {0}
            elif a[0] == "rej":
                steps.append("rej,%d,7" % a[1])
                subs[a[1]]["state"] = "R"
                cur[subs[a[1]]["conn"]] = None
            elif a[0] == "snd":
                x += 1
                steps.append("%s,%d,%d,%d" % (rng.choice(["snd", "snd", "tsnd"]), a[1], a[2], x))
            elif a[0] == "isc":
                steps.append("isc,%d,%d" % (a[1], a[2]))
            elif a[0] == "dr":
                b = subs[a[1]]
                steps.append("dr,%d,%d" % (a[1], a[2]))
                b["sinks"].discard(a[2])
                if not b["sinks"] and cur[b["conn"]] == a[1]:
                    cur[b["conn"]] = None
            elif a[0] == "cl":
                b = subs[a[1]]
                k = free_slot(b["sinks"])
                steps.append("cl,%d,%d,%d" % (a[1], a[2], k))
                b["sinks"].add(k)
            elif a[0] == "ret":
                x += 1
                subs[a[1]]["ret"] = True
                steps.append(rng.choice(["ret,%d,m,%d" % (a[1], x), "ret,%d,n,0" % a[1], "ret,%d,e,%d" % (a[1], x)]))
            elif a[0] == "uns":
                b = subs[a[1]]
                req += 1
                steps.append("uns,%d,%d,%d" % (b["conn"], req, ID_BASE + a[1]))
                cur[b["conn"]] = None
        out.append((line_of(cap, nconns, steps, rng.choice(["server+r", "server+r", "tower+r", "towermw+r"])), "id-reuse:random"))
    return out


# ---------------------------------------------------------------------------------------------- generator
def gen_cases(ctx):
    """Returns [(line, tag)].  Deterministic in ctx.rng."""
    rng = ctx.rng
    cases = [(l, "corpus") for l in CORPUS]
    cases += [(l, "abandon-family") for l in abandon_family()]
    n_rand = ctx.scale(1200, 14000)
    for _ in range(n_rand):
        cap = rng.choice([0, 1, 1, 2, 2, 3])
        nconns = rng.choice([1, 2, 2])
        length = rng.choice([6, 10, 16, 24, 36])
        steps = random_script(rng, cap, nconns, length)
        cases.append((line_of(cap, nconns, steps), "random"))
        # connection drop injected at every step (quick: at a few sampled positions)
        pos = list(range(len(steps) + 1))
        if not (ctx.thorough or ctx.search_mode):
            pos = rng.sample(pos, min(2, len(pos)))
        elif len(pos) > 12:
            pos = rng.sample(pos, 12)
        for p in pos:
            c = rng.randrange(nconns)
            cases.append((line_of(cap, nconns, inject_drop(steps, p, c)), "random+drop"))
    # many subscriptions, interleaved sends / unsubscribes / stop (C04)
    for _ in range(ctx.scale(150, 1500)):
        nconns = rng.choice([1, 2])
        steps = random_script(rng, 3, nconns, rng.choice([30, 50]), p_cd=0.02, p_stop=0.03)
        cases.append((line_of(3, nconns, steps), "long"))
    # exhaustive short scripts
    for cap in (0, 1, 2):
        for nconns in (1, 2):
            depth = ctx.scale(3, 4) if cap else 2
            lim = ctx.scale(150, 6000)
            for steps in exhaustive_short(cap, nconns, depth, limit=lim, rng=rng):
                cases.append((line_of(cap, nconns, steps), "exhaustive-short"))
    # the entry-point dimension (Server::start / tower service), appended last with a generator of its own
    cases += entry_cases(ctx)
    # subscription ids re-used by the IdProvider (entry suffix +r), own rng so that the other families do not move
    cases += reuse_family(random.Random(ctx.seed * 7919 + 404), ctx.scale(400, 8000))
    return cases


# ---------------------------------------------------------------------------------------------- engine
def _sha(path):
    h = hashlib.sha1()
    with open(path, "rb") as f:
        while True:
            b = f.read(1 << 20)
            if not b:
                break
            h.update(b)
    return h.hexdigest()


def run_engine(lines, use_cache=True):
    """Runs implementation and model on `lines`; results cached under work/ keyed by inputs and both binaries."""
    impl, model = impl_bin(), vlib.model_bin("subhist")
    key = hashlib.sha1(("\n".join(lines) + _sha(impl) + _sha(model)).encode()).hexdigest()[:16]
    path = os.path.join(vlib.WORK, "subhist-%s.json" % key)
    if use_cache and os.path.exists(path):
        try:
            d = json.load(open(path))
            if len(d["impl"]) == len(lines) and len(d["model"]) == len(lines):
                return d["impl"], d["model"], True
        except Exception:
            pass
    ri = run_impl_lines(lines, min_shard=12, timeout=1500)
    rm = vlib.run_lines([model], lines, min_shard=200)
    if use_cache:
        os.makedirs(vlib.WORK, exist_ok=True)
        for f in os.listdir(vlib.WORK):     # keep the directory small: one cache entry per input set is enough
            if f.startswith("subhist-") and f.endswith(".json"):
                try:
                    os.remove(os.path.join(vlib.WORK, f))
                except OSError:
                    pass
        tmp = path + ".%d.tmp" % os.getpid()
        with open(tmp, "w") as f:
            json.dump({"impl": ri, "model": rm}, f)
        os.replace(tmp, path)
    return ri, rm, False


def run_impl(lines):
    return run_impl_lines(lines, min_shard=12, timeout=600)


# ---------------------------------------------------------------------------------------------- direct oracles
class OSub:
    def __init__(self, handle, conn, req):
        self.handle, self.conn, self.req = handle, conn, req
        self.sid = ID_BASE + handle
        self.state = "pending"        # pending | abandoned (call dropped, pending sink kept) | accepted | rejected | failed | dropped
        self.sinks = set()
        self.unsub = False            # a successful unsubscribe named it
        self.returned = False
        self.ret = None               # (kind, x)
        self.sends = {}               # x -> step index, every send attempted
        self.sends_ok = []            # x of sends that reported Ok, in order
        self.closed_at = None         # step after which the subscription is closed (unsubscribe / conn end / stop)
        self.clone_dropped = False    # a clone was dropped while other clones stayed alive and it was not closed


def parse_line(line):
    cap = nconns = None
    steps = []
    for tok in line.split():
        if tok[0] == "K":
            cap = int(tok[1:])
        elif tok[0] == "C":
            nconns = int(tok[1:])
        elif tok[0] == "E":
            pass                      # entry point of the real server: see entry_of
        else:
            steps.append(tok)
    return cap, nconns, steps


def oracles(line, out_text):
    """Evaluate C04 and C06 on one implementation output.  Returns {'C04': [(key, detail)], 'C06': [...]}."""
    res = {"C04": [], "C06": []}
    cap, nconns, steps = parse_line(line)
    try:
        out = json.loads(out_text)
        frames, results, ended = out["c"], out["r"], out["end"]
    except Exception:
        res["C04"].append(("engine-output", out_text[:200]))
        res["C06"].append(("engine-output", out_text[:200]))
        return res
    if "zproblems" in out or len(results) != len(steps):
        res["C04"].append(("engine-problem", str(out.get("zproblems"))))
        res["C06"].append(("engine-problem", str(out.get("zproblems"))))
    f04 = lambda k, d: res["C04"].append((k, d))
    f06 = lambda k, d: res["C06"].append((k, d))

    subs = []
    conn_open = [True] * nconns       # the client still holds it and the server has not ended it
    stopped = False
    xowner = {}                       # payload x -> ("snd"|"ret", handle)

    def live(c):
        # a subscription holds its slot while its pending sink or one of its sinks is alive; the pending sink of an
        # abandoned call that was kept (ab,s,k) is alive until it is accepted / rejected / dropped
        return sum(1 for s in subs if s.conn == c and (s.state in ("pending", "abandoned") or (s.state == "accepted" and s.sinks)))

    accepted_ok = set()               # (connection, subscription id) of every accept that reported success

    def settle(i):
        # after a stop, a connection ends once none of its subscribe calls is unanswered
        if stopped:
            for c in range(nconns):
                if conn_open[c] and not any(s.conn == c and s.state == "pending" for s in subs):
                    conn_open[c] = False
                    for s in subs:
                        if s.conn == c and s.closed_at is None:
                            s.closed_at = i

    def should_be_open(s):
        return s.state == "accepted" and not s.unsub and conn_open[s.conn] and s.closed_at is None

    for i, (tok, r) in enumerate(zip(steps, results)):
        f = tok.split(",")
        k = f[0]
        if r in ("timeout", "gone", "resp", "already") or r.startswith("mismatch") or r.startswith("error:"):
            key = "is_closed-vs-closed()" if r.startswith("mismatch") else "engine-result"
            f04(key, "step %d %s -> %s" % (i, tok, r))
            continue
        sub = None
        if k in ("acc", "rej", "cl", "dr", "snd", "tsnd", "isc", "ret", "ab", "dp"):
            h = int(f[1])
            sub = subs[h] if h < len(subs) else None
            if sub is None:
                if r != "na":
                    f04("engine-result", "step %d %s on unknown handle -> %s" % (i, tok, r))
                continue
        if k == "sub":
            c, req = int(f[1]), int(f[2])
            if r.startswith("h"):
                if int(r[1:]) != len(subs):
                    f04("engine-result", "handle order: %s at step %d" % (r, i))
                # C06 cap: never more than cap pending-or-active subscriptions on one connection
                if live(c) >= cap:
                    f06("cap-exceeded", "step %d: subscribe admitted with %d live on conn %d, cap %d" % (i, live(c), c, cap))
                subs.append(OSub(len(subs), c, req))
            elif r == "refused":
                # C06: the slot of every ended subscription is back and the cap is per CONNECTION: refusing a connection
                # whose OWN live count is below the cap is a failure.  Two names for it: when other connections hold
                # subscriptions right now the refusal counted theirs (subscribe-refused-below-own-cap), otherwise a slot of
                # this connection's own ended subscriptions did not come back (slot-not-returned)
                if live(c) < cap:
                    others = [(d, live(d)) for d in range(nconns) if d != c and live(d)]
                    if others:
                        f06(BELOW_OWN_CAP_KEY, "step %d: -32006 on conn %d whose own live count is %d, cap %d; live on the other connections: %s"
                            % (i, c, live(c), cap, ", ".join("conn %d: %d" % o for o in others)))
                    else:
                        f06("slot-not-returned", "step %d: -32006 with only %d live on conn %d, cap %d" % (i, live(c), c, cap))
            elif r == "na":
                if conn_open[c] and not stopped:
                    f06("subscribe-unanswered", "step %d" % i)
        elif k == "acc":
            if r == "ok":
                sub.state, sub.sinks = "accepted", {0}
                accepted_ok.add((sub.conn, sub.sid))
            elif r == "err":
                sub.state = "failed"
        elif k == "rej":
            if r == "ok":
                sub.state = "rejected"
        elif k == "ab":
            if r == "ok":
                # the handler future is gone; k: the pending sink (and its slot) lives on, d: it went with the handler
                sub.returned = True
                if sub.state == "pending":
                    sub.state = "abandoned" if (len(f) < 3 or f[2] == "k") else "dropped"
                else:
                    f06("abandon-applied-to-answered-call", "step %d %s ok on a %s subscription" % (i, tok, sub.state))
        elif k == "dp":
            if r == "ok":
                if sub.state in ("pending", "abandoned"):
                    sub.state = "dropped"
                else:
                    f04("engine-result", "step %d %s ok on a %s subscription" % (i, tok, sub.state))
        elif k == "cl":
            if r == "ok":
                sub.sinks.add(int(f[3]))
        elif k == "dr":
            if r == "ok":
                sub.sinks.discard(int(f[2]))
                if sub.sinks and should_be_open(sub):
                    sub.clone_dropped = True
        elif k in ("snd", "tsnd"):
            x = int(f[3])
            if r in ("ok", "err"):
                xowner[x] = ("snd", sub.handle)
                sub.sends[x] = i
            if r == "ok":
                # C04: a send started after the subscription was closed must fail
                if sub.closed_at is not None:
                    f04("send-after-close-delivered", "step %d %s ok although closed at step %d" % (i, tok, sub.closed_at))
                sub.sends_ok.append(x)
            elif r == "err":
                # C06: while not unsubscribed, connection open and a sink held, the subscription stays active
                if should_be_open(sub):
                    f06(KNOWN_KEY if sub.clone_dropped else "stays-active", "step %d %s failed on a subscription that should be active" % (i, tok))
        elif k == "isc":
            if r == "1" and should_be_open(sub):
                f06(KNOWN_KEY if sub.clone_dropped else "stays-active", "step %d %s: sink reports closed on a subscription that should be active" % (i, tok))
            if r == "0" and sub.closed_at is not None:
                f04("sink-open-after-close", "step %d %s: sink reports open although closed at step %d" % (i, tok, sub.closed_at))
        elif k == "ret":
            if r == "ok":
                sub.returned = True
                sub.ret = (f[2], int(f[3]) if len(f) > 3 else 0)
                if f[2] in "me":
                    xowner[sub.ret[1]] = ("ret", sub.handle)
                if sub.state == "pending":
                    sub.state = "dropped"
        elif k == "uns":
            c, req, t = int(f[1]), int(f[2]), int(f[3])
            target = next((s for s in subs if s.conn == c and s.sid == t), None)
            expected = bool(target and target.state == "accepted" and not target.unsub and target.sinks and conn_open[c])
            # C06, stated on its own: `true` only for a subscription whose accept reported success on this connection
            never_active = r == "t" and (c, t) not in accepted_ok
            if never_active:
                st = target.state if target is not None else "unknown to this connection"
                f06(NEVER_ACTIVE_KEY, "step %d %s answered true, but no accept of subscription %d ever succeeded on connection %d (it is %s)"
                    % (i, tok, t, c, st))
            if r in ("t", "f"):
                if (r == "t") != expected and not never_active:
                    known = target is not None and target.clone_dropped and expected
                    f06(KNOWN_KEY if known else "unsubscribe-truth-table",
                        "step %d %s answered %s, expected %s" % (i, tok, r, "true" if expected else "false"))
                if r == "t" and target is not None:
                    target.unsub = True
                    if target.closed_at is None:
                        target.closed_at = i
            elif r == "na" and conn_open[c] and not stopped:
                f06("unsubscribe-unanswered", "step %d" % i)
        elif k == "cd":
            c = int(f[1])
            if conn_open[c]:
                conn_open[c] = False
                for s in subs:
                    if s.conn == c and s.closed_at is None:
                        s.closed_at = i
        elif k == "stop":
            stopped = True
        settle(i)

    # ---- frames (C04)
    by_sid = {s.sid: s for s in subs}
    delivered = {s.sid: [] for s in subs}
    closing = {s.sid: 0 for s in subs}
    for c, fl in enumerate(frames):
        accepted_here = set()
        for pos, fr in enumerate(fl):
            if not isinstance(fr, dict):
                f04("bad-frame", str(fr)[:100])
                continue
            if "method" in fr:
                p = fr.get("params") if isinstance(fr.get("params"), dict) else {}
                sid = p.get("subscription")
                if fr.get("method") != "note":
                    f04("own-method", "conn %d frame %d: method %r" % (c, pos, fr.get("method")))
                s = by_sid.get(sid)
                if s is None or s.conn != c:
                    f04("own-id", "conn %d frame %d carries subscription %r which is not a subscription of this connection" % (c, pos, sid))
                    continue
                if sid not in accepted_here:
                    f04("notification-before-accept", "conn %d frame %d: subscription %r not accepted before" % (c, pos, sid))
                if s.state != "accepted":
                    f04("rejected-not-silent", "conn %d frame %d: notification for %s subscription %r" % (c, pos, s.state, sid))
                if "result" in p:
                    x = p["result"]
                    own = xowner.get(x)
                    if own is None or own[1] != s.handle:
                        f04("own-id", "conn %d frame %d: payload %r was not produced for subscription %r" % (c, pos, x, sid))
                    elif own[0] == "ret":
                        closing[sid] += 1
                        if not (s.ret and s.ret[0] == "m"):
                            f04("closing-unexpected", "conn %d frame %d" % (c, pos))
                    else:
                        delivered[sid].append(x)
                elif "error" in p:
                    closing[sid] += 1
                    if not (s.ret and s.ret[0] == "e" and p["error"] == "e%d" % s.ret[1]):
                        f04("closing-unexpected", "conn %d frame %d: %r" % (c, pos, p["error"]))
                else:
                    f04("bad-frame", json.dumps(fr)[:100])
            elif "result" in fr and isinstance(fr["result"], int) and not isinstance(fr["result"], bool):
                accepted_here.add(fr["result"])
                s = by_sid.get(fr["result"])
                if s is None or s.conn != c or s.req != fr.get("id"):
                    f04("accept-response", "conn %d frame %d: %s" % (c, pos, json.dumps(fr)))
    for s in subs:
        # in the order the handler produced them, nothing lost, nothing duplicated
        if delivered[s.sid] != s.sends_ok:
            f04("fifo-order", "subscription %d: delivered %s, sends that returned Ok %s" % (s.sid, delivered[s.sid], s.sends_ok))
        if closing[s.sid] > 1:
            f04("closing-twice", "subscription %d: %d closing notifications" % (s.sid, closing[s.sid]))
        if closing[s.sid] and s.state != "accepted":
            f04("rejected-not-silent", "subscription %d (%s) got a closing notification" % (s.sid, s.state))
    return res


def shrink(line, key, prop, budget=2500):
    """Greedy step removal while the same oracle failure key persists on the implementation.
    Returns (shrunk line, oracle detail on the shrunk line)."""
    cap, nconns, steps = parse_line(line)
    entry = entry_of(line)
    cur = steps
    tries = 0
    changed = True
    while changed and tries < budget:
        changed = False
        cands = [cur[:i] + cur[i + 1:] for i in range(len(cur))]
        lines = [line_of(cap, nconns, c, entry) for c in cands]
        outs = run_impl(lines)
        tries += len(lines)
        for cand, l, o in zip(cands, lines, outs):
            if any(k == key for k, _ in oracles(l, o)[prop]):
                cur = cand
                changed = True
                break
    final = line_of(cap, nconns, cur, entry)
    out = run_impl([final])[0]
    detail = next((d for k, d in oracles(final, out)[prop] if k == key), None)
    return final, detail


def report_oracle_failures(ctx, prop, found):
    """found: [(key, line, tag, detail)].  Per key the shortest failing script is shrunk and reported first (it becomes
    the replay), the others follow unshrunk."""
    by_key = {}
    for key, line, tag, detail in found:
        by_key.setdefault(key, []).append((line, tag, detail))
    for n, (key, lst) in enumerate(sorted(by_key.items())):
        lst.sort(key=lambda t: len(t[0]))
        line, tag, detail = lst[0]
        if n < 6:
            try:
                sl, sd = shrink(line, key, prop)
                if sd is not None:
                    ctx.fail("oracle", key, {"line": sl, "tag": tag, "original": line}, sd)
            except Exception as e:  # noqa
                ctx.note("shrink failed for %s: %r" % (key, e))
        for line, tag, detail in lst[:200]:
            ctx.fail("oracle", key, {"line": line, "tag": tag}, detail)


def replay_case(payload, prop):
    case = payload["case"]
    line = case["line"] if isinstance(case, dict) else case
    print("script:", line)
    impl = vlib.sh([impl_bin()], input=impl_line_of(line) + "\n")[1].strip()
    if reuses_ids(line):
        print("sent to the implementation:", impl_line_of(line))
        print("impl (ids as sent)    ->", impl)
        impl = rename_by_generation(line, impl)
    model = vlib.sh([vlib.model_bin("subhist")], input=line + "\n")[1].strip()
    old = vlib.sh([vlib.model_bin("subhist"), "old"], input=line + "\n")[1].strip()
    print("impl                  ->", impl)
    print("model (repaired drop) ->", model)
    print("model (old drop)      ->", old)
    print("impl == model:", impl == model, "| impl == old-drop model:", impl == old)
    if os.environ.get("VERIF_SUBHIST_BIN"):
        print("implementation binary overridden:", impl_bin())
    o = oracles(line, impl)
    for p in ("C04", "C06"):
        print("oracle %s: %s" % (p, "holds" if not o[p] else o[p]))
    return 0 if not o[prop] and impl == model else 1
