#!/bin/sh
# run_all.sh [quick|thorough] : every registered check in sequence; prints one summary line each
tier=${1:-quick}
cd "$(dirname "$0")/.."
rc=0
for p in $(python3 -c "import json;print(' '.join(c['property_id'] for c in json.load(open('MANIFEST.json'))['checks']))"); do
  out=$(timeout 7200 python3 tools/vcheck.py $p --tier $tier 2>&1); r=$?
  echo "$out" | grep -E "VIOLATION|KNOWN-FINDING|^C[0-9]+ (quick|thorough)"
  [ $r -ne 0 ] && rc=1
done
exit $rc
