#!/bin/sh
# seedconfirm.sh <Cxx> : in /tmp/seed-<Cxx> run the demo with the change (must fail) and without (must pass)
p=$1; d=/tmp/seed-$p
cmd=$(python3 -c "import json;print(json.load(open('$d/SEEDED/meta.json'))['demo_cmd'])")
cd $d || exit 2
echo "--- with change:"; (eval "$cmd" 2>&1 | grep -E "^test result|FAILED|panicked" | head -4)
git apply -R SEEDED/patch.diff || exit 2
echo "--- without change:"; (eval "$cmd" 2>&1 | grep -E "^test result|FAILED|panicked" | head -4)
git apply SEEDED/patch.diff
