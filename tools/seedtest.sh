#!/bin/sh
# seedtest.sh <patch.diff> <Cxx> [more Cxx ...] : apply a seeded change to /repo, run the checks, undo it.
# Never run this while builder agents or run_all.sh are working (they would see the mutated tree).
p="$1"; shift
cd /repo || exit 2
git diff --quiet || { echo "/repo working tree not clean"; exit 2; }
git apply "$p" || { echo "patch does not apply"; exit 2; }
for c in "$@"; do
  echo "=== $c against $(basename $(dirname $p))/$(basename $p)"
  (cd /verif && timeout 1800 python3 tools/vcheck.py $c > work/seedtest.out 2>&1
   grep -E "KNOWN-FINDING" work/seedtest.out | cut -c1-200
   for k in oracle proof translate build diff; do
     n=$(grep -c "failure\[$k\]" work/seedtest.out); [ "$n" -gt 0 ] && { echo "  [$k] x$n"; grep "failure\[$k\]" work/seedtest.out | cut -c1-400 | head -2; }
   done
   grep -E "VIOLATION" work/seedtest.out | head -3
   grep -E "^C[0-9]+ (quick|thorough)" work/seedtest.out)
done
git checkout -- . && git status --short | head -3
