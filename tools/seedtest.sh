#!/bin/sh
# seedtest.sh <patch.diff> <Cxx> [more Cxx ...] : apply a seeded change to /repo, run the checks, undo it.
p="$1"; shift
cd /repo || exit 2
git diff --quiet || { echo "/repo working tree not clean"; exit 2; }
git apply "$p" || { echo "patch does not apply"; exit 2; }
for c in "$@"; do
  echo "=== $c against $(basename $(dirname $p))/$(basename $p)"
  (cd /verif && timeout 1800 python3 tools/vcheck.py $c 2>&1 | grep -E "VIOLATION|KNOWN-FINDING|failure\[|^C[0-9]+ (quick|thorough)" | cut -c1-400 | head -12)
done
git checkout -- . && git status --short | head -3
