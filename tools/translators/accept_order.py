"""core/src/server/subscription.rs (PendingSubscriptionSink::accept)  ->  coq/Gen/AcceptOrderGen.v

Reads the ORDER of the effectful steps of `accept()` and emits it as a list of constructors of
Model/AcceptSteps.accept_step, which Model/SubBook.v interprets (accept_run):
    ASendToSink    self.inner.send(<the response json>).await ... ?     (fallible: connection's channel closed)
    ANotifyCall    self.subscribe.send(response) ... ?                  (fallible: the subscribe-call future is gone)
    ATableInsert   self.subscribers.lock().insert(self.uniq_sub.clone(), ..)
    ABuildSink     Ok(SubscriptionSink { .. })
Every anchor must occur exactly once; the two sends must still be propagated with `?`; the function must have exactly
one await (the send to the sink: every further await would be a seam the model does not have); the sink must be the
last step (it is the return value).  A missing anchor is an error string, never a silent default.

The source can be overridden for trying the translator on a scratch copy: run(path=<file>), or the environment
variables VERIF_ACCEPT_SRC (file) / VERIF_REPO (root of a checkout).  With an override the result is NOT written to
/verif/coq/Gen: it goes to `out` (run(path, out) / second command-line argument / VERIF_ACCEPT_OUT) or to stdout."""
import os, re, sys
sys.path.insert(0, os.path.dirname(os.path.dirname(os.path.abspath(__file__))))
import translate, vlib

REL = "core/src/server/subscription.rs"

ANCHORS = [
    # any argument: `self.inner.send(response.to_json())` as well as `let json = response.to_json(); .. self.inner.send(json)`
    ("ASendToSink", "send to the connection's sink", r"self\s*\.\s*inner\s*\.\s*send\s*\("),
    ("ANotifyCall", "notify the subscribe call", r"self\s*\.\s*subscribe\s*\.\s*send\s*\(\s*response\s*\)"),
    ("ATableInsert", "insert into the subscriber table", r"self\s*\.\s*subscribers\s*\.\s*lock\s*\(\s*\)\s*\.\s*insert\s*\("),
    ("ABuildSink", "build the sink", r"Ok\s*\(\s*SubscriptionSink\s*\{"),
]


def _strip_comments(s):
    s = re.sub(r"/\*.*?\*/", "", s, flags=re.S)
    return re.sub(r"//[^\n]*", "", s)


def _statement_end(body, start):
    """index just after the `;` that ends the statement starting at `start` (bracket depth 0)"""
    depth = 0
    j = start
    while j < len(body):
        ch = body[j]
        if ch in "([{":
            depth += 1
        elif ch in ")]}":
            depth -= 1
            if depth < 0:
                return j
        elif ch == ";" and depth == 0:
            return j + 1
        j += 1
    return len(body)


def classify(src):
    """-> (list of constructor names, description) or (None, error string)"""
    m = re.search(r"impl\s+PendingSubscriptionSink\s*\{", src)
    if not m:
        return None, "impl PendingSubscriptionSink not found"
    body = translate._fn_body(src[m.start():], r"pub\s+async\s+fn\s+accept\s*\(\s*self\s*\)\s*->\s*Result\s*<\s*SubscriptionSink\s*,\s*PendingSubscriptionAcceptError\s*>\s*\{")
    if body is None:
        return None, "PendingSubscriptionSink::accept (pub async fn accept(self) -> Result<SubscriptionSink, PendingSubscriptionAcceptError>) not found"
    body = _strip_comments(body)
    found = []
    for name, what, pat in ANCHORS:
        hits = [x.start() for x in re.finditer(pat, body)]
        if not hits:
            return None, "accept(): anchor `%s` (%s) not found" % (name, what)
        if len(hits) > 1:
            return None, "accept(): anchor `%s` (%s) occurs %d times, expected once" % (name, what, len(hits))
        found.append((hits[0], name, what))
    pos = dict((n, p) for p, n, _ in found)
    # the two sends are fallible steps: their statement must still end in `?;`
    for name in ("ASendToSink", "ANotifyCall"):
        end = _statement_end(body, pos[name])
        stmt = re.sub(r"\s+", "", body[pos[name]:end])
        if not stmt.endswith("?;"):
            return None, "accept(): the statement of `%s` no longer propagates its error with `?` (found `%s`)" % (name, stmt[:120])
    end = _statement_end(body, pos["ASendToSink"])
    if ".await" not in re.sub(r"\s+", "", body[pos["ASendToSink"]:end]):
        return None, "accept(): the send to the sink is not awaited"
    n_await = len(re.findall(r"\.\s*await\b", body))
    if n_await != 1:
        return None, "accept(): expected exactly one await (the send to the sink), found %d" % n_await
    found.sort()
    order = [n for _, n, _ in found]
    if order[-1] != "ABuildSink":
        return None, "accept(): the sink is built before another step (%s); the model has the sink as the returned value" % " < ".join(order)
    return order, " < ".join(w for _, _, w in found)


def run(path=None, out=None):
    if not path:
        path = os.environ.get("VERIF_ACCEPT_SRC")
    if not path and os.environ.get("VERIF_REPO"):
        path = os.path.join(os.environ["VERIF_REPO"], REL)
    out = out or os.environ.get("VERIF_ACCEPT_OUT")
    src = open(path).read() if path else translate._read(REL)
    order, info = classify(src)
    if order is None:
        return info
    text = "\n".join([
        "(* GENERATED by tools/translators/accept_order.py from %s -- do not edit *)" % (path or "/repo/" + REL),
        "From Coq Require Import List.",
        "From JV Require Import Model.AcceptSteps.",
        "Import ListNotations.",
        "",
        "(* order of the effectful steps of PendingSubscriptionSink::accept as read from the source:",
        "   %s *)" % info,
        "Definition accept_steps : list accept_step := [%s]." % "; ".join(order),
        ""])
    if out:
        vlib.write_if_changed(out, text)
    elif not path:
        vlib.write_if_changed(os.path.join(translate.GEN, "AcceptOrderGen.v"), text)
    else:
        print(text)
    return None


if __name__ == "__main__":
    r = run(sys.argv[1] if len(sys.argv) > 1 else None, sys.argv[2] if len(sys.argv) > 2 else None)
    if r:
        print("ERROR:", r)
        sys.exit(1)
