"""server/src/server.rs (handle_rpc_call) + server/src/middleware/rpc.rs (RpcService::batch)
   + core/src/server/method_response.rs (BatchResponseBuilder::{is_empty, finish})   ->   coq/Gen/BatchGateGen.v

Reads the ORDER and the CONDITIONS of what happens to a message sniffed as a batch and emits them as two lists of
constructors of Model/BatchGate.v, which Model/Server.v interprets (run_gate / run_epilogue):

  batch_gate      the prologue in handle_rpc_call's batch branch, by source position:
      GDisabledRejects (C, M, None)   `let max_len = match batch_config { BatchRequestConfig::Disabled => return error(Id::Null,
                                        ErrorObject::borrowed(C, M, None)), Limit(l) => l as usize, Unlimited => usize::MAX };`
      GParseArray <shape of X>        `if let Ok(v) = serde_json::from_slice::<Vec<&JsonRawValue>>(body) {..} else
                                        { MethodResponse::error(Id::Null, ErrorObject::from(ErrorCode::X)) }`
      GTooLong LenGt|LenGe <helper>_shape
                                      `if v.len() > max_len { return MethodResponse::error(Id::Null, <helper>(max_len)); }`
      GEntriesMustBeObjects           `for call in v { if !call.get().starts_with('{') { Err(Id::Null, InvalidRequest) } else if
                                        Request .. else if Notification .. else { InvalidRequest{id} or Id::Null } }` followed by
                                        `rpc_service.batch(Batch::from(batch)).await` as the value of the block
  batch_epilogue  what RpcService::batch does after its loop over the entries:
      FAllNotificationsSilent         `if batch_rp.is_empty() && got_notification { MethodResponse::notification() }`
                                        (is_empty: `self.result.len() <= 1`)
      FEmptyIsInvalid <shape of X>    `else { MethodResponse::from_batch(batch_rp.finish()) }`, finish: `if self.result.len() == 1
                                        { batch_response_error(Id::Null, ErrorObject::from(ErrorCode::X)) }`
      FCloseArray                     finish: `else { self.result.pop(); self.result.push(']'); .. }`

Strict: the batch branch may contain nothing but these statements (plus `let mut batch = Vec::with_capacity(v.len());`);
anything else -- an extra check, another comparison, a different error constructor -- is a translation error that names
what was found.  Shapes refer to the constants of Gen/ErrorConstsGen.v (translator error_consts); the ErrorCode variants
and helper names are checked against types/src/error.rs.

Overrides for scratch copies (the result is then NOT written to /verif/coq/Gen): run(path=<server.rs>, out=<file>,
rpc_path=.., mr_path=.., err_path=..), VERIF_BATCHGATE_SRC / VERIF_BATCHGATE_OUT, VERIF_REPO (root of a checkout);
command line: batch_gate.py [server.rs|-] [out]."""
import os, re, sys
sys.path.insert(0, os.path.dirname(os.path.dirname(os.path.abspath(__file__))))
import translate, vlib
from translators import error_consts as ec
from translators.error_consts import Missing, _need, squeeze, block_at, fn_body, mask, drop_trailing_commas, no_tests, snake

REL = "server/src/server.rs"
REL_RPC = "server/src/middleware/rpc.rs"
REL_MR = ec.REL_MR
REL_ERR = ec.REL


def sq(s):
    return drop_trailing_commas(squeeze(s))


def _remove(text, start, end):
    """text with [start, end) blanked (same length, so other positions stay valid)"""
    return text[:start] + " " * (end - start) + text[end:]


def _block_after(text, m):
    """(block text, index after the closing brace) for the `{` that ends regex match m"""
    i = m.end() - 1
    b = block_at(text, i)
    _need(b is not None, "unbalanced braces after `%s`" % text[m.start():m.end()][:60])
    return b, i + len(b) + 2


def read_prologue(src, variants, helpers, codes, msgs):
    W = "handle_rpc_call"
    msrc = mask(no_tests(src))
    body = fn_body(msrc, r"async\s+fn\s+handle_rpc_call\s*<")
    _need(body is not None, "server.rs: `async fn handle_rpc_call<..>` not found")
    m = re.search(r"\bif\s+is_single\s*\{", body)
    _need(m, "%s: `if is_single {` not found" % W)
    _, after_single = _block_after(body, m)
    m2 = re.compile(r"\s*else\s*\{").match(body, after_single)
    _need(m2, "%s: the `else {` (batch) branch of `if is_single` not found" % W)
    B, after_batch = _block_after(body, m2)
    _need(body[after_batch:].strip() == "", "%s: statements after the `if is_single {..} else {..}` expression: `%s`" % (W, body[after_batch:].strip()[:80]))

    # ---- parse: if let Ok(v) = serde_json::from_slice::<Vec<&JsonRawValue>>(body) { T } else { E }
    pm = list(re.finditer(r"\bif\s+let\s+Ok\s*\(\s*(\w+)\s*\)\s*=\s*serde_json\s*::\s*from_slice\s*::\s*<\s*Vec\s*<\s*&\s*(?:'\w+\s+)?JsonRawValue\s*>\s*>\s*\(\s*body\s*\)\s*\{", B))
    _need(len(pm) == 1, "%s: expected exactly one `if let Ok(v) = serde_json::from_slice::<Vec<&JsonRawValue>>(body) {`, found %d" % (W, len(pm)))
    pm = pm[0]
    V = pm.group(1)
    T, after_T = _block_after(B, pm)
    T_off = pm.end()
    em = re.compile(r"\s*else\s*\{").match(B, after_T)
    _need(em, "%s: the array parse has no `else` arm" % W)
    E, after_E = _block_after(B, em)
    pe = re.fullmatch(r"MethodResponse::error\(Id::Null,ErrorObject::from\(ErrorCode::(\w+)\)\)", sq(E))
    _need(pe, "%s: the else arm of the array parse is not `MethodResponse::error(Id::Null, ErrorObject::from(ErrorCode::<X>))` (found `%s`)" % (W, sq(E)[:160]))
    _need(pe.group(1) in variants, "%s: ErrorCode::%s is not a named variant of ErrorCode" % (W, pe.group(1)))
    parse_shape = "from_%s_shape" % snake(pe.group(1))
    outer_rest = _remove(B, pm.start(), after_E)

    # ---- disabled gate: let max_len = match batch_config { .. };   (top level of the batch branch, or inside T)
    dre = re.compile(r"\blet\s+(\w+)\s*=\s*match\s+batch_config\s*\{")
    d_out, d_in = list(dre.finditer(outer_rest)), list(dre.finditer(T))
    _need(len(d_out) + len(d_in) == 1, "%s: expected exactly one `let <max_len> = match batch_config {`, found %d" % (W, len(d_out) + len(d_in)))
    inside = bool(d_in)
    dm = (d_in or d_out)[0]
    host = T if inside else outer_rest
    arms, after_arms = _block_after(host, dm)
    sm = re.compile(r"\s*;").match(host, after_arms)
    _need(sm, "%s: `let %s = match batch_config {..}` is not closed by `;`" % (W, dm.group(1)))
    MAXLEN = dm.group(1)
    a = sq(arms)
    dis = re.search(r"BatchRequestConfig::Disabled=>\{(?:let(\w+)=MethodResponse::error\(Id::Null,ErrorObject::borrowed\((\w+),(\w+),None\)\);return\1;|returnMethodResponse::error\(Id::Null,ErrorObject::borrowed\((\w+),(\w+),None\)\);?)\},?", a)
    _need(dis, "%s: the `BatchRequestConfig::Disabled` arm is not `{ return MethodResponse::error(Id::Null, ErrorObject::borrowed(<X>_CODE, <Y>_MSG, None)) }` (arms: `%s`)" % (W, a[:240]))
    dcode, dmsg = (dis.group(2), dis.group(3)) if dis.group(2) else (dis.group(4), dis.group(5))
    _need(dcode in codes, "%s: Disabled arm: `%s` is not one of the *_CODE constants" % (W, dcode))
    _need(dmsg in msgs, "%s: Disabled arm: `%s` is not one of the *_MSG constants" % (W, dmsg))
    lim = re.search(r"BatchRequestConfig::Limit\((\w+)\)=>\1asusize,?", a)
    _need(lim, "%s: the arm `BatchRequestConfig::Limit(limit) => limit as usize` not found (arms: `%s`)" % (W, a[:240]))
    unl = re.search(r"BatchRequestConfig::Unlimited=>usize::MAX,?", a)
    _need(unl, "%s: the arm `BatchRequestConfig::Unlimited => usize::MAX` not found (arms: `%s`)" % (W, a[:240]))
    left = a
    for x in (dis, lim, unl):
        left = left.replace(x.group(0), "", 1)
    _need(left.strip(",") == "", "%s: unrecognised arm(s) in `match batch_config`: `%s`" % (W, left[:160]))
    d_abs = (T_off + dm.start()) if inside else dm.start()
    if inside:
        T_rest = _remove(T, dm.start(), sm.end())
    else:
        T_rest = T
        outer_rest = _remove(outer_rest, dm.start(), sm.end())
    _need(outer_rest.strip() == "", "%s: unrecognised statement(s) in the batch branch: `%s`" % (W, " ".join(outer_rest.split())[:200]))

    # ---- length check: if v.len() > max_len { return MethodResponse::error(Id::Null, reject_..(max_len)); }
    lre = re.compile(r"\bif\s+%s\s*\.\s*len\s*\(\s*\)\s*(>=|>)\s*%s\s*\{" % (re.escape(V), re.escape(MAXLEN)))
    lm = list(lre.finditer(T_rest))
    _need(len(lm) == 1, "%s: expected exactly one `if %s.len() > %s {`, found %d" % (W, V, MAXLEN, len(lm)))
    lm = lm[0]
    L, after_L = _block_after(T_rest, lm)
    lr = re.fullmatch(r"returnMethodResponse::error\(Id::Null,(\w+)\(%s\)\);?" % re.escape(MAXLEN), sq(L))
    _need(lr, "%s: the length check does not `return MethodResponse::error(Id::Null, <helper>(%s));` (found `%s`)" % (W, MAXLEN, sq(L)[:160]))
    _need(lr.group(1) in helpers, "%s: `%s` is not one of the limit helpers of types/src/error.rs (%s)" % (W, lr.group(1), ", ".join(helpers)))
    cmp_ctor = "LenGt" if lm.group(1) == ">" else "LenGe"
    l_abs = T_off + lm.start()
    if inside:
        _need(dm.start() < lm.start(), "%s: `%s` is compared before it is bound" % (W, MAXLEN))
    T_rest = _remove(T_rest, lm.start(), after_L)

    # ---- the loop over the entries
    fm = list(re.finditer(r"\bfor\s+(\w+)\s+in\s+%s\s*\{" % re.escape(V), T_rest))
    _need(len(fm) == 1, "%s: expected exactly one `for call in %s {`, found %d" % (W, V, len(fm)))
    fm = fm[0]
    c = re.escape(fm.group(1))
    F, after_F = _block_after(T_rest, fm)
    loop_re = (r"if!%s\.get\(\)\.starts_with\('\{'\)\{(\w+)\.push\(Err\(BatchEntryErr::new\(Id::Null,ErrorCode::InvalidRequest\.into\(\)\)\)\);\}"
               r"elseifletOk\((\w+)\)=deserialize_with_ext::call::from_str\(%s\.get\(\),&extensions\)\{\1\.push\(Ok\(BatchEntry::Call\(\2\)\)\);\}"
               r"elseifletOk\((\w+)\)=deserialize_with_ext::notif::from_str::<Notif>\(%s\.get\(\),&extensions\)\{\1\.push\(Ok\(BatchEntry::Notification\(\3\)\)\);\}"
               r"else\{let(\w+)=matchserde_json::from_str::<jsonrpsee_types::InvalidRequest>\(%s\.get\(\)\)\{Ok\((\w+)\)=>\5\.id,Err\(_\)=>Id::Null\};"
               r"\1\.push\(Err\(BatchEntryErr::new\(\4,ErrorCode::InvalidRequest\.into\(\)\)\)\);\}") % (c, c, c, c)
    fl = re.fullmatch(loop_re, sq(F))
    _need(fl, "%s: the loop over the entries is not `if !call.get().starts_with('{') {Err(Id::Null, InvalidRequest)} else if Request "
              "{Call} else if Notification {Notification} else {Err(InvalidRequest{id} or Id::Null, InvalidRequest)}` (found `%s`)" % (W, sq(F)[:400]))
    vec = fl.group(1)
    f_abs = T_off + fm.start()
    T_rest = _remove(T_rest, fm.start(), after_F)
    # ---- what is left: the vector and the call of the service, in this order, the call last
    rest = sq(T_rest)
    want = r"letmut%s=Vec::with_capacity\(%s\.len\(\)\);rpc_service\.batch\(Batch::from\(%s\)\)\.await" % (re.escape(vec), re.escape(V), re.escape(vec))
    _need(re.fullmatch(want, rest), "%s: besides the gates and the loop the parsed branch must be `let mut %s = Vec::with_capacity(%s.len()); "
                                    "rpc_service.batch(Batch::from(%s)).await`, found `%s`" % (W, vec, V, vec, rest[:240]))
    tail = re.search(r"rpc_service\s*\.\s*batch\s*\(", T_rest)
    _need(tail and tail.start() > fm.start(), "%s: rpc_service.batch(..) is called before the loop over the entries" % W)
    _need(re.search(r"let\s+mut\s+%s\b" % re.escape(vec), T_rest).start() < fm.start(), "%s: `%s` is declared after the loop" % (W, vec))

    steps = sorted([(d_abs, "GDisabledRejects (%s, %s, None)" % (dcode.lower(), dmsg.lower()), "Disabled rejects"),
                    (pm.start(), "GParseArray %s" % parse_shape, "parse the array"),
                    (l_abs, "GTooLong %s %s_shape" % (cmp_ctor, lr.group(1)), "len %s max_len" % lm.group(1)),
                    (f_abs, "GEntriesMustBeObjects", "entries (objects only) + rpc_service.batch")])
    return [s for _, s, _ in steps], " < ".join(w for _, _, w in steps)


def read_epilogue(rpc_src, mr_src, variants):
    W = "RpcService::batch"
    msrc = mask(no_tests(rpc_src))
    body = fn_body(msrc, r"\bfn\s+batch\s*<\s*'a\s*>\s*\(\s*&\s*self\s*,\s*(\w+)\s*:\s*Batch\s*<\s*'a\s*>\s*\)")
    _need(body is not None, "rpc.rs: `fn batch<'a>(&self, batch: Batch<'a>)` not found")
    bm = re.search(r"let\s+mut\s+(\w+)\s*=\s*BatchResponseBuilder\s*::\s*new_with_limit\s*\(", body)
    _need(bm, "%s: `let mut batch_rp = BatchResponseBuilder::new_with_limit(..)` not found" % W)
    rp = re.escape(bm.group(1))
    am = re.search(r"\basync\s+move\s*\{", body)
    _need(am, "%s: `async move {` not found" % W)
    A, _ = _block_after(body, am)
    fm = list(re.finditer(r"\bfor\s+\w+\s+in\s+\w+\s*\.\s*into_iter\s*\(\s*\)\s*\{", A))
    _need(len(fm) == 1, "%s: expected exactly one `for batch_entry in batch.into_iter() {`, found %d" % (W, len(fm)))
    _, after_for = _block_after(A, fm[0])
    gm = re.search(r"let\s+mut\s+(\w+)\s*=\s*false\s*;", A[:fm[0].start()])
    _need(gm, "%s: `let mut got_notification = false;` before the loop not found" % W)
    g = re.escape(gm.group(1))
    _need(re.search(r"Ok\s*\(\s*BatchEntry\s*::\s*Notification\s*\(\s*\w+\s*\)\s*\)\s*=>\s*\{\s*%s\s*=\s*true\s*;" % g, A[fm[0].start():after_for]),
          "%s: the Notification arm does not set `%s = true`" % (W, gm.group(1)))
    tail = sq(A[after_for:])
    tm = re.fullmatch(r"if(?:%s\.is_empty\(\)&&%s|%s&&%s\.is_empty\(\))\{MethodResponse::notification\(\)\}else\{MethodResponse::from_batch\(%s\.finish\(\)\)\}" % (rp, g, g, rp, rp), tail)
    _need(tm, "%s: after the loop: expected `if %s.is_empty() && %s { MethodResponse::notification() } else { MethodResponse::from_batch(%s.finish()) }`, found `%s`"
          % (W, bm.group(1), gm.group(1), bm.group(1), tail[:300]))
    # ---- BatchResponseBuilder::{is_empty, finish}
    mmr = mask(no_tests(mr_src))
    im = re.search(r"impl\s+BatchResponseBuilder\s*\{", mmr)
    _need(im, "method_response.rs: impl BatchResponseBuilder not found")
    imp = block_at(mmr, im.end() - 1)
    ie = fn_body(imp, r"pub\s+fn\s+is_empty\s*\(\s*&\s*self\s*\)\s*->\s*bool\s*\{")
    _need(ie is not None, "BatchResponseBuilder::is_empty not found")
    _need(sq(ie) == "self.result.len()<=1", "BatchResponseBuilder::is_empty is not `self.result.len() <= 1` (found `%s`)" % sq(ie)[:120])
    nw = fn_body(imp, r"pub\s+fn\s+new_with_limit\s*\(\s*\w+\s*:\s*usize\s*\)\s*->\s*Self\s*\{")
    _need(nw is not None and re.search(r"\.push\('\['\);", sq(nw)), "BatchResponseBuilder::new_with_limit: the initial `push('[')` not found")
    fb = fn_body(imp, r"pub\s+fn\s+finish\s*\(\s*mut\s+self\s*\)\s*->\s*BatchResponse\s*\{")
    _need(fb is not None, "BatchResponseBuilder::finish not found")
    fr = re.fullmatch(r"ifself\.result\.len\(\)==1\{BatchResponse\{json:batch_response_error\(Id::Null,ErrorObject::from\(ErrorCode::(\w+)\)\),extensions:self\.extensions\}\}"
                      r"else\{self\.result\.pop\(\);self\.result\.push\('\]'\);letjson=RawValue::from_string\(self\.result\)\.expect\(\"[^\"]*\"\);BatchResponse\{json,extensions:self\.extensions\}\}", sq(fb))
    _need(fr, "BatchResponseBuilder::finish is not `if self.result.len() == 1 { error(Id::Null, ErrorObject::from(ErrorCode::<X>)) } else { pop(); push(']'); .. }` (found `%s`)" % sq(fb)[:400])
    _need(fr.group(1) in variants, "BatchResponseBuilder::finish: ErrorCode::%s is not a named variant of ErrorCode" % fr.group(1))
    return ["FAllNotificationsSilent", "FEmptyIsInvalid from_%s_shape" % snake(fr.group(1)), "FCloseArray"]


def generate(src, rpc_src, mr_src, err_src, origin):
    codes, msgs = ec.read_consts(no_tests(err_src))
    pairs, _ = ec.read_errorcode(no_tests(err_src), codes, msgs)
    variants = [v for v, _, _ in pairs]
    for fn in ec.HELPERS:
        ec.read_helper(no_tests(err_src), fn, codes, msgs)
    gate, order = read_prologue(src, variants, ec.HELPERS, dict(codes), dict(msgs))
    epi = read_epilogue(rpc_src, mr_src, variants)
    return "\n".join([
        "(* GENERATED by tools/translators/batch_gate.py from %s -- do not edit *)" % origin,
        "From JV Require Import Base.Bytes Model.ErrShape Model.BatchGate Gen.ErrorConstsGen.",
        "",
        "(* handle_rpc_call, batch branch, in source order: %s *)" % order,
        "Definition batch_gate : list gate_step :=",
        "  [" + ";\n   ".join(gate) + "].",
        "",
        "(* RpcService::batch after its loop; BatchResponseBuilder::{is_empty, finish} *)",
        "Definition batch_epilogue : list epilogue_step :=",
        "  [" + ";\n   ".join(epi) + "].",
        ""])


def run(path=None, out=None, rpc_path=None, mr_path=None, err_path=None):
    path = path or os.environ.get("VERIF_BATCHGATE_SRC")
    root = os.environ.get("VERIF_REPO")
    if root:
        path = path or os.path.join(root, REL)
        rpc_path = rpc_path or os.path.join(root, REL_RPC)
        mr_path = mr_path or os.path.join(root, REL_MR)
        err_path = err_path or os.path.join(root, REL_ERR)
    out = out or os.environ.get("VERIF_BATCHGATE_OUT")
    override = bool(path or rpc_path or mr_path or err_path)
    rd = lambda p, rel: open(p).read() if p else translate._read(rel)
    try:
        text = generate(rd(path, REL), rd(rpc_path, REL_RPC), rd(mr_path, REL_MR), rd(err_path, REL_ERR),
                        ", ".join([path or "/repo/" + REL, rpc_path or "/repo/" + REL_RPC, mr_path or "/repo/" + REL_MR]))
    except Missing as e:
        return str(e)
    if out:
        vlib.write_if_changed(out, text)
    elif not override:
        vlib.write_if_changed(os.path.join(translate.GEN, "BatchGateGen.v"), text)
    else:
        print(text)
    return None


if __name__ == "__main__":
    a = [None if x == "-" else x for x in sys.argv[1:]] + [None] * 2
    r = run(a[0], a[1])
    if r:
        print("ERROR:", r)
        sys.exit(1)
