"""core/src/client/async_client/mod.rs (handle_backend_messages::handle_recv_message)  ->  coq/Gen/ClientDispatchGen.v

Reads how the async client's read task dispatches one incoming transport message and emits it as a value of
Model/ClientDispatch.dispatch, which Model/ClientMgr.v INTERPRETS (classify_with / classify_frame_with / handle_back_with):

  client_first_byte / client_first_byte_default
        `let first_non_whitespace = raw.iter().find(|byte| !byte.is_ascii_whitespace());`
        `match first_non_whitespace { Some(b'{') => {..}  Some(b'[') => {..}  _ => { return Err(unparse_error(raw)); } }`
        each arm is BSingle (an `if let Ok(..) = serde_json::from_slice::<T>(raw)` chain), BArray (`if let Ok(v) =
        serde_json::from_slice::<Vec<&JsonRawValue>>(raw) { loop + epilogue } else { return Err(unparse_error(raw)); }`) or BError
  client_single_dispatch / client_single_no_reader
        the readers of the single arm in the order they are tried, each with the action of its arm; the final `else`
  client_elem_dispatch / client_elem_no_reader
        the same for the `for r in raw_responses { .. }` loop (readers on `r.get()`), plus whether the arm sets `got_notif = true`
  client_array_epilogue
        the statements after the loop (PBatchResponse, PEmptyIsFatal); the `else` of the Vec<&RawValue> parse must be
        `return Err(unparse_error(raw));`
  client_dispatch   the record bundling them.

Readers: Response<_> -> TryResponse, SubscriptionResponse<_> -> TrySubResponse, SubscriptionError<_> -> TrySubError,
Notification -> TryNotification.  Actions (exact bodies, modulo whitespace / comments / trailing commas / variable names):
  ASingleResponse c   let m = process_single_response(&mut manager.lock(), x.into_owned().into(), max_buffer_capacity_per_subscription)?;
                      if let Some(sub_id) = m { <close c> }
  ABatchCollect k     let id = x.id.try_parse_inner_as_number()?;   (k = IdNumberOrFatal; without the `?`: IdNumberUnchecked)
                      batch.push(x.into_owned().into()); let r = range.get_or_insert(id..id);
                      if id < r.start { r.start = id; } if id > r.end { r.end = id; }
  ASubItem c          if let Some(sub_id) = process_subscription_response(&mut manager.lock(), x) { <close c> }
  ASubClose           process_subscription_close_response(&mut manager.lock(), x);
  ANotification       process_notification(&mut manager.lock(), x);
  <close CloseReturned> = return Ok(vec![FrontToBack::SubscriptionClosed(sub_id)]);
  <close ClosePushed>   = messages.push(FrontToBack::SubscriptionClosed(sub_id));   (needs `let mut messages = Vec::new();`
                          and the function's tail `Ok(messages)`)
Strict: any other statement, reader type, argument (the single arm must read `raw`, the loop `<loop variable>.get()`),
arm pattern or early return is a translation error that names the construct; a missing anchor is an error string,
never a silent default.

Overrides for trying the translator on a scratch copy (the result is then NOT written to /verif/coq/Gen):
run(path=<mod.rs>, out=<file>), VERIF_CLIDISPATCH_SRC / VERIF_CLIDISPATCH_OUT, VERIF_REPO (root of a checkout);
command line: client_dispatch.py [mod.rs|-] [out]  (no `out`: printed)."""
import os, re, sys
sys.path.insert(0, os.path.dirname(os.path.dirname(os.path.abspath(__file__))))
import translate, vlib
from translators.error_consts import Missing, _need, squeeze, block_at, mask, drop_trailing_commas

REL = "core/src/client/async_client/mod.rs"
W = "handle_recv_message"
LIT = re.compile(r"""b?'(?:\\.|[^'\\])'|b?"(?:\\.|[^"\\])*\"""")

READERS = {"Response<_>": "TryResponse", "SubscriptionResponse<_>": "TrySubResponse",
           "SubscriptionError<_>": "TrySubError", "Notification": "TryNotification"}


def sq(s):
    return drop_trailing_commas(squeeze(s))


def short(s, n=160):
    s = " ".join(s.split())
    return s[:n] + ("..." if len(s) > n else "")


def _close_at(src, i, op, cl):
    """index of the partner of the bracket `op` at index i (literals skipped), or -1"""
    depth, j, n = 0, i, len(src)
    while j < n:
        m = LIT.match(src, j)
        if m:
            j = m.end()
            continue
        if src[j] == op:
            depth += 1
        elif src[j] == cl:
            depth -= 1
            if depth == 0:
                return j
        j += 1
    return -1


def _blank(text, a, b):
    return text[:a] + " " * (b - a) + text[b:]


def parse_chain(text, where):
    """`if C1 { B1 } else if C2 { B2 } .. [else { E }]` + optional `;`, nothing else.
    -> ([(C, B)], E or None)"""
    arms, els, j, n = [], None, 0, len(text)
    ws = re.compile(r"\s*")
    j = ws.match(text, j).end()
    _need(re.compile(r"if\b").match(text, j), "%s: expected an `if let Ok(..) = ..` chain, found `%s`" % (where, short(text[j:], 100)))
    while True:
        j += 2  # `if`
        k, depth = j, 0
        while k < n:
            m = LIT.match(text, k)
            if m:
                k = m.end()
                continue
            if text[k] in "([":
                depth += 1
            elif text[k] in ")]":
                depth -= 1
            elif text[k] == "{" and depth == 0:
                break
            k += 1
        _need(k < n, "%s: `if %s` has no block" % (where, short(text[j:], 80)))
        cond = text[j:k]
        e = _close_at(text, k, "{", "}")
        _need(e >= 0, "%s: unbalanced braces after `if %s`" % (where, short(cond, 80)))
        arms.append((cond, text[k + 1:e]))
        j = ws.match(text, e + 1).end()
        if not re.compile(r"else\b").match(text, j):
            break
        j = ws.match(text, j + 4).end()
        if re.compile(r"if\b").match(text, j):
            continue
        _need(j < n and text[j] == "{", "%s: `else` is followed by neither `if` nor a block: `%s`" % (where, short(text[j:], 80)))
        e = _close_at(text, j, "{", "}")
        _need(e >= 0, "%s: unbalanced braces in the final `else`" % where)
        els = text[j + 1:e]
        j = ws.match(text, e + 1).end()
        break
    rest = text[j:].strip()
    _need(rest in ("", ";"), "%s: unrecognised statement(s) after the if/else chain: `%s`" % (where, short(rest)))
    return arms, els


def read_close(body_sq, sub, messages, where):
    """<close c>: what is done with the close request `sub`"""
    if body_sq == "returnOk(vec![FrontToBack::SubscriptionClosed(%s)]);" % sub:
        return "CloseReturned"
    if messages and body_sq == "%s.push(FrontToBack::SubscriptionClosed(%s));" % (messages, sub):
        return "ClosePushed"
    raise Missing("%s: the close request `%s` is neither returned (`return Ok(vec![FrontToBack::SubscriptionClosed(%s)]);`) nor pushed "
                  "(`messages.push(FrontToBack::SubscriptionClosed(%s));`%s): found `%s`"
                  % (where, sub, sub, sub, "" if messages else "; no `let mut messages = Vec::new();` in this function", short(body_sq)))


def read_reader(cond, arg_re, arg_what, where):
    c = sq(cond)
    m = re.fullmatch(r"letOk\((\w+)\)=serde_json::(from_slice|from_str)::<(.+?)>\((.+)\)", c)
    _need(m, "%s: condition `%s` is not `let Ok(x) = serde_json::from_slice/from_str::<T>(..)`" % (where, short(cond)))
    var, _, ty, arg = m.groups()
    _need(ty in READERS, "%s: unknown reader type `%s` (known: %s)" % (where, ty, ", ".join(sorted(READERS))))
    _need(re.fullmatch(arg_re, arg), "%s: the %s reader reads `%s`, expected %s" % (where, ty, arg, arg_what))
    return READERS[ty], var, ty


LOCK = r"&mutmanager\.lock\(\)"


def read_action(reader, var, body, in_array, ctx, where):
    """-> (action constructor text, sets_got_notif)"""
    b = sq(body)
    v = re.escape(var)
    got = False
    if in_array:
        g = re.escape(ctx["got"]) + "=true;"
        if re.match(g, b):
            got, b = True, b[len(ctx["got"]) + 6:]
        elif b.endswith(ctx["got"] + "=true;") and re.search(r"[;}]" + g + "$", b):
            got, b = True, b[:-(len(ctx["got"]) + 6)]
    msgs = ctx["messages"]
    if reader == "TryResponse" and not in_array:
        m = re.fullmatch(r"let(\w+)=process_single_response\(%s,%s\.into_owned\(\)\.into\(\),max_buffer_capacity_per_subscription\)(\??);"
                         r"ifletSome\((\w+)\)=\1\{(.*)\}" % (LOCK, v), b)
        _need(m, "%s: the Response arm is not `let m = process_single_response(&mut manager.lock(), %s.into_owned().into(), "
                 "max_buffer_capacity_per_subscription)?; if let Some(sub_id) = m { <close> }` (found `%s`)" % (where, var, short(b, 300)))
        _need(m.group(2) == "?", "%s: the error of process_single_response(..) is no longer propagated with `?`" % where)
        return "ASingleResponse %s" % read_close(m.group(4), m.group(3), msgs, where + ", Response arm"), got
    if reader == "TryResponse" and in_array:
        m = re.fullmatch(r"let(\w+)=%s\.id\.try_parse_inner_as_number\(\)(\??);(\w+)\.push\(%s\.into_owned\(\)\.into\(\)\);"
                         r"let(\w+)=(\w+)\.get_or_insert\(\1\.\.\1\);if\1<\4\.start\{\4\.start=\1;\}if\1>\4\.end\{\4\.end=\1;\}" % (v, v), b)
        _need(m, "%s: the Response arm is not `let id = %s.id.try_parse_inner_as_number()?; batch.push(%s.into_owned().into()); "
                 "let r = range.get_or_insert(id..id); if id < r.start { r.start = id; } if id > r.end { r.end = id; }` (found `%s`)"
              % (where, var, var, short(b, 400)))
        _need(m.group(3) == ctx["batch"], "%s: the response is pushed onto `%s`, not onto the batch vector `%s`" % (where, m.group(3), ctx["batch"]))
        _need(m.group(5) == ctx["range"], "%s: the id is recorded in `%s`, not in the range variable `%s`" % (where, m.group(5), ctx["range"]))
        return "ABatchCollect %s" % ("IdNumberOrFatal" if m.group(2) == "?" else "IdNumberUnchecked"), got
    if reader == "TrySubResponse":
        m = re.fullmatch(r"ifletSome\((\w+)\)=process_subscription_response\(%s,%s\)\{(.*)\}" % (LOCK, v), b)
        _need(m, "%s: the SubscriptionResponse arm is not `if let Some(sub_id) = process_subscription_response(&mut manager.lock(), %s) "
                 "{ <close> }` (found `%s`)" % (where, var, short(b, 300)))
        return "ASubItem %s" % read_close(m.group(2), m.group(1), msgs, where + ", SubscriptionResponse arm"), got
    if reader == "TrySubError":
        _need(re.fullmatch(r"process_subscription_close_response\(%s,%s\);" % (LOCK, v), b),
              "%s: the SubscriptionError arm is not `process_subscription_close_response(&mut manager.lock(), %s);` (found `%s`)" % (where, var, short(b, 300)))
        return "ASubClose", got
    _need(re.fullmatch(r"process_notification\(%s,%s\);" % (LOCK, v), b),
          "%s: the Notification arm is not `process_notification(&mut manager.lock(), %s);` (found `%s`)" % (where, var, short(b, 300)))
    return "ANotification", got


def read_no_reader(els, where):
    if els is None:
        return "NoReaderIgnored"
    _need(sq(els) in ("returnErr(unparse_error(raw));", "returnErr(unparse_error(raw))"),
          "%s: the final `else` is not `return Err(unparse_error(raw));` (found `%s`)" % (where, short(els)))
    return "NoReaderFatal"


def read_readers(text, in_array, arg_re, arg_what, ctx, where):
    arms, els = parse_chain(text, where)
    table, seen = [], set()
    for cond, body in arms:
        reader, var, ty = read_reader(cond, arg_re, arg_what, where)
        _need(reader not in seen, "%s: the reader %s is tried twice" % (where, ty))
        seen.add(reader)
        act, got = read_action(reader, var, body, in_array, ctx, where)
        table.append((reader, act, got))
    return table, read_no_reader(els, where)


def read_array_arm(block, ctx):
    A = W + ", `[` arm"
    arms, els = parse_chain(block, A)
    _need(len(arms) == 1, "%s: expected one `if let Ok(raw_responses) = serde_json::from_slice::<Vec<&JsonRawValue>>(raw) {..} else {..}`, "
                          "found a chain of %d conditions" % (A, len(arms)))
    cond, T = arms[0]
    m = re.fullmatch(r"letOk\((\w+)\)=serde_json::from_slice::<Vec<&(?:'\w+)?(?:Json)?RawValue>>\(raw\)", sq(cond))
    _need(m, "%s: condition `%s` is not `let Ok(raw_responses) = serde_json::from_slice::<Vec<&JsonRawValue>>(raw)`" % (A, short(cond)))
    raws = m.group(1)
    _need(els is not None, "%s: the Vec<&RawValue> parse has no `else` arm" % A)
    _need(sq(els) in ("returnErr(unparse_error(raw));", "returnErr(unparse_error(raw))"),
          "%s: the `else` of the Vec<&RawValue> parse is not `return Err(unparse_error(raw));` (found `%s`)" % (A, short(els)))
    # ---- the loop
    fm = list(re.finditer(r"\bfor\s+(\w+)\s+in\s+%s\s*\{" % re.escape(raws), T))
    _need(len(fm) == 1, "%s: expected exactly one `for r in %s {`, found %d" % (A, raws, len(fm)))
    fm = fm[0]
    lv = fm.group(1)
    fe = _close_at(T, fm.end() - 1, "{", "}")
    _need(fe >= 0, "%s: unbalanced braces in the loop" % A)
    F = T[fm.end():fe]
    pre, post = T[:fm.start()], T[fe + 1:]
    # ---- before the loop: the three locals
    p = sq(pre)
    pm = re.fullmatch(r"letmut(\w+)=Vec::with_capacity\(%s\.len\(\)\);letmut(\w+)=None;letmut(\w+)=false;" % re.escape(raws), p)
    _need(pm, "%s: before the loop expected `let mut batch = Vec::with_capacity(%s.len()); let mut range = None; let mut got_notif = false;`, "
              "found `%s`" % (A, raws, short(p, 240)))
    c2 = dict(ctx, batch=pm.group(1), range=pm.group(2), got=pm.group(3))
    table, none = read_readers(F, True, re.escape(lv) + r"\.get\(\)", "`%s.get()` (the element)" % lv, c2, W + ", array loop")
    # ---- after the loop
    rules = []
    if post.strip():
        earms, eels = parse_chain(post, W + ", after the array loop")
        _need(eels is None, "%s, after the array loop: unexpected final `else` `%s`" % (W, short(eels or "")))
        for cond, body in earms:
            c, b = sq(cond), sq(body)
            m1 = re.fullmatch(r"letSome\((?:mut)?(\w+)\)=%s" % re.escape(c2["range"]), c)
            if m1:
                r = re.escape(m1.group(1))
                want = (r"%s\.end=%s\.end\.checked_add\(1\)\.ok_or_else\(\|\|InvalidRequestId::NotPendingRequest\(%s\.end\.to_string\(\)\)\)\?;"
                        r"process_batch_response\(%s,%s,%s\)\?;" % (r, r, r, LOCK, re.escape(c2["batch"]), r))
                _need(re.fullmatch(want, b),
                      "%s, after the array loop: the `if let Some(mut range) = %s` arm is not `range.end = range.end.checked_add(1).ok_or_else(|| "
                      "InvalidRequestId::NotPendingRequest(range.end.to_string()))?; process_batch_response(&mut manager.lock(), %s, range)?;` "
                      "(found `%s`)" % (W, c2["range"], c2["batch"], short(b, 400)))
                rules.append("PBatchResponse")
            elif c == "!" + c2["got"]:
                _need(b in ("returnErr(EmptyBatchRequest.into());", "returnErr(EmptyBatchRequest.into())"),
                      "%s, after the array loop: the `if !%s` arm is not `return Err(EmptyBatchRequest.into());` (found `%s`)" % (W, c2["got"], short(b)))
                rules.append("PEmptyIsFatal")
            else:
                raise Missing("%s, after the array loop: unrecognised condition `%s`" % (W, short(cond)))
        _need(len(set(rules)) == len(rules), "%s, after the array loop: a rule occurs twice (%s)" % (W, ", ".join(rules)))
    return table, none, "BError", rules


def generate(src, origin):
    msrc = mask(src)
    hm = re.search(r"\bfn\s+handle_backend_messages\s*<", msrc)
    _need(hm, "mod.rs: `fn handle_backend_messages<..>` not found")
    fm = re.search(r"\bfn\s+handle_recv_message\s*\(", msrc[hm.start():])
    _need(fm, "mod.rs: `fn handle_recv_message(` inside handle_backend_messages not found")
    start = hm.start() + fm.end()
    i = msrc.find("{", start)
    body = block_at(msrc, i) if i >= 0 else None
    _need(body is not None, "mod.rs: body of handle_recv_message not found")
    _need(re.fullmatch(r"\s*raw\s*:\s*&\s*\[\s*u8\s*\]\s*,\s*manager\s*:\s*&\s*ThreadSafeRequestManager\s*,\s*max_buffer_capacity_per_subscription\s*:\s*usize\s*,?\s*\)"
                       r"\s*->\s*Result\s*<\s*Vec\s*<\s*FrontToBack\s*>\s*,\s*Error\s*>\s*", msrc[start:i]),
          "%s: signature is not `(raw: &[u8], manager: &ThreadSafeRequestManager, max_buffer_capacity_per_subscription: usize) -> "
          "Result<Vec<FrontToBack>, Error>` (found `%s`)" % (W, short(msrc[start:i], 200)))
    rest = body
    # ---- tracing statements say nothing
    while True:
        tm = re.search(r"\btracing\s*::\s*\w+\s*!\s*\(", rest)
        if not tm:
            break
        e = _close_at(rest, tm.end() - 1, "(", ")")
        _need(e >= 0, "%s: unbalanced parentheses in a tracing statement" % W)
        sm = re.compile(r"\s*;").match(rest, e + 1)
        _need(sm, "%s: tracing statement not closed by `;`" % W)
        rest = _blank(rest, tm.start(), sm.end())
    # ---- the byte the dispatch looks at
    bm = list(re.finditer(r"\blet\s+(\w+)\s*=\s*raw\s*\.\s*iter\s*\(\s*\)\s*\.\s*find\s*\(\s*\|\s*(\w+)\s*\|\s*!\s*(\w+)\s*\.\s*is_ascii_whitespace\s*\(\s*\)\s*\)\s*;", rest))
    _need(len(bm) == 1 and bm[0].group(2) == bm[0].group(3),
          "%s: `let first_non_whitespace = raw.iter().find(|byte| !byte.is_ascii_whitespace());` not found (exactly once)" % W)
    first = bm[0].group(1)
    rest = _blank(rest, bm[0].start(), bm[0].end())
    # ---- the accumulator of close requests
    mm = list(re.finditer(r"\blet\s+mut\s+(\w+)\s*=\s*Vec\s*::\s*new\s*\(\s*\)\s*;", rest[:rest.find("match") if "match" in rest else len(rest)]))
    _need(len(mm) <= 1, "%s: more than one `let mut <v> = Vec::new();` before the match" % W)
    messages = mm[0].group(1) if mm else None
    if mm:
        rest = _blank(rest, mm[0].start(), mm[0].end())
    # ---- the match
    km = list(re.finditer(r"\bmatch\s+%s\s*\{" % re.escape(first), rest))
    _need(len(km) == 1, "%s: expected exactly one `match %s {`, found %d" % (W, first, len(km)))
    km = km[0]
    _need(bm[0].start() < km.start(), "%s: `%s` is matched before it is bound" % (W, first))
    me = _close_at(rest, km.end() - 1, "{", "}")
    _need(me >= 0, "%s: unbalanced braces in `match %s`" % (W, first))
    M = rest[km.end():me]
    tail = rest[me + 1:]
    rest = _blank(rest, km.start(), len(rest))
    _need(rest.strip() == "", "%s: unrecognised statement(s) before the match: `%s`" % (W, short(rest)))
    t = sq(tail).lstrip(";")
    tails = {"Ok(Vec::new())": False, "Ok(vec![])": False}
    if messages:
        tails["Ok(%s)" % messages] = True
    _need(t in tails, "%s: the function's tail is `%s`, expected `Ok(%s)`" % (W, short(tail), messages or "Vec::new()"))
    returns_messages = tails[t]
    # ---- arms
    ctx = {"messages": messages}
    first_tbl, default = [], None
    single = array = None
    j, n = 0, len(M)
    arm_re = re.compile(r"\s*(Some\s*\(\s*b'(\\.|[^'\\])'\s*\)|_)\s*=>\s*\{")
    while M[j:].strip():
        am = arm_re.match(M, j)
        _need(am, "%s: match arm `%s` is not `Some(b'<c>') => {` or `_ => {`" % (W, short(M[j:], 60)))
        _need(default is None, "%s: an arm after the `_` arm" % W)
        e = _close_at(M, am.end() - 1, "{", "}")
        _need(e >= 0, "%s: unbalanced braces in a match arm" % W)
        block = M[am.end():e]
        j = re.compile(r"\s*,?").match(M, e + 1).end()
        b = sq(block)
        if b in ("returnErr(unparse_error(raw));", "returnErr(unparse_error(raw))"):
            kind = "BError"
        elif re.match(r"ifletOk\(\w+\)=serde_json::from_slice::<Vec<", b):
            _need(array is None, "%s: two array arms" % W)
            array = read_array_arm(block, ctx)
            kind = "BArray"
        else:
            _need(single is None, "%s: two single-message arms" % W)
            tbl, none = read_readers(block, False, "raw", "`raw` (the whole message)", ctx, W + ", `{` arm")
            single = ([(r, a) for r, a, _ in tbl], none)
            kind = "BSingle"
        if am.group(1) == "_":
            default = kind
        else:
            ch = am.group(2)
            _need(len(ch) == 1 or ch in ("\\n", "\\t", "\\r", "\\\\", "\\'"), "%s: byte literal b'%s' not understood" % (W, ch))
            code = ord(ch) if len(ch) == 1 else {"\\n": 10, "\\t": 9, "\\r": 13, "\\\\": 92, "\\'": 39}[ch]
            _need(code < 128, "%s: byte literal b'%s' is not ASCII" % (W, ch))
            _need(code not in [c for c, _ in first_tbl], "%s: byte b'%s' has two arms" % (W, ch))
            first_tbl.append((code, kind))
    _need(default is not None, "%s: `match %s` has no `_` arm" % (W, first))
    _need(single is not None, "%s: no arm tries the single-message readers (an `if let Ok(..) = serde_json::from_slice::<Response<_>>(raw)` chain)" % W)
    _need(array is not None, "%s: no arm reads an array (`serde_json::from_slice::<Vec<&JsonRawValue>>(raw)`)" % W)
    elem_tbl, elem_none, unparsed, rules = array
    pushed = [a for _, a in single[0] if "ClosePushed" in a] + [a for _, a, _ in elem_tbl if "ClosePushed" in a]
    _need(not pushed or returns_messages,
          "%s: close requests are pushed onto `%s` (%s) but the function's tail is `%s`, not `Ok(%s)`: they would be lost"
          % (W, messages, ", ".join(pushed), short(tail), messages))

    def lst(xs, indent="   "):
        one = "[" + "; ".join(xs) + "]"
        return one if len(one) <= 80 else "[" + (";\n" + indent).join(xs) + "]"

    lines = [
        "(* GENERATED by tools/translators/client_dispatch.py from %s -- do not edit *)" % origin,
        "From JV Require Import Base.Bytes Model.ClientDispatch.",
        "",
        "(* handle_recv_message: `match first_non_whitespace { .. }`, arms in source order *)",
        "Definition client_first_byte : list (byte * frame_arm) := %s." % lst(["(x%02x, %s)" % (c, k) for c, k in first_tbl]),
        "Definition client_first_byte_default : frame_arm := %s." % default,
        "",
        "(* the single-message arm: readers in the order tried (on `raw`), each with what its arm does *)",
        "Definition client_single_dispatch : list (reader * action) :=",
        "  %s." % lst(["(%s, %s)" % (r, a) for r, a in single[0]]),
        "Definition client_single_no_reader : no_reader_rule := %s." % single[1],
        "",
        "(* the array arm: the loop over the elements (readers on `r.get()`), action, sets got_notif *)",
        "Definition client_elem_dispatch : list (reader * action * bool) :=",
        "  %s." % lst(["(%s, %s, %s)" % (r, a, "true" if g else "false") for r, a, g in elem_tbl]),
        "Definition client_elem_no_reader : no_reader_rule := %s." % elem_none,
        "(* after the loop; then the function's tail `%s` *)" % t,
        "Definition client_array_epilogue : list post_rule := %s." % lst(rules),
        "",
        "Definition client_dispatch : dispatch :=",
        "  {| d_first := client_first_byte; d_first_default := client_first_byte_default;",
        "     d_single := client_single_dispatch; d_single_no_reader := client_single_no_reader;",
        "     d_elem := client_elem_dispatch; d_elem_no_reader := client_elem_no_reader;",
        "     d_post := client_array_epilogue |}.",
        ""]
    return "\n".join(lines)


def run(path=None, out=None):
    path = path or os.environ.get("VERIF_CLIDISPATCH_SRC")
    if not path and os.environ.get("VERIF_REPO"):
        path = os.path.join(os.environ["VERIF_REPO"], REL)
    out = out or os.environ.get("VERIF_CLIDISPATCH_OUT")
    try:
        src = open(path).read() if path else translate._read(REL)
        text = generate(src, path or "/repo/" + REL)
    except Missing as e:
        return str(e)
    if out:
        vlib.write_if_changed(out, text)
    elif not path:
        vlib.write_if_changed(os.path.join(translate.GEN, "ClientDispatchGen.v"), text)
    else:
        print(text)
    return None


if __name__ == "__main__":
    a = [None if x == "-" else x for x in sys.argv[1:]] + [None] * 2
    r = run(a[0], a[1])
    if r:
        print("ERROR:", r)
        sys.exit(1)
