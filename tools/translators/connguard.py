"""server/src/{future.rs, server.rs, transport/http.rs, transport/ws.rs}  ->  coq/Gen/ConnGuardGen.v

Reads (a) the HTTP status constants the connection-guard model uses and (b) checks, in order, the places where
`TowerServiceNoHttp::call` / `ws::background_task` acquire, move and drop the connection permit -- the wiring that
Model/ConnGuard.v transcribes.  Any anchor that is missing or out of order is an error string (a broken
correspondence), never a silent default."""
import os, re
import translate, vlib

STATUS = {"OK": 200, "FORBIDDEN": 403, "METHOD_NOT_ALLOWED": 405, "TOO_MANY_REQUESTS": 429, "BAD_REQUEST": 400,
          "PAYLOAD_TOO_LARGE": 413, "UNSUPPORTED_MEDIA_TYPE": 415, "INTERNAL_SERVER_ERROR": 500,
          "SERVICE_UNAVAILABLE": 503, "SWITCHING_PROTOCOLS": 101}


def _status_of(src, fn):
    body = translate._fn_body(src, r"pub fn %s\([^)]*\) -> HttpResponse \{" % fn)
    if body is None:
        return None, "http::response::%s not found" % fn
    m = re.search(r"from_template\(\s*hyper::StatusCode::(\w+)", body)
    if not m or m.group(1) not in STATUS:
        return None, "http::response::%s: status constant not readable" % fn
    return STATUS[m.group(1)], None


def _in_order(body, anchors, where):
    pos = 0
    for name, pat in anchors:
        m = re.compile(pat, re.S).search(body, pos)
        if not m:
            return "%s: anchor `%s` not found (or out of order)" % (where, name)
        pos = m.end()
    return None


def run():
    http = translate._read("server/src/transport/http.rs")
    server = translate._read("server/src/server.rs")
    ws = translate._read("server/src/transport/ws.rs")
    fut = translate._read("server/src/future.rs")
    st = {}
    for fn in ("too_many_requests", "denied", "method_not_allowed", "from_method_response"):
        st[fn], err = _status_of(http, fn)
        if err:
            return err
    # ---- future.rs: the guard is a tokio semaphore of `limit` permits
    for name, pat in [("Semaphore::new(limit)", r"inner:\s*Arc::new\(Semaphore::new\(limit\)\)"),
                      ("try_acquire_owned", r"pub fn try_acquire\(&self\) -> Option<ConnectionPermit> \{\s*match self\.inner\.clone\(\)\.try_acquire_owned\(\)"),
                      ("NoPermits => None", r"Err\(TryAcquireError::NoPermits\) => None"),
                      ("available_permits", r"pub fn available_connections\(&self\) -> usize \{\s*self\.inner\.available_permits\(\)"),
                      ("ConnectionPermit = OwnedSemaphorePermit", r"pub type ConnectionPermit = OwnedSemaphorePermit;")]:
        if not re.search(pat, fut):
            return "future.rs: anchor `%s` not found" % name
    # ---- server.rs: TowerServiceNoHttp::call
    m = re.search(r"impl<Body, RpcMiddleware> Service<HttpRequest<Body>> for TowerServiceNoHttp<RpcMiddleware>", server)
    if not m:
        return "server.rs: impl Service for TowerServiceNoHttp not found"
    call = translate._fn_body(server[m.end():], r"fn call\(&mut self, request: HttpRequest<Body>\) -> Self::Future \{")
    if call is None:
        return "server.rs: TowerServiceNoHttp::call not found"
    if len(re.findall(r"try_acquire\(\)", call)) != 1:
        return "TowerServiceNoHttp::call: expected exactly one try_acquire()"
    err = _in_order(call, [
        ("try_acquire or 429", r"let Some\(conn_permit\) = conn_guard\.try_acquire\(\) else \{\s*return async move \{ Ok\(http::response::too_many_requests\(\)\) \}\.boxed\(\);\s*\};"),
        ("permit into ConnectionState", r"let conn = ConnectionState::new\(stop_handle\.clone\(\), conn_id, conn_permit\);"),
        ("ws branch", r"if self\.inner\.server_cfg\.enable_ws && is_upgrade_request \{"),
        ("receive_request", r"match server\.receive_request\(&request\) \{\s*Ok\(response\) => \{"),
        ("spawned session task", r"tokio::spawn\(\s*async move \{"),
        ("upgrade::on", r"let upgraded = match hyper::upgrade::on\(request\)\.await \{\s*Ok\(u\) => u,\s*Err\(e\) => \{"),
        ("failed upgrade returns", r"return;\s*\}\s*\};"),
        ("permit into BackgroundTaskParams", r"let params = BackgroundTaskParams \{[^}]*\bconn,"),
        ("background_task", r"ws::background_task\(params\)\.await;"),
        ("failed handshake answer", r"Err\(e\) => \{.{0,160}?HttpResponse::new\(HttpBody::from\(format!\(\"Could not upgrade connection: \{e\}\"\)\)\)"),
        ("http branch", r"\} else if self\.inner\.server_cfg\.enable_http && !is_upgrade_request \{"),
        ("http future", r"Box::pin\(async move \{\s*let rp = http::call_with_service\(request, batch_config, max_request_size, rpc_service\)\.await;"),
        ("drop(conn) after the call", r"drop\(conn\);\s*Ok\(rp\)"),
        ("denied branch", r"\} else \{[^}]*Box::pin\(async \{ Ok\(http::response::denied\(\)\) \}\)"),
    ], "TowerServiceNoHttp::call")
    if err:
        return err
    if re.search(r"conn\.clone\(\)", call):
        return "TowerServiceNoHttp::call clones the ConnectionState (the model assumes a single owner of the permit)"
    # ---- ws.rs: background_task keeps the permit until graceful_shutdown has returned
    # (brace matching does not work here: the body contains the byte literals b'{' and b'[')
    m = re.search(r"pub\(crate\) async fn background_task<S>\(params: BackgroundTaskParams<S>\).*?\n\{\n(.*?)\n\}\n", ws, re.S)
    if not m:
        return "ws.rs: background_task not found"
    bt = m.group(1)
    err = _in_order(bt, [
        ("destructure params", r"let BackgroundTaskParams \{[^}]*\bconn,"),
        ("receive loop", r"let result = loop \{"),
        ("graceful_shutdown", r"graceful_shutdown\(result, pending_calls_completed, ws_stream, conn_tx, send_task_handle\)\.await;"),
        ("drop(conn)", r"drop\(conn\);"),
    ], "ws::background_task")
    if err:
        return err
    if len(re.findall(r"drop\(conn\)", bt)) != 1 or re.search(r"conn\.clone\(\)", bt):
        return "ws::background_task: expected exactly one drop(conn) and no clone of the ConnectionState"
    # ---- ws.rs: graceful_shutdown waits for pending calls only for the causes its guard admits
    gs = translate._fn_body(ws, r"async fn graceful_shutdown<S>\(")
    if gs is None:
        return "ws.rs: graceful_shutdown not found"
    err = _in_order(gs, [
        ("guard", r"if (let Ok\(Shutdown::Stopped\) = result|result\.is_ok\(\)) \{"),
        ("wait for pending calls", r"let graceful_shutdown = pending_calls\.for_each\("),
        ("disconnect arm", r"let disconnect = ws_stream\.try_for_each\("),
        ("select", r"tokio::select! \{"),
        ("send-task-gone arm", r"_ = conn_tx\.closed\(\) => \{\}"),
        ("stop the send task", r"_ = conn_tx\.send\(\(\)\);"),
        ("join the send task", r"_ = send_task_handle\.await;"),
    ], "ws::graceful_shutdown")
    if err:
        return err
    if re.search(r"if let Ok\(Shutdown::Stopped\) = result \{", gs):
        waits = "stopped"
    else:
        waits = "is_ok"
    if len(re.findall(r"\bif\b", gs.split("tokio::select!")[0])) != 1:
        return "ws::graceful_shutdown: more than one condition before the select (guard not readable)"
    # call_with_service: non-POST is answered without touching the RPC service
    cws = translate._fn_body(http, r"pub async fn call_with_service<S, B>\(")
    if cws is None or not re.search(r"Method::POST if content_type_is_json\(&request\) => \{", cws) \
            or not re.search(r"_ => response::method_not_allowed\(\),", cws):
        return "http::call_with_service: method gate not readable"
    out = ["(* GENERATED by tools/translators/connguard.py from /repo/server/src/{transport/http.rs,server.rs,transport/ws.rs,future.rs} -- do not edit *)",
           "From Coq Require Import NArith.", "Local Open Scope N_scope.", "",
           "(* http::response::too_many_requests: the answer when try_acquire() finds no permit *)",
           "Definition gen_status_refused : N := %d." % st["too_many_requests"],
           "(* http::response::denied: transport disabled for this kind of request *)",
           "Definition gen_status_denied : N := %d." % st["denied"],
           "(* http::response::method_not_allowed: call_with_service on a non-POST *)",
           "Definition gen_status_not_post : N := %d." % st["method_not_allowed"],
           "(* http::response::from_method_response *)",
           "Definition gen_status_ok : N := %d." % st["from_method_response"],
           "(* HttpResponse::new(..) in the `receive_request` Err arm: http::Response::new = 200 OK *)",
           "Definition gen_status_handshake_failed : N := 200.", "",
           "(* ws::graceful_shutdown: the condition under which it waits for the session's pending calls, as a function of",
           "   (the loop was left because the server is stopping, the loop result is Ok) *)",
           "Definition gen_waits_for_pending (stopped is_ok : bool) : bool := %s." % waits, ""]
    vlib.write_if_changed(os.path.join(translate.GEN, "ConnGuardGen.v"), "\n".join(out))
    return None
