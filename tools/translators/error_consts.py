"""types/src/error.rs + core/src/server/method_response.rs  ->  coq/Gen/ErrorConstsGen.v

The library's fixed protocol constants, as the models use them (no hand-copied literal in coq/Model):
  * every `pub const <NAME>_CODE: i32 = <n>;`      ->  Definition <name>_code : Z := (<n>).
  * every `pub const <NAME>_MSG: &str = "<text>";` ->  Definition <name>_msg : bytes := b#"<text>".
  * `ErrorCode::{code, message}`                   ->  errorcode_pairs : (code constant, message constant) per named
                                                       variant (what `ErrorObject::from(ErrorCode::X)` is made of) and
                                                       from_<variant>_shape
  * the helpers reject_too_big_request / reject_too_many_subscriptions / reject_too_big_batch_request /
    reject_too_big_batch_response, whose body must be exactly
        ErrorObject[Owned]::owned(<X>_CODE, <Y>_MSG, Some(format!("<prefix>{<the parameter>}")))
                                                   ->  Definition <fn>_shape := (<x>_code, <y>_msg, Some b#"<prefix>").
  * the -32008 construction in MethodResponse::response (the `if err.is_io()` arm):
        let data = to_raw_value(&format!("<prefix>{max_response_size}")).ok();
        [let <v> = <X>_CODE;]  ErrorObject::borrowed(<v or X_CODE>, <Y>_MSG, data.as_deref())
                                                   ->  Definition oversized_response_shape := (.., .., Some b#"<prefix>").
A shape is (code, message, data prefix): the error object for limit n has data = the JSON string "<prefix><n>"
(Model/ErrShape.v shape_err).  Whitespace and line breaks do not matter; any other shape is a translation error that
names the function.  A missing anchor is an error string, never a silent default.

Overrides for trying the translator on scratch copies (the result is then NOT written to /verif/coq/Gen):
    run(path=<error.rs>, mr_path=<method_response.rs>, out=<file>)
    VERIF_ERRCONSTS_SRC / VERIF_ERRCONSTS_MR_SRC (files), VERIF_REPO (root of a checkout), VERIF_ERRCONSTS_OUT
    command line:  error_consts.py [error.rs|-] [method_response.rs|-] [out]"""
import os, re, sys
sys.path.insert(0, os.path.dirname(os.path.dirname(os.path.abspath(__file__))))
import translate, vlib

REL = "types/src/error.rs"
REL_MR = "core/src/server/method_response.rs"
HELPERS = ["reject_too_many_subscriptions", "reject_too_big_request", "reject_too_big_batch_request", "reject_too_big_batch_response"]
STR = r'"((?:[^"\\]|\\.)*)"'


class Missing(Exception):
    pass


def _need(cond, msg):
    if not cond:
        raise Missing(msg)


def mask(src):
    """same-length copy with comments blanked (string literals are kept: their text is what we read)"""
    out, i, n = list(src), 0, len(src)
    while i < n:
        if src[i] == '"':
            j = i + 1
            while j < n and src[j] != '"':
                j += 2 if src[j] == "\\" else 1
            i = j + 1
            continue
        if src.startswith("//", i):
            j = src.find("\n", i)
            j = n if j < 0 else j
        elif src.startswith("/*", i):
            j = src.find("*/", i + 2)
            j = n if j < 0 else j + 2
        else:
            i += 1
            continue
        for k in range(i, j):
            if out[k] != "\n":
                out[k] = " "
        i = j
    return "".join(out)


def squeeze(s):
    """remove all whitespace outside string literals"""
    out, i, n = [], 0, len(s)
    while i < n:
        if s[i] == '"':
            j = i + 1
            while j < n and s[j] != '"':
                j += 2 if s[j] == "\\" else 1
            out.append(s[i:j + 1])
            i = j + 1
        else:
            if not s[i].isspace():
                out.append(s[i])
            i += 1
    return "".join(out)


def drop_trailing_commas(s):
    """`,)` -> `)` and `,}` -> `}` outside string literals (s is already squeezed)"""
    out, i, n = [], 0, len(s)
    while i < n:
        if s[i] == '"':
            j = i + 1
            while j < n and s[j] != '"':
                j += 2 if s[j] == "\\" else 1
            out.append(s[i:j + 1])
            i = j + 1
        elif s[i] == "," and i + 1 < n and s[i + 1] in ")}":
            i += 1
        else:
            out.append(s[i])
            i += 1
    return "".join(out)


def no_tests(src):
    """the source up to its `#[cfg(test)]` module (raw strings in tests would confuse the literal scanner)"""
    i = src.find("#[cfg(test)]")
    return src if i < 0 else src[:i]


def block_at(src, i):
    """text between the `{` at index i and its partner (string literals and char literals skipped)"""
    depth, j, n = 0, i, len(src)
    lit = re.compile(r"""b?'(?:\\.|[^'\\])'|b?"(?:\\.|[^"\\])*\"""")
    while j < n:
        m = lit.match(src, j)
        if m:
            j = m.end()
            continue
        if src[j] == "{":
            depth += 1
        elif src[j] == "}":
            depth -= 1
            if depth == 0:
                return src[i + 1:j]
        j += 1
    return None


def fn_body(src, header_re):
    m = re.search(header_re, src)
    if not m:
        return None
    i = src.find("{", m.end() - 1)
    return block_at(src, i) if i >= 0 else None


def rust_str(lit, where):
    """bytes of a Rust (non-raw) string literal body"""
    out = bytearray()
    i, n = 0, len(lit)
    simple = {"n": 10, "t": 9, "r": 13, "0": 0, "\\": 92, '"': 34, "'": 39}
    while i < n:
        c = lit[i]
        if c != "\\":
            out += c.encode("utf-8")
            i += 1
            continue
        _need(i + 1 < n, "%s: dangling backslash in string literal" % where)
        e = lit[i + 1]
        if e in simple:
            out.append(simple[e])
            i += 2
        elif e == "x":
            out.append(int(lit[i + 2:i + 4], 16))
            i += 4
        elif e == "u":
            m = re.match(r"\\u\{([0-9a-fA-F_]+)\}", lit[i:])
            _need(m, "%s: bad \\u escape in string literal" % where)
            out += chr(int(m.group(1).replace("_", ""), 16)).encode("utf-8")
            i += m.end()
        elif e == "\n":
            i += 2
            while i < n and lit[i].isspace():
                i += 1
        else:
            raise Missing("%s: unknown escape \\%s in string literal" % (where, e))
    return bytes(out)


def coq_bytes(bs):
    if all(0x20 <= b <= 0x7e for b in bs):
        return 'b#"%s"' % bs.decode("ascii").replace('"', '""')
    return "[" + "; ".join("x%02x" % b for b in bs) + "]"


def read_consts(src):
    """-> (codes: [(NAME, int)], msgs: [(NAME, bytes)]) in source order"""
    msrc = mask(src)
    codes = [(n, int(v)) for n, v in re.findall(r"pub\s+const\s+(\w+_CODE)\s*:\s*i32\s*=\s*(-?\d+)\s*;", msrc)]
    _need(codes, "error.rs: no `pub const <NAME>_CODE: i32 = <n>;` found")
    msgs = [(n, rust_str(t, n)) for n, t in re.findall(r"pub\s+const\s+(\w+_MSG)\s*:\s*&\s*(?:'static\s+)?str\s*=\s*" + STR + r"\s*;", msrc, re.S)]
    _need(msgs, "error.rs: no `pub const <NAME>_MSG: &str = \"..\";` found")
    for what, lst in (("code", codes), ("message", msgs)):
        names = [n for n, _ in lst]
        _need(len(set(names)) == len(names), "error.rs: a %s constant is defined twice" % what)
    # every *_CODE / *_MSG const item must have been understood (e.g. a value written as an expression is an error)
    for n in re.findall(r"pub\s+const\s+(\w+_(?:CODE|MSG))\b", msrc):
        _need(n in dict(codes) or n in dict(msgs), "error.rs: constant %s is not of the form `i32 = <integer>` / `&str = \"<text>\"`" % n)
    return codes, msgs


def read_errorcode(src, codes, msgs):
    """ErrorCode::code / ::message -> [(Variant, CODE, MSG)] for the named variants, and the MSG of ServerError(_)"""
    msrc = mask(src)
    m = re.search(r"impl\s+ErrorCode\s*\{", msrc)
    _need(m, "error.rs: impl ErrorCode not found")
    imp = block_at(msrc, m.end() - 1)
    cbody = fn_body(imp, r"pub\s+const\s+fn\s+code\s*\(\s*&\s*self\s*\)\s*->\s*i32\s*\{")
    _need(cbody is not None, "ErrorCode::code not found")
    mbody = fn_body(imp, r"pub\s+const\s+fn\s+message\s*\(\s*&\s*self\s*\)\s*->\s*&\s*'static\s+str\s*\{")
    _need(mbody is not None, "ErrorCode::message not found")
    carms = re.findall(r"(\w+)\s*=>\s*(\w+)\s*,", squeeze(cbody))
    marms = re.findall(r"(\w+)(\(_\))?=>(\w+),", squeeze(mbody))
    code_of = dict((v, c) for v, c in carms if c in dict(codes))
    msg_of = dict((v, c) for v, _, c in marms if c in dict(msgs))
    named = [v for v, c in carms if c in dict(codes)]
    _need(named, "ErrorCode::code: no `Variant => X_CODE` arm found")
    for v in named:
        _need(v in msg_of, "ErrorCode::message: no `%s => <X>_MSG` arm" % v)
    extra = [v for v in msg_of if v not in code_of and v != "ServerError"]
    _need(not extra, "ErrorCode::message: arms %s have no counterpart in ErrorCode::code" % extra)
    return [(v, code_of[v], msg_of[v]) for v in named], msg_of.get("ServerError")


def read_helper(src, fn, codes, msgs):
    msrc = mask(src)
    m = re.search(r"pub\s+fn\s+%s\s*\(\s*(\w+)\s*:\s*\w+\s*\)\s*->\s*ErrorObjectOwned\s*\{" % fn, msrc)
    _need(m, "error.rs: helper `pub fn %s(<limit>: <int>) -> ErrorObjectOwned` not found" % fn)
    body = squeeze(block_at(msrc, m.end() - 1))
    param = m.group(1)
    body = drop_trailing_commas(body).rstrip(";")
    sm = re.fullmatch(r"(?:ErrorObjectOwned|ErrorObject)::owned\((\w+),(\w+),Some\(format!\(" + STR + r"\)\)\)", body)
    _need(sm, "%s: body is not `ErrorObject[Owned]::owned(<X>_CODE, <Y>_MSG, Some(format!(\"<prefix>{%s}\")))` (found `%s`)" % (fn, param, body[:160]))
    code, msg, fmt = sm.group(1), sm.group(2), sm.group(3)
    _need(code in dict(codes), "%s: first argument `%s` is not one of the *_CODE constants" % (fn, code))
    _need(msg in dict(msgs), "%s: second argument `%s` is not one of the *_MSG constants" % (fn, msg))
    fm = re.fullmatch(r"((?:[^{}\\]|\\.)*)\{(\w+)\}", fmt, re.S)
    _need(fm, "%s: format string `%s` is not `<prefix>{<parameter>}`" % (fn, fmt))
    _need(fm.group(2) == param, "%s: the format string prints `%s`, the parameter is `%s`" % (fn, fm.group(2), param))
    return code, msg, rust_str(fm.group(1), fn)


def read_oversized_response(mr_src, codes, msgs):
    where = "MethodResponse::response (-32008 construction)"
    msrc = mask(mr_src)
    body = fn_body(msrc, r"pub\s+fn\s+response\s*<\s*T\s*>\s*\(\s*id\s*:\s*Id\s*,\s*rp\s*:\s*ResponsePayload\s*<\s*T\s*>\s*,\s*(\w+)\s*:\s*usize\s*\)\s*->\s*Self")
    _need(body is not None, "method_response.rs: `pub fn response<T>(id: Id, rp: ResponsePayload<T>, <max>: usize) -> Self` not found")
    param = re.search(r"pub\s+fn\s+response\s*<\s*T\s*>\s*\(\s*id\s*:\s*Id\s*,\s*rp\s*:\s*ResponsePayload\s*<\s*T\s*>\s*,\s*(\w+)\s*:\s*usize", msrc).group(1)
    m = re.search(r"if\s+err\s*\.\s*is_io\s*\(\s*\)\s*\{", body)
    _need(m, "%s: `if err.is_io() {` not found" % where)
    arm = drop_trailing_commas(squeeze(block_at(body, m.end() - 1)))
    calls = re.findall(r"ErrorObject::(owned|borrowed)\(([^()]*(?:\([^()]*\))?[^()]*)\)", arm)
    _need(len(calls) == 1, "%s: expected exactly one ErrorObject::borrowed(..) in the is_io arm, found %d" % (where, len(calls)))
    kind, args = calls[0]
    args = [a for a in args.split(",") if a]
    _need(kind == "borrowed" and len(args) == 3, "%s: not `ErrorObject::borrowed(<code>, <X>_MSG, data.as_deref())` (found `%s(%s)`)" % (where, kind, ",".join(args)))
    code, msg, data = args
    if code not in dict(codes):
        lm = re.findall(r"let%s=(\w+);" % re.escape(code), arm)
        _need(len(lm) == 1 and lm[0] in dict(codes), "%s: code argument `%s` is neither a *_CODE constant nor a local bound to one" % (where, code))
        code = lm[0]
    _need(msg in dict(msgs), "%s: message argument `%s` is not one of the *_MSG constants" % (where, msg))
    dm = re.fullmatch(r"(\w+)\.as_deref\(\)", data)
    _need(dm, "%s: data argument `%s` is not `<local>.as_deref()`" % (where, data))
    lm = re.findall(r"let%s=to_raw_value\(&format!\(" % re.escape(dm.group(1)) + STR + r"\)\)\.ok\(\);", arm)
    _need(len(lm) == 1, "%s: `let %s = to_raw_value(&format!(\"<prefix>{%s}\")).ok();` not found" % (where, dm.group(1), param))
    fm = re.fullmatch(r"((?:[^{}\\]|\\.)*)\{(\w+)\}", lm[0], re.S)
    _need(fm and fm.group(2) == param, "%s: format string `%s` is not `<prefix>{%s}`" % (where, lm[0], param))
    # the flag reported next to it must be the same code
    _need(re.search(r"MethodResponseResult::Failed\((\w+)\)", arm), "%s: MethodResponseResult::Failed(<code>) not found" % where)
    return code, msg, rust_str(fm.group(1), where)


def snake(v):
    return re.sub(r"(?<!^)([A-Z])", r"_\1", v).lower()


def generate(src, mr_src, origin):
    src, mr_src = no_tests(src), no_tests(mr_src)
    codes, msgs = read_consts(src)
    pairs, server_error_msg = read_errorcode(src, codes, msgs)
    helpers = [(fn,) + read_helper(src, fn, codes, msgs) for fn in HELPERS]
    ov = read_oversized_response(mr_src, codes, msgs)
    low = lambda n: n.lower()
    out = ["(* GENERATED by tools/translators/error_consts.py from %s -- do not edit *)" % origin,
           "From JV Require Import Base.Bytes.", "",
           "(* pub const <NAME>_CODE: i32 *)"]
    for n, v in codes:
        out.append("Definition %s : Z := (%d)%%Z." % (low(n), v))
    out += ["", "(* pub const <NAME>_MSG: &str *)"]
    for n, t in msgs:
        out.append("Definition %s : bytes := %s." % (low(n), coq_bytes(t)))
    out += ["", "Definition all_error_codes : list Z := [%s]." % "; ".join(low(n) for n, _ in codes),
            "Definition all_error_msgs : list bytes := [%s]." % "; ".join(low(n) for n, _ in msgs), "",
            "(* ErrorCode::code / ErrorCode::message: what ErrorObject::from(ErrorCode::<Variant>) is made of.",
            "   A shape is (code, message, prefix of the data string that is followed by the decimal limit). *)"]
    for v, c, m in pairs:
        out.append("Definition from_%s_shape : Z * bytes * option bytes := (%s, %s, None)." % (snake(v), low(c), low(m)))
    out.append("Definition errorcode_pairs : list (Z * bytes) := [%s]." % "; ".join("(%s, %s)" % (low(c), low(m)) for _, c, m in pairs))
    if server_error_msg:
        out.append("Definition errorcode_other_msg : bytes := %s.   (* ServerError(_) *)" % low(server_error_msg))
    out += ["", "(* the helpers with a limit: ErrorObject::owned(CODE, MSG, Some(format!(\"<prefix>{limit}\"))) *)"]
    for fn, c, m, p in helpers:
        out.append("Definition %s_shape : Z * bytes * option bytes := (%s, %s, Some %s)." % (fn, low(c), low(m), coq_bytes(p)))
    out += ["(* MethodResponse::response, the io-error arm: ErrorObject::borrowed(CODE, MSG, to_raw_value(&format!(\"<prefix>{max}\"))) *)",
            "Definition oversized_response_shape : Z * bytes * option bytes := (%s, %s, Some %s)." % (low(ov[0]), low(ov[1]), coq_bytes(ov[2])),
            "",
            "Definition limit_shapes : list (Z * bytes * option bytes) := [%s]." % "; ".join([fn + "_shape" for fn, _, _, _ in helpers] + ["oversized_response_shape"]),
            ""]
    return "\n".join(out)


def run(path=None, mr_path=None, out=None):
    path = path or os.environ.get("VERIF_ERRCONSTS_SRC")
    mr_path = mr_path or os.environ.get("VERIF_ERRCONSTS_MR_SRC")
    root = os.environ.get("VERIF_REPO")
    if root:
        path = path or os.path.join(root, REL)
        mr_path = mr_path or os.path.join(root, REL_MR)
    out = out or os.environ.get("VERIF_ERRCONSTS_OUT")
    override = bool(path or mr_path)
    src = open(path).read() if path else translate._read(REL)
    mr_src = open(mr_path).read() if mr_path else translate._read(REL_MR)
    try:
        text = generate(src, mr_src, "%s and %s" % (path or "/repo/" + REL, mr_path or "/repo/" + REL_MR))
    except Missing as e:
        return str(e)
    if out:
        vlib.write_if_changed(out, text)
    elif not override:
        vlib.write_if_changed(os.path.join(translate.GEN, "ErrorConstsGen.v"), text)
    else:
        print(text)
    return None


if __name__ == "__main__":
    a = [None if x == "-" else x for x in sys.argv[1:]] + [None] * 3
    r = run(a[0], a[1], a[2])
    if r:
        print("ERROR:", r)
        sys.exit(1)
