"""server/src/transport/http.rs -> coq/Gen/HttpGateGen.v

Read (regex over single function bodies, no Rust parser):
  * is_json: the list of content-type spellings compared with eq_ignore_ascii_case, and that the value goes
    through `to_str().ok()` first;
  * content_type_is_json: that the header consulted is `headers().get(CONTENT_TYPE)` (first of duplicates);
  * call_with_service: the method gate (`Method::X if content_type_is_json` / `Method::X => ...` / `_ => ...`),
    the response helper used for every outcome, and through `mod response` the status code of each helper.
"""
import os, re
import vlib, translate

STATUS = {
    "OK": 200, "CREATED": 201, "ACCEPTED": 202, "NO_CONTENT": 204, "BAD_REQUEST": 400, "UNAUTHORIZED": 401,
    "FORBIDDEN": 403, "NOT_FOUND": 404, "METHOD_NOT_ALLOWED": 405, "NOT_ACCEPTABLE": 406, "REQUEST_TIMEOUT": 408,
    "LENGTH_REQUIRED": 411, "PAYLOAD_TOO_LARGE": 413, "URI_TOO_LONG": 414, "UNSUPPORTED_MEDIA_TYPE": 415,
    "UNPROCESSABLE_ENTITY": 422, "TOO_MANY_REQUESTS": 429, "INTERNAL_SERVER_ERROR": 500, "NOT_IMPLEMENTED": 501,
    "BAD_GATEWAY": 502, "SERVICE_UNAVAILABLE": 503,
}


def coq_bytes(b):
    return "[" + "; ".join("x%02x" % c for c in b) + "]"


def rust_str(lit):
    """bytes of a plain Rust string literal body (only the escapes that can occur in a media type)"""
    out, i = bytearray(), 0
    while i < len(lit):
        c = lit[i]
        if c == "\\":
            n = lit[i + 1]
            m = {"n": "\n", "t": "\t", "r": "\r", "\\": "\\", '"': '"', "0": "\0"}
            if n not in m:
                raise ValueError("unsupported escape \\%s" % n)
            out += m[n].encode()
            i += 2
        else:
            out += c.encode("utf-8")
            i += 1
    return bytes(out)


def run():
    src = translate._read("server/src/transport/http.rs")
    # ---- is_json
    body = translate._fn_body(src, r"pub fn is_json\(content_type: Option<&hyper::header::HeaderValue>\) -> bool \{")
    if body is None:
        return "is_json not found"
    m = re.search(r"content_type\s*\.and_then\(\|val\| val\.to_str\(\)\.ok\(\)\)\s*\.is_some_and\(\|content\| \{(.*)\}\)\s*$", body.strip(), re.S)
    if not m:
        return "is_json: `content_type.and_then(|val| val.to_str().ok()).is_some_and(|content| {..})` shape not found"
    spellings = []
    for term in m.group(1).split("||"):
        t = re.fullmatch(r'\s*content\.eq_ignore_ascii_case\("((?:[^"\\]|\\.)*)"\)\s*', term, re.S)
        if not t:
            return "is_json: disjunct is not an eq_ignore_ascii_case comparison: %r" % term.strip()
        spellings.append(rust_str(t.group(1)))
    if not spellings:
        return "is_json: no spellings"
    cbody = translate._fn_body(src, r"pub fn content_type_is_json<T: Body>\(request: &HttpRequest<T>\) -> bool \{")
    if cbody is None or not re.search(r"is_json\(request\.headers\(\)\.get\(hyper::header::CONTENT_TYPE\)\)", cbody):
        return "content_type_is_json: `is_json(request.headers().get(hyper::header::CONTENT_TYPE))` not found"
    # ---- response helpers -> status
    rmod = translate._fn_body(src, r"pub mod response \{")
    if rmod is None:
        return "mod response not found"

    def status_of(fn):
        b = translate._fn_body(rmod, r"pub fn %s\([^)]*\) -> HttpResponse \{" % re.escape(fn))
        if b is None:
            return None
        codes = set(re.findall(r"hyper::StatusCode::(\w+)", b))
        if len(codes) != 1 or next(iter(codes)) not in STATUS:
            return None
        return STATUS[next(iter(codes))]

    # ---- call_with_service
    cws = translate._fn_body(src, r"pub async fn call_with_service<S, B>\(")
    if cws is None:
        # the where-clause contains braces-free text, but the first `{` after the header is the body
        return "call_with_service not found"
    gate = translate._fn_body(cws, r"match \*request\.method\(\) \{")
    if gate is None:
        # _fn_body found the where clause?  fall back to searching the whole source after the fn header
        i = src.find("pub async fn call_with_service<S, B>(")
        gate = translate._fn_body(src[i:], r"match \*request\.method\(\) \{")
        cws = src[i:]
    if gate is None:
        return "call_with_service: `match *request.method()` not found"
    m1 = re.search(r"Method::(\w+) if content_type_is_json\(&request\) =>", gate)
    m2 = re.search(r"\n\s*Method::(\w+) => response::(\w+)\(\),", gate)
    m3 = re.search(r"\n\s*_ => response::(\w+)\(\),", gate)
    if not (m1 and m2 and m3):
        return "call_with_service: the three gate arms were not found"
    if m1.group(1) != m2.group(1):
        return "call_with_service: guarded arm is Method::%s but the content-type fallback arm is Method::%s" % (m1.group(1), m2.group(1))
    # nothing but these three arms at the top level of the match
    top, depth = [], 0
    for line in gate.split("\n"):
        if depth == 0 and "=>" in line and not line.strip().startswith("//"):
            top.append(line.strip())
        depth += line.count("{") - line.count("}")
    if len(top) != 3:
        return "call_with_service: expected exactly 3 top-level arms in the method match, found %d: %r" % (len(top), top)
    errs = dict(re.findall(r"Err\(HttpError::(\w+)(?:\(\w+\))?\) =>\s*(?:\{.*?)?return response::(\w+)\(", gate, re.S))
    if set(errs) != {"TooLarge", "Malformed", "Stream"}:
        return "call_with_service: read_body error arms found: %s" % sorted(errs)
    if not re.search(r"match read_body\(&parts\.headers, body, \w+\)\.await \{", gate):
        return "call_with_service: `match read_body(&parts.headers, body, ..).await` not found"
    mo = re.search(r"let rp = handle_rpc_call\(&body, is_single, [^;]*;\s*(?://[^\n]*\n\s*)*response::(\w+)\(rp\)", gate, re.S)
    if not mo:
        return "call_with_service: handle_rpc_call(&body, is_single, ..) followed by response::<fn>(rp) not found"
    fns = {"method_not_allowed": m3.group(1), "unsupported_content_type": m2.group(2), "too_large": errs["TooLarge"],
           "malformed": errs["Malformed"], "stream_error": errs["Stream"], "answered": mo.group(1)}
    st = {}
    for k, fn in fns.items():
        s = status_of(fn)
        if s is None:
            return "mod response: status code of %s() not found" % fn
        st[k] = s
    out = ["(* GENERATED by tools/translators/http_gate.py from /repo/server/src/transport/http.rs -- do not edit *)",
           "From JV Require Import Base.Bytes.", "",
           "(* is_json: spellings compared with eq_ignore_ascii_case after HeaderValue::to_str; the header read is",
           "   headers().get(CONTENT_TYPE), i.e. the first value when the header is repeated *)",
           "Definition accepted_content_types : list bytes :=", "  ["]
    for i, s in enumerate(spellings):
        out.append("    %s%s  (* %s *)" % (coq_bytes(s), ";" if i + 1 < len(spellings) else "", s.decode("utf-8", "replace").replace("*)", "* )")))
    out += ["  ].", "",
            "(* call_with_service: `Method::%s if content_type_is_json(..)` *)" % m1.group(1),
            "Definition gate_method : bytes := %s.  (* %s *)" % (coq_bytes(m1.group(1).encode()), m1.group(1)), ""]
    for k in ("method_not_allowed", "unsupported_content_type", "too_large", "malformed", "stream_error", "answered"):
        out.append("Definition status_%s : N := %d%%N.  (* response::%s *)" % (k, st[k], fns[k]))
    vlib.write_if_changed(os.path.join(translate.GEN, "HttpGateGen.v"), "\n".join(out) + "\n")
    return None
