"""core/src/client/mod.rs (RequestIdManager, CurrentId, generate_batch_id_range) + the front-end calls of
core/src/client/async_client/mod.rs and client/http-client/src/client.rs   ->   coq/Gen/IdAllocGen.v

The request-id counter of a client is ONE shared atomic (`struct CurrentId(AtomicUsize)`) reached through `&self` from
front-end calls that may run on different threads.  This translator reads HOW each id-taking path touches it and emits
the classification as constructors of Model/IdAlloc.v (which interprets them as a thread-level transition system):

  for `RequestIdManager::next_request_id` and `RequestIdManager::next_batch_id_range` the sequence of ACCESSES to the
  counter is collected in textual order, following the calls into `CurrentId` (`self.current_id.<m>(..)`, and from there
  `self.<m>(..)` / `self.0.<atomic op>(..)`; a direct `self.current_id.0.<op>` counts as well):
    exactly one access, an atomic read-modify-write (`fetch_add`; `fetch_update` whose closure is checked_add/wrapping_add;
    a load followed by a `compare_exchange[_weak]` on the loaded variable inside a loop), AND the body of the manager method
    has one of the known shapes in which the ids handed out are computed from the value that RMW returned
                                                                                   -> RAtomicRmw
    two or more accesses of which the first is a `load` and the last a `store` / `fetch_add`
                                                                                   -> RLoadThenStore AdvStore / AdvFetchAdd
    anything else (another atomic op, a lock, a conditional around an access, an unknown body shape around a single RMW)
                                                                                   -> translation ERROR naming the construct
  overflow rules: the counter advance (`fetch_add` wraps: OvWrap; fetch_update/CAS with checked_add: OvChecked) and the end
  of a batch range in `generate_batch_id_range` (`id_start.checked_add(len).ok_or_else(|| <error>)?`: OvChecked, the error
  text is emitted; `wrapping_add`: OvWrap; anything else: error);
  width of the counter from the field's type; memory ordering of the advancing access.
  Every mention of `current_id` / `CurrentId` in the file outside the places read here is an error, and so is one in
  another source file of the client crates.

  Front end (async client): for `notification`, `request`, `batch_request`, `subscribe` the id-taking calls
  (`self.id_manager.next_request_id()` = TSingle, `self.id_manager.next_batch_id_range(batch.len() as u64)?` = TBatchLen) in
  order, and what precedes the first of them (nothing / `let batch = batch.build()?;` / the name-conflict return of
  subscribe): Proofs/IdAllocFacts.v ties Model/ClientMgr.v's FCall/FNotify/FBatch/FSubscribe events to these lists.
  The HTTP client's uses are listed (same manager, same two methods); any other method called on an `id_manager` is an error.

Override for trying the translator on a scratch checkout: run(repo=<root>, out=<file>) or VERIF_REPO / VERIF_IDALLOC_OUT.
With an override the result is NEVER written to /verif/coq/Gen: it goes to `out`, else to stdout."""
import os, re, sys
sys.path.insert(0, os.path.dirname(os.path.dirname(os.path.abspath(__file__))))
import translate, vlib
from translators.table_ops import blank, block_after, find_block, line_of, nows

CORE = "core/src/client/mod.rs"
ASYNC = "core/src/client/async_client/mod.rs"
HTTP = "client/http-client/src/client.rs"
OTHER_DIRS = ["core/src", "client", "jsonrpsee/src", "types/src"]

ATOMIC_BITS = {"AtomicUsize": 64, "AtomicU64": 64, "AtomicU32": 32}
ORDERS = {"Relaxed": "ORelaxed", "Acquire": "OAcquire", "Release": "ORelease", "AcqRel": "OAcqRel", "SeqCst": "OSeqCst"}
RMW_OPS = ("fetch_add", "fetch_update", "compare_exchange", "compare_exchange_weak")
KNOWN_OPS = RMW_OPS + ("load", "store")


class Err(Exception):
    pass


def one_line(s):
    return " ".join(s.split())


def methods_of(src, lo, hi):
    """{name: (header offset, body start, body end)} for the `fn`s directly inside src[lo:hi]"""
    out = {}
    rx = re.compile(r"\bfn\s+(\w+)\s*(?:<[^>{}]*>)?\s*\(")
    pos = lo
    while True:
        m = rx.search(src, pos, hi)
        if not m:
            return out
        brace = src.find("{", m.end(), hi)
        semi = src.find(";", m.end(), hi)
        if brace < 0 or (0 <= semi < brace):
            pos = m.end()
            continue
        b = block_after(src, brace)
        if b is None:
            raise Err("%s:%d: unbalanced braces in fn %s" % (CORE, line_of(src, m.start()), m.group(1)))
        out[m.group(1)] = (m.start(), b[0], b[1])
        pos = b[1]


def call_args(src, open_paren):
    """text between the parenthesis at open_paren and its match, and the offset after the match"""
    depth, j = 0, open_paren
    while j < len(src):
        if src[j] in "([{":
            depth += 1
        elif src[j] in ")]}":
            depth -= 1
            if depth == 0:
                return src[open_paren + 1:j], j + 1
        j += 1
    raise Err("unbalanced parentheses")


def in_loop(src, body_start, off):
    """is offset `off` inside a `loop {` / `while .. {` / `for .. {` block opened after body_start?"""
    stack, seg, j = [], body_start, body_start
    while j < off:
        ch = src[j]
        if ch == "{":
            stack.append(one_line(src[seg:j]))
            seg = j + 1
        elif ch == "}":
            if stack:
                stack.pop()
            seg = j + 1
        elif ch == ";":
            seg = j + 1
        j += 1
    return any(re.search(r"\b(loop|while|for)\b", h) for h in stack)


def conditional_context(src, body_start, off):
    """headers of `if`/`match`/closure blocks (not loops) that enclose `off`"""
    stack, seg, j = [], body_start, body_start
    while j < off:
        ch = src[j]
        if ch == "{":
            stack.append(one_line(src[seg:j]))
            seg = j + 1
        elif ch == "}":
            if stack:
                stack.pop()
            seg = j + 1
        elif ch == ";":
            seg = j + 1
        j += 1
    return [h for h in stack if re.search(r"\b(if|match|else)\b", h) and not re.search(r"\b(loop|while|for)\b", h)]


ACCESS = re.compile(r"\bself\s*\.\s*(?:(current_id)\s*\.\s*)?0\s*\.\s*(\w+)\s*\(")
SELF_CALL = re.compile(r"\bself\s*\.\s*(\w+)\s*\(")
CUR_CALL = re.compile(r"\bself\s*\.\s*current_id\s*\.\s*(\w+)\s*\(")


def accesses_of_current_id_method(src, cur, name, seen=()):
    """accesses of CurrentId::<name> in textual order: [dict(op, args, line, loop, via)]"""
    if name in seen:
        raise Err("%s: CurrentId::%s is recursive" % (CORE, name))
    if name not in cur:
        raise Err("%s: CurrentId::%s is called but not defined in `impl CurrentId`" % (CORE, name))
    h, lo, hi = cur[name]
    events = []
    for m in ACCESS.finditer(src, lo, hi):
        if m.group(1):
            raise Err("%s:%d: `self.current_id` inside impl CurrentId" % (CORE, line_of(src, m.start())))
        events.append((m.start(), "access", m))
    for m in SELF_CALL.finditer(src, lo, hi):
        if m.group(1) in cur:
            events.append((m.start(), "call", m))
        else:
            raise Err("%s:%d: CurrentId::%s calls `self.%s(..)`, which is not a method of CurrentId"
                      % (CORE, line_of(src, m.start()), name, m.group(1)))
    # any other use of the atomic (`&self.0`, passing it on) is not understood
    for m in re.finditer(r"\bself\s*\.\s*0\b(?!\s*\.\s*\w+\s*\()", src[lo:hi]):
        raise Err("%s:%d: CurrentId::%s uses the atomic in a way this translator does not read: `%s`"
                  % (CORE, line_of(src, lo + m.start()), name, one_line(src[lo + m.start():lo + m.start() + 60])))
    out = []
    for off, kind, m in sorted(events, key=lambda e: e[0]):
        if kind == "call":
            out += [dict(a, via=name + " -> " + a["via"]) for a in accesses_of_current_id_method(src, cur, m.group(1), seen + (name,))]
            continue
        op = m.group(2)
        args, after = call_args(src, m.end() - 1)
        if op not in KNOWN_OPS:
            raise Err("%s:%d: CurrentId::%s: atomic operation `%s` is not classified (known: %s)"
                      % (CORE, line_of(src, off), name, op, ", ".join(KNOWN_OPS)))
        cond = conditional_context(src, lo, off)
        out.append(dict(op=op, args=one_line(args), line=line_of(src, off), loop=in_loop(src, lo, off), cond=cond, via=name, body=one_line(src[lo:hi]),
                        text=one_line(src[off:after]), linetext=one_line(src[src.rfind("\n", 0, off) + 1:src.find("\n", off)])))
    return out


def ordering_of(acc):
    ords = re.findall(r"Ordering\s*::\s*(\w+)", acc["args"])
    if not ords or any(o not in ORDERS for o in ords):
        raise Err("%s:%d: memory ordering of `%s(%s)` not read" % (CORE, acc["line"], acc["op"], acc["args"]))
    return ORDERS[ords[0]]


def adv_rule_of_closure(acc):
    """overflow rule of a fetch_update closure / CAS new-value computation"""
    if re.search(r"\bchecked_add\b", acc["args"]):
        return "OvChecked"
    if re.search(r"\bwrapping_add\b", acc["args"]):
        return "OvWrap"
    raise Err("%s:%d: `%s(%s)`: how the new counter value overflows is not read (expected checked_add / wrapping_add)"
              % (CORE, acc["line"], acc["op"], acc["args"]))


def reduce_rmw(src, accs, where):
    """collapse the accesses of ONE CurrentId call chain into logical accesses: a `load` + `compare_exchange` loop is one RMW.
    -> [dict(kind: 'rmw'|'load'|'store', rule, order, line, text)]"""
    out, i = [], 0
    while i < len(accs):
        a = accs[i]
        if a["cond"] and a["op"] != "compare_exchange" and a["op"] != "compare_exchange_weak":
            raise Err("%s:%d: %s: the access `%s` is conditional (inside `%s`): not classified"
                      % (CORE, a["line"], where, a["text"], a["cond"][-1][:80]))
        if a["op"] == "fetch_add":
            out.append(dict(kind="rmw", how="fetch_add", rule="OvWrap", order=ordering_of(a), line=a["line"], text=a["text"], args=a["args"], via=a["via"]))
        elif a["op"] == "fetch_update":
            out.append(dict(kind="rmw", how="fetch_update", rule=adv_rule_of_closure(a), order=ordering_of(a), line=a["line"], text=a["text"], args=a["args"], via=a["via"]))
        elif a["op"] == "load" and i + 1 < len(accs) and accs[i + 1]["op"].startswith("compare_exchange") and accs[i + 1]["via"] == a["via"]:
            c = accs[i + 1]
            if not c["loop"]:
                raise Err("%s:%d: %s: `%s` is not retried in a loop: a failed exchange would hand out nothing / a stale value"
                          % (CORE, c["line"], where, c["text"]))
            # the variable bound to the load must be the `current` argument of the exchange
            lm = re.search(r"let\s+(?:mut\s+)?(\w+)\s*(?::[^=]+)?=\s*self\s*\.\s*0\s*\.\s*load", a["linetext"])
            first = c["args"].split(",")[0].strip()
            if not lm or lm.group(1) != first:
                raise Err("%s:%d: %s: compare_exchange does not compare against the loaded value (`%s` vs `%s`)"
                          % (CORE, c["line"], where, first, a["linetext"]))
            if re.search(r"\bchecked_add\b", a["body"]):
                rule = "OvChecked"
            elif re.search(r"\bwrapping_add\b", a["body"]):
                rule = "OvWrap"
            else:
                raise Err("%s:%d: %s: how the new value of the compare_exchange loop overflows is not read (expected checked_add / "
                          "wrapping_add): `%s`" % (CORE, c["line"], where, a["body"][:200]))
            out.append(dict(kind="rmw", how="compare_exchange loop", rule=rule, order=ordering_of(c), line=c["line"], text=c["text"], args=c["args"], via=c["via"]))
            i += 1
        elif a["op"] == "load":
            out.append(dict(kind="load", how="load", rule=None, order=ordering_of(a), line=a["line"], text=a["text"], args=a["args"], via=a["via"]))
        elif a["op"] == "store":
            out.append(dict(kind="store", how="store", rule="OvWrap", order=ordering_of(a), line=a["line"], text=a["text"], args=a["args"], via=a["via"]))
        else:
            raise Err("%s:%d: %s: `%s` outside a load + compare_exchange loop is not classified" % (CORE, a["line"], where, a["text"]))
        i += 1
    return out


# the known shapes of the two manager methods around a SINGLE RMW (whitespace-free): the ids come from the RMW's result
SINGLE_SHAPES = [r"self\.id_kind\.into_id\(self\.current_id\.(?P<m>\w+)\((?P<a>[^()]*)\)\)",
                 r"letid=self\.current_id\.(?P<m>\w+)\((?P<a>[^()]*)\);self\.id_kind\.into_id\(id\)"]
BATCH_SHAPES = [r"letid_start=self\.current_id\.(?P<m>\w+)\((?P<a>len)\);generate_batch_id_range\(Id::Number\(id_start\),len\)",
                r"generate_batch_id_range\(Id::Number\(self\.current_id\.(?P<m>\w+)\((?P<a>len)\)\),len\)"]


def path_accesses(src, mgr, cur, name):
    """logical accesses of RequestIdManager::<name>, the per-call chains kept apart: [[access..] per CurrentId call]"""
    if name not in mgr:
        raise Err("%s: RequestIdManager::%s not found" % (CORE, name))
    h, lo, hi = mgr[name]
    events = [(m.start(), "call", m) for m in CUR_CALL.finditer(src, lo, hi)]
    for m in ACCESS.finditer(src, lo, hi):
        if not m.group(1):
            raise Err("%s:%d: RequestIdManager::%s: `self.0` in the manager" % (CORE, line_of(src, m.start()), name))
        events.append((m.start(), "direct", m))
    mentions = [m.start() for m in re.finditer(r"\bcurrent_id\b", src[lo:hi])]
    if len(mentions) != len(events):
        raise Err("%s:%d: RequestIdManager::%s uses `current_id` in a way this translator does not read: `%s`"
                  % (CORE, line_of(src, h), name, one_line(src[lo:hi])[:200]))
    chains = []
    for off, kind, m in sorted(events, key=lambda e: e[0]):
        if kind == "call":
            accs = accesses_of_current_id_method(src, cur, m.group(1))
            chains.append(reduce_rmw(src, accs, "RequestIdManager::%s -> CurrentId::%s" % (name, m.group(1))))
        else:
            op = m.group(2)
            args, after = call_args(src, m.end() - 1)
            if op not in KNOWN_OPS:
                raise Err("%s:%d: RequestIdManager::%s: atomic operation `%s` is not classified" % (CORE, line_of(src, off), name, op))
            a = dict(op=op, args=one_line(args), line=line_of(src, off), loop=in_loop(src, lo, off), cond=conditional_context(src, lo, off),
                     via="(direct)", body=one_line(src[lo:hi]), text=one_line(src[off:after]), linetext=one_line(src[src.rfind("\n", 0, off) + 1:src.find("\n", off)]))
            chains.append(reduce_rmw(src, [a], "RequestIdManager::%s" % name))
    return chains, (h, lo, hi)


def classify_path(src, mgr, cur, name, shapes):
    """-> (class text, advancing access, all accesses, note)"""
    chains, (h, lo, hi) = path_accesses(src, mgr, cur, name)
    accs = [a for c in chains for a in c]
    body = nows(src[lo:hi])
    if not accs:
        raise Err("%s:%d: RequestIdManager::%s does not touch the id counter: `%s`" % (CORE, line_of(src, h), name, one_line(src[lo:hi])[:200]))
    if len(accs) == 1 and accs[0]["kind"] == "rmw":
        if not any(re.fullmatch(rx, body) for rx in shapes):
            raise Err("%s:%d: RequestIdManager::%s performs one atomic RMW but the shape of its body is unknown (are the ids still "
                      "computed from the value the RMW returned?): `%s`" % (CORE, line_of(src, h), name, one_line(src[lo:hi])[:240]))
        return "RAtomicRmw", accs[0], accs, "one atomic %s" % accs[0]["how"]
    if len(accs) >= 2 and accs[0]["kind"] == "load":
        last = accs[-1]
        if last["kind"] == "store":
            return "(RLoadThenStore AdvStore)", last, accs, "load, then store"
        if last["kind"] == "rmw" and last["how"] == "fetch_add":
            return "(RLoadThenStore AdvFetchAdd)", last, accs, "load, then fetch_add"
    raise Err("%s:%d: RequestIdManager::%s: the sequence of accesses to the id counter [%s] is not classified: `%s`"
              % (CORE, line_of(src, h), name, ", ".join("%s@%d" % (a["how"], a["line"]) for a in accs), one_line(src[lo:hi])[:200]))


def range_end_rule(src, raw):
    fn = find_block(src, r"pub\s+fn\s+generate_batch_id_range\s*\(\s*id\s*:\s*Id\s*,\s*len\s*:\s*u64\s*\)\s*->\s*Result\s*<\s*Range\s*<\s*u64\s*>\s*,\s*Error\s*>\s*\{")
    if not fn:
        raise Err("%s: pub fn generate_batch_id_range(id: Id, len: u64) -> Result<Range<u64>, Error> not found" % CORE)
    body = nows(src[fn[1]:fn[2]])
    ln = line_of(src, fn[0])
    if not re.fullmatch(r"letid_start=id\.try_parse_inner_as_number\(\)\?;letid_end=id_start\.(?P<op>\w+)\(len\)(?P<tail>.*?);Ok\(id_start\.\.id_end\)", body):
        raise Err("%s:%d: generate_batch_id_range: unknown shape `%s`" % (CORE, ln, one_line(src[fn[1]:fn[2]])[:240]))
    m = re.fullmatch(r"letid_start=id\.try_parse_inner_as_number\(\)\?;letid_end=id_start\.(?P<op>\w+)\(len\)(?P<tail>.*?);Ok\(id_start\.\.id_end\)", body)
    if m.group("op") == "checked_add":
        if not re.fullmatch(r"\.ok_or_else\(\|\|Error::Custom\(\"\s*\"\.to_string\(\)\)\)\?", m.group("tail")):
            raise Err("%s:%d: generate_batch_id_range: what a failed checked_add turns into is not read: `%s`" % (CORE, ln, m.group("tail")[:120]))
        rawfn = raw[fn[1]:fn[2]]
        msg = re.search(r'Error\s*::\s*Custom\(\s*"((?:[^"\\]|\\.)*)"', rawfn)
        if not msg:
            raise Err("%s:%d: generate_batch_id_range: error text not found" % (CORE, ln))
        return "OvChecked", "Custom: " + msg.group(1), ln
    if m.group("op") == "wrapping_add" and m.group("tail") == "":
        return "OvWrap", "", ln
    raise Err("%s:%d: generate_batch_id_range: `id_start.%s(len)%s` is not classified" % (CORE, ln, m.group("op"), m.group("tail")[:80]))


# every other mention of the counter / its type in core/src/client/mod.rs (whitespace-normalised lines)
PASS_LINES = [
    ("field declaration", r"current_id: CurrentId,"),
    ("constructor", r"Self \{ current_id: CurrentId::new\(\), id_kind \}"),
    ("type", r"struct CurrentId\((\w+)\);"),
    ("impl", r"impl CurrentId \{"),
    ("initial value", r"CurrentId\((\w+)::new\(0\)\)"),
]


def collect(root):
    raw = open(os.path.join(root, CORE)).read()
    src = blank(raw)
    m = re.search(r"\bstruct\s+CurrentId\s*\(\s*(\w+)\s*\)\s*;", src)
    if not m:
        raise Err("%s: `struct CurrentId(<atomic>);` not found" % CORE)
    if m.group(1) not in ATOMIC_BITS:
        raise Err("%s:%d: the id counter is a `%s`: not one of the atomic integers this translator knows (%s) - a lock or a plain "
                  "integer needs a model of its own" % (CORE, line_of(src, m.start()), m.group(1), ", ".join(sorted(ATOMIC_BITS))))
    atomic = m.group(1)
    if len(re.findall(r"\bstruct\s+CurrentId\b", src)) != 1:
        raise Err("%s: more than one `struct CurrentId`" % CORE)
    st = re.search(r"pub\s+struct\s+RequestIdManager\s*\{", src)
    if not st:
        raise Err("%s: pub struct RequestIdManager not found" % CORE)
    sb = block_after(src, st.end() - 1)
    if not re.search(r"\bcurrent_id\s*:\s*CurrentId\s*,", src[sb[0]:sb[1]]):
        raise Err("%s:%d: RequestIdManager no longer holds `current_id: CurrentId`" % (CORE, line_of(src, st.start())))
    impls_cur = [mm for mm in re.finditer(r"\bimpl\s+CurrentId\s*\{", src)]
    impls_mgr = [mm for mm in re.finditer(r"\bimpl\s+RequestIdManager\s*\{", src)]
    if len(impls_cur) != 1 or len(impls_mgr) != 1:
        raise Err("%s: expected exactly one `impl CurrentId` and one `impl RequestIdManager` (found %d, %d)" % (CORE, len(impls_cur), len(impls_mgr)))
    cb = block_after(src, impls_cur[0].end() - 1)
    mb = block_after(src, impls_mgr[0].end() - 1)
    cur = methods_of(src, cb[0], cb[1])
    mgr = methods_of(src, mb[0], mb[1])
    if "new" not in cur or not re.fullmatch(r"CurrentId\(%s::new\(0\)\)" % atomic, nows(src[cur["new"][1]:cur["new"][2]])):
        raise Err("%s: CurrentId::new is no longer `CurrentId(%s::new(0))`" % (CORE, atomic))
    single = classify_path(src, mgr, cur, "next_request_id", SINGLE_SHAPES)
    batch = classify_path(src, mgr, cur, "next_batch_id_range", BATCH_SHAPES)
    # the single path asks for exactly one id
    sm = next((re.fullmatch(rx, nows(src[mgr["next_request_id"][1]:mgr["next_request_id"][2]])) for rx in SINGLE_SHAPES
               if re.fullmatch(rx, nows(src[mgr["next_request_id"][1]:mgr["next_request_id"][2]]))), None)
    if single[0] == "RAtomicRmw":
        callee, arg = sm.group("m"), sm.group("a")
        # follow `next()` -> `self.next_n(1)`: the amount must be the literal 1
        amount = arg
        seen = set()
        while True:
            if callee in seen:
                raise Err("%s: CurrentId::%s recursion" % (CORE, callee))
            seen.add(callee)
            body = nows(src[cur[callee][1]:cur[callee][2]])
            fwd = re.fullmatch(r"self\.(\w+)\(([^()]*)\)", body)
            if fwd:
                callee, amount = fwd.group(1), fwd.group(2)
                continue
            break
        if amount != "1":
            raise Err("%s: next_request_id advances the counter by `%s`, expected the literal 1" % (CORE, amount))
    # the amount reaches the advancing access unchanged up to the usize conversion
    adv = batch[1]
    conv = ""
    advancing_fn = adv["via"].split(" -> ")[-1]
    if batch[0] == "RAtomicRmw" and adv["how"] == "fetch_add":
        if advancing_fn not in cur:
            raise Err("%s:%d: next_batch_id_range touches the atomic directly: `%s`" % (CORE, adv["line"], adv["text"]))
        h, lo, hi = cur[advancing_fn]
        body = nows(src[lo:hi])
        okb = re.fullmatch(r"(?:letn=usize::try_from\(n\)\.unwrap_or\(usize::MAX\);)?self\.0\.fetch_add\(n,Ordering::\w+\)"
                           r"(?:\.try_into\(\)\.expect\(\"\s*\"\)|asu64)?", body)
        if not okb:
            raise Err("%s:%d: CurrentId::%s: unknown shape around the fetch_add (is the amount still `n`, the result still the old "
                      "value?): `%s`" % (CORE, line_of(src, h), advancing_fn, one_line(src[lo:hi])[:240]))
        if "usize::try_from" in body:
            conv = "n is narrowed with usize::try_from(n).unwrap_or(usize::MAX) (identity on 64-bit targets)"
    end_rule, end_err, end_line = range_end_rule(src, raw)
    # ---- every other mention
    spans = [(cb[0], cb[1]), (mgr["next_request_id"][1], mgr["next_request_id"][2]), (mgr["next_batch_id_range"][1], mgr["next_batch_id_range"][2])]
    others = []
    for mm in re.finditer(r"\bcurrent_id\b|\bCurrentId\b", src):
        if any(a <= mm.start() < b for a, b in spans):
            continue
        ls = src.rfind("\n", 0, mm.start()) + 1
        le = src.find("\n", mm.start())
        text = one_line(src[ls:le])
        cls = next((c for c, rx in PASS_LINES if re.fullmatch(rx, text)), None)
        if cls is None:
            raise Err("%s:%d: unclassified use of the id counter: `%s`" % (CORE, line_of(src, mm.start()), text[:160]))
        if (line_of(src, mm.start()), cls, text) not in others:
            others.append((line_of(src, mm.start()), cls, text))
    for d in OTHER_DIRS:
        for dp, dns, fns in os.walk(os.path.join(root, d)):
            dns[:] = [x for x in dns if x not in ("target", "tests", "benches", "examples")]
            for fn in sorted(fns):
                p = os.path.join(dp, fn)
                rel = os.path.relpath(p, root)
                if not fn.endswith(".rs") or rel == CORE:
                    continue
                s2 = blank(open(p).read())
                for mm in re.finditer(r"\bCurrentId\b|\bcurrent_id\b", s2):
                    raise Err("%s:%d: the id counter is used in a file this translator does not read: `%s`"
                              % (rel, line_of(s2, mm.start()), one_line(s2[s2.rfind(chr(10), 0, mm.start()) + 1:s2.find(chr(10), mm.start())])[:160]))
    front, sites = front_end(root)
    return dict(atomic=atomic, bits=ATOMIC_BITS[atomic], single=single, batch=batch, end_rule=end_rule, end_err=end_err, end_line=end_line,
                conv=conv, others=others, front=front, sites=sites)


TAKE_CALL = re.compile(r"\bself\s*\.\s*id_manager\s*\.\s*(\w+)\s*\(")
FRONT = [("fe_notification", "notification", [""]),
         ("fe_request", "request", [""]),
         ("fe_batch", "batch_request", ["letbatch=batch.build()?;"]),
         ("fe_subscribe", "subscribe", ["ifsubscribe_method==unsubscribe_method{returnErr(RegisterMethodError::SubscriptionNameConflict(unsubscribe_method.to_owned()).into());}"])]


def takes_in(rel, src, fn_name, allowed_prefix=None):
    fn = find_block(src, r"\bfn\s+%s\s*(?:<[^{};]*?>)?\s*\(\s*&\s*self\b[^{;]*\{" % fn_name)
    if not fn:
        raise Err("%s: fn %s(&self, ..) not found" % (rel, fn_name))
    # the body is `async { .. }` / `async move { .. }`
    inner = re.match(r"\s*async\s*(?:move\s*)?\{", src[fn[1]:fn[2]])
    if not inner:
        raise Err("%s:%d: fn %s: body is not a single async block" % (rel, line_of(src, fn[0]), fn_name))
    b = block_after(src, fn[1] + inner.end() - 1)
    takes, first = [], None
    for m in TAKE_CALL.finditer(src, b[0], b[1]):
        args, after = call_args(src, m.end() - 1)
        if m.group(1) == "as_id_kind":
            continue
        if conditional_context(src, b[0], m.start()) or in_loop(src, b[0], m.start()):
            raise Err("%s:%d: fn %s: an id is taken conditionally / in a loop: `%s`" % (rel, line_of(src, m.start()), fn_name,
                      one_line(src[src.rfind(chr(10), 0, m.start()) + 1:src.find(chr(10), m.start())])))
        if m.group(1) == "next_request_id" and nows(args) == "":
            takes.append("TSingle")
        elif m.group(1) == "next_batch_id_range" and nows(args) == "batch.len()asu64" and src[after:after + 1] == "?":
            takes.append("TBatchLen")
        else:
            raise Err("%s:%d: fn %s: `self.id_manager.%s(%s)` is not classified" % (rel, line_of(src, m.start()), fn_name, m.group(1), one_line(args)))
        if first is None:
            first = src.rfind("\n", 0, m.start()) + 1        # start of the line of the first take
    prefix = nows(src[b[0]:first]) if first is not None else None
    return takes, prefix, line_of(src, fn[0])


def front_end(root):
    src = blank(open(os.path.join(root, ASYNC)).read())
    front, sites = {}, []
    for field, fn_name, prefixes in FRONT:
        takes, prefix, ln = takes_in(ASYNC, src, fn_name)
        if not takes:
            raise Err("%s:%d: fn %s takes no request id" % (ASYNC, ln, fn_name))
        if prefix not in prefixes:
            raise Err("%s:%d: fn %s: what runs before the first id is taken is not what Model/ClientMgr.v assumes (`%s`)" % (ASYNC, ln, fn_name, prefix[:200]))
        front[field] = takes
        sites.append((ASYNC, ln, fn_name, takes))
    h = blank(open(os.path.join(root, HTTP)).read())
    for fn_name in ("notification", "request", "batch_request"):
        takes, _, ln = takes_in(HTTP, h, fn_name)
        sites.append((HTTP, ln, fn_name, takes))
    for rel, s in ((ASYNC, src), (HTTP, h)):
        for m in re.finditer(r"\bid_manager\s*\.\s*(\w+)", s):
            if m.group(1) not in ("next_request_id", "next_batch_id_range", "as_id_kind"):
                raise Err("%s:%d: `id_manager.%s` is not classified" % (rel, line_of(s, m.start()), m.group(1)))
    return front, sites


def cq(s):
    return s.replace("(*", "( *").replace("*)", "* )")


def render(root, r):
    def accs(p):
        return "; ".join("%s:%d `%s`" % (CORE, a["line"], cq(a["text"])) for a in p[2])
    order = r["batch"][1]["order"]
    L = ["(* GENERATED by tools/translators/id_alloc.py from %s/{%s,%s,%s} -- do not edit *)" % (root, CORE, ASYNC, HTTP),
         "From Coq Require Import List NArith String.",
         "From JV Require Import Model.IdAlloc.",
         "Import ListNotations.",
         "",
         "(* the counter: struct CurrentId(%s) *)" % r["atomic"],
         "(* RequestIdManager::next_request_id: %s  [%s] *)" % (r["single"][3], accs(r["single"])),
         "Definition single_path_gen : rmw_class := %s." % r["single"][0],
         "(* RequestIdManager::next_batch_id_range: %s  [%s] *)" % (r["batch"][3], accs(r["batch"])),
         "Definition batch_path_gen : rmw_class := %s." % r["batch"][0],
         "(* the advance: %s wraps silently%s *)" % (r["batch"][1]["how"], ("; " + r["conv"]) if r["conv"] else ""),
         "Definition counter_ovf_gen : ovf_rule := %s." % r["batch"][1]["rule"],
         "(* %s:%d generate_batch_id_range: the end of the range *)" % (CORE, r["end_line"]),
         "Definition range_end_ovf_gen : ovf_rule := %s." % r["end_rule"],
         'Definition range_end_error_gen : string := "%s"%%string.' % r["end_err"].replace('"', '""'),
         "Definition rmw_order_gen : mem_order := %s." % order,
         "",
         "Definition id_alloc_gen : id_alloc :=",
         "  mkIdAlloc single_path_gen batch_path_gen %d%%N counter_ovf_gen range_end_ovf_gen rmw_order_gen." % r["bits"],
         "",
         "(* ids taken by the front-end calls of the async client, in order *)",
         "Definition front_takes_gen : front_takes :=",
         "  mkFront [%s] [%s] [%s] [%s]." % tuple("; ".join(r["front"][k]) for k in ("fe_request", "fe_notification", "fe_batch", "fe_subscribe")),
         "",
         "(* id-taking call sites: *)"]
    for rel, ln, fn, takes in r["sites"]:
        L.append("(*   %s:%d   fn %-14s [%s] *)" % (rel, ln, fn, "; ".join(takes)))
    L.append("(* other mentions of the counter in %s (%d): *)" % (CORE, len(r["others"])))
    for ln, cls, text in r["others"]:
        L.append("(*   %s:%d   %-18s %s *)" % (CORE, ln, cls, cq(text)[:110]))
    L.append("")
    return "\n".join(L)


def run(repo=None, out=None):
    override = repo or os.environ.get("VERIF_REPO")
    root = override or translate.REPO
    out = out or os.environ.get("VERIF_IDALLOC_OUT")
    try:
        r = collect(root)
    except Err as e:
        return str(e)
    text = render(root, r)
    if out:
        vlib.write_if_changed(out, text)
    elif not override:
        vlib.write_if_changed(os.path.join(translate.GEN, "IdAllocGen.v"), text)
    else:
        print(text)
    return None


if __name__ == "__main__":
    r = run(sys.argv[1] if len(sys.argv) > 1 else None, sys.argv[2] if len(sys.argv) > 2 else None)
    if r:
        print("ERROR:", r)
        sys.exit(1)
