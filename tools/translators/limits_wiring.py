"""limits_wiring: which configuration value reaches which size check, per server entry point.

Reads (regex + brace matching, no Rust parser)
  server/src/server.rs          ServerConfigBuilder setters + build(); TowerServiceNoHttp::call (the code behind both
                                `Server::start` and the `TowerService` built by `to_service_builder()`)
  server/src/transport/ws.rs    `connect` (low-level API), `background_task` (the limit reported in the -32007 error)
  server/src/transport/http.rs  `call_with_service_builder`, `call_with_service`
  core/src/http_helpers.rs      `read_body` (which parameter feeds the Content-Length pre-check and `Limited`)
  server/src/middleware/rpc.rs  `RpcService::{new,call,batch}` (which limit each callback kind / the batch builder gets)
and writes coq/Gen/LimitsWiringGen.v.  Every definition body is produced from the source expression found at the
anchor: swapping `max_request_body_size` / `max_response_body_size` anywhere changes the generated definition (and then
Props/C07.v or Props/C08.v no longer compiles).  An expression the resolver does not understand is an error, never a guess.
"""
import os, re
import vlib
import translate

FIELDS = {"max_request_body_size": "max_request", "max_response_body_size": "max_response"}
U32_MAX = 4294967295
USIZE_MAX = 18446744073709551615


class Missing(Exception):
    pass


def _need(cond, msg):
    if not cond:
        raise Missing(msg)


def _mask(src):
    """same-length copy of src with comments, string literals and char/byte literals blanked (so braces and
    parentheses inside them do not disturb matching)"""
    out = list(src)
    i, n = 0, len(src)
    while i < n:
        c = src[i]
        if src.startswith("//", i):
            j = src.find("\n", i)
            j = n if j < 0 else j
        elif src.startswith("/*", i):
            j = src.find("*/", i + 2)
            j = n if j < 0 else j + 2
        elif c == '"':
            j = i + 1
            while j < n and src[j] != '"':
                j += 2 if src[j] == "\\" else 1
            j += 1
        elif c == "'" and i + 2 < n and (src[i + 2] == "'" and src[i + 1] != "\\" or src[i + 1] == "\\" and src.find("'", i + 2) in (i + 3, i + 4)):
            j = src.find("'", i + 2) + 1
        else:
            i += 1
            continue
        for k in range(i, min(j, n)):
            if out[k] != "\n":
                out[k] = " "
        i = j
    return "".join(out)


def _body(src, header_re):
    """text of the {...} block following the first match of header_re; literals and comments are ignored when matching"""
    masked = _mask(src)
    m = re.search(header_re, masked)
    if not m:
        return None
    i = masked.find("{", m.end() - 1)
    if i < 0:
        return None
    depth, j = 0, i
    while j < len(masked):
        if masked[j] == "{":
            depth += 1
        elif masked[j] == "}":
            depth -= 1
            if depth == 0:
                return masked[i + 1:j]
        j += 1
    return None


def _split_args(s):
    """split at top-level commas"""
    out, depth, cur = [], 0, ""
    for ch in s:
        if ch in "([{<":
            depth += 1
        elif ch in ")]}>":
            depth -= 1
        if ch == "," and depth == 0:
            out.append(cur.strip())
            cur = ""
        else:
            cur += ch
    if cur.strip():
        out.append(cur.strip())
    return out


def _call_args(body, callee_re, which=None):
    """argument lists of every call matching callee_re( ... ) in body, in source order"""
    res = []
    for m in re.finditer(callee_re + r"\s*\(", body):
        i = m.end()
        depth, j = 1, i
        while j < len(body) and depth:
            if body[j] == "(":
                depth += 1
            elif body[j] == ")":
                depth -= 1
            j += 1
        res.append((m.start(), _split_args(body[i:j - 1])))
    return res


def _params(src, fn_re):
    """parameter names of the fn whose header matches fn_re (up to the closing paren of the parameter list)"""
    m = re.search(fn_re + r"\s*(?:<[^{;]*?>)?\s*\(", src, re.S)
    _need(m, "fn header %s not found" % fn_re)
    i = m.end()
    depth, j = 1, i
    while depth:
        if src[j] == "(":
            depth += 1
        elif src[j] == ")":
            depth -= 1
        j += 1
    names = []
    for p in _split_args(src[i:j - 1]):
        p = p.strip()
        if p in ("self", "&self", "&mut self", "mut self") or not p:
            continue
        names.append(re.sub(r"^mut\s+", "", p.split(":")[0].strip()))
    return names


def _resolve(expr, body, params=(), depth=0):
    """Rust expression -> ('field', name) | ('param', name) | ('const', n)."""
    _need(depth < 6, "expression %r: resolution too deep" % expr)
    e = expr.strip()
    e = re.sub(r"\s+as\s+(usize|u32|u64)\s*$", "", e).strip()
    while e.startswith("(") and e.endswith(")"):
        e = e[1:-1].strip()
        e = re.sub(r"\s+as\s+(usize|u32|u64)\s*$", "", e).strip()
    if e == "u32::MAX":
        return ("const", U32_MAX)
    if e == "usize::MAX":
        return ("const", USIZE_MAX)
    if re.fullmatch(r"\d[\d_]*", e):
        return ("const", int(e.replace("_", "")))
    _need(re.fullmatch(r"[A-Za-z_]\w*(\.[A-Za-z_]\w*)*", e), "expression %r is not a path the translator understands" % expr)
    path = e.split(".")
    name = path[-1]
    if len(path) > 1:
        # a field access on the configuration: this.server_cfg.X / server_cfg.X / self.X (builder)
        _need(name in FIELDS, "expression %r does not end in one of the two limit fields" % expr)
        return ("field", FIELDS[name])
    if name in params:
        return ("param", name)
    m = re.search(r"let\s+(?:mut\s+)?%s\s*(?::[^=;]+)?=\s*([^;]+);" % re.escape(name), body)
    if m:
        return _resolve(m.group(1), body, params, depth + 1)
    for m in re.finditer(r"let\s+ServerConfig\s*\{([^}]*)\}\s*=\s*[\w.]+\s*;", body):
        for item in m.group(1).split(","):
            item = item.strip()
            if not item or item == "..":
                continue
            if ":" in item:
                f, alias = [x.strip() for x in item.split(":", 1)]
            else:
                f = alias = item
            if alias == name:
                _need(f in FIELDS, "binding %r comes from ServerConfig field %r which is not a size limit" % (name, f))
                return ("field", FIELDS[f])
    raise Missing("cannot resolve %r (no parameter, let or ServerConfig destructuring binds it)" % expr)


def _coq(r, var="c"):
    kind, v = r
    if kind == "field":
        return "%s %s" % (v, var)
    if kind == "const":
        return "%d" % v
    return v  # param


def _sink_limit(body, what, default):
    """MethodSink::new(tx) -> u32::MAX ; MethodSink::new_with_limit(tx, X) -> X"""
    a = _call_args(body, r"MethodSink::new_with_limit")
    b = _call_args(body, r"MethodSink::new")
    _need(len(a) + len(b) == 1, "%s: expected exactly one MethodSink constructor, found %d" % (what, len(a) + len(b)))
    if a:
        _need(len(a[0][1]) == 2, "%s: MethodSink::new_with_limit arity" % what)
        return _resolve(a[0][1][1], body)
    return default


def run():
    try:
        return _run()
    except Missing as e:
        return str(e)


def _run():
    R, fb = translate._read, _body
    server = R("server/src/server.rs")
    ws = R("server/src/transport/ws.rs")
    http = R("server/src/transport/http.rs")
    helpers = R("core/src/http_helpers.rs")
    rpc = R("server/src/middleware/rpc.rs")
    helpers_sink = R("core/src/server/helpers.rs")
    notes = []

    # ---- MethodSink::new really is "no limit"
    sb = fb(helpers_sink, r"pub fn new\(tx: mpsc::Sender<Box<RawValue>>\) -> Self \{")
    _need(sb is not None, "core/src/server/helpers.rs: MethodSink::new not found")
    m = re.search(r"MethodSink\s*\{\s*tx\s*,\s*max_response_size:\s*([^}]+?)\s*\}", sb)
    _need(m, "MethodSink::new: struct literal not found")
    sink_new_default = _resolve(m.group(1), sb)
    _need(sink_new_default[0] == "const", "MethodSink::new: limit is not a constant")

    # ---- ServerConfigBuilder
    cb = fb(server, r"impl ServerConfigBuilder \{")
    _need(cb is not None, "impl ServerConfigBuilder not found")
    setters = {}
    for fn in FIELDS:
        b = fb(cb, r"pub fn %s\(mut self, size: u32\) -> Self \{" % fn)
        _need(b is not None, "ServerConfigBuilder::%s not found" % fn)
        m = re.search(r"self\.(\w+)\s*=\s*size\s*;", b)
        _need(m and m.group(1) in FIELDS, "ServerConfigBuilder::%s: assignment `self.<limit> = size` not found" % fn)
        setters[fn] = FIELDS[m.group(1)]
    bb = fb(cb, r"pub fn build\(self\) -> ServerConfig \{")
    _need(bb is not None, "ServerConfigBuilder::build not found")
    built = {}
    for f in FIELDS:
        m = re.search(r"\b%s:\s*self\.(\w+)\s*," % f, bb)
        _need(m and m.group(1) in FIELDS, "ServerConfigBuilder::build: `%s: self.<limit>` not found" % f)
        built[FIELDS[f]] = FIELDS[m.group(1)]

    # ---- TowerServiceNoHttp::call  (Server and TowerService)
    impl = fb(server, r"for TowerServiceNoHttp<RpcMiddleware>\s*where")
    _need(impl is not None, "impl Service for TowerServiceNoHttp not found")
    call = fb(impl, r"fn call\(&mut self, request: HttpRequest<Body>\) -> Self::Future \{")
    _need(call is not None, "TowerServiceNoHttp::call not found")
    pc = fb(server, r"fn process_connection<")
    _need(pc is not None and re.search(r"TowerServiceNoHttp\s*\{", pc), "process_connection no longer builds a TowerServiceNoHttp")
    tb = fb(server, r"impl<RpcMiddleware, HttpMiddleware> TowerServiceBuilder<RpcMiddleware, HttpMiddleware> \{")
    _need(tb is not None and re.search(r"TowerServiceNoHttp\s*\{", tb), "TowerServiceBuilder::build no longer builds a TowerServiceNoHttp")
    sm = _call_args(call, r"\.set_max_message_size")
    _need(len(sm) == 1 and len(sm[0][1]) == 1, "TowerServiceNoHttp::call: expected one set_max_message_size(..)")
    tower_ws = _resolve(sm[0][1][0], call)
    cws_params = _params(http, r"pub async fn call_with_service")
    rb = fb(http, r"pub async fn call_with_service<S, B>\(")
    _need(rb is not None, "http::call_with_service not found")
    rbc = _call_args(rb, r"\bread_body")
    _need(len(rbc) == 1 and len(rbc[0][1]) == 3, "call_with_service: expected one read_body(headers, body, limit)")
    cws_read = _resolve(rbc[0][1][2], rb, cws_params)
    _need(cws_read[0] in ("param", "const"), "call_with_service: read_body limit is neither a parameter nor a constant")
    tl = _call_args(rb, r"response::too_large")
    _need(len(tl) == 1 and len(tl[0][1]) == 1, "call_with_service: response::too_large(..) not found")
    cws_reported = _resolve(tl[0][1][0], rb, cws_params)

    def cws_arg(body, callee, what):
        cs = _call_args(body, callee)
        _need(len(cs) == 1 and len(cs[0][1]) == len(cws_params), "%s: expected one call of call_with_service with %d arguments" % (what, len(cws_params)))
        if cws_read[0] == "const":
            return cws_read, cs[0][0]
        return _resolve(cs[0][1][cws_params.index(cws_read[1])], body), cs[0][0]

    tower_http, http_pos = cws_arg(call, r"http::call_with_service", "TowerServiceNoHttp::call")
    # RpcService::new: which constructor parameter is the response limit
    new_params = _params(rpc, r"pub\(crate\) fn new")
    nb = fb(rpc, r"pub\(crate\) fn new\(")
    _need(nb is not None, "RpcService::new not found")
    m = re.search(r"Self\s*\{([^}]*)\}", nb)
    _need(m, "RpcService::new: struct literal not found")
    svc_idx = None
    for item in _split_args(m.group(1)):
        if ":" in item:
            f, v = [x.strip() for x in item.split(":", 1)]
        else:
            f = v = item.strip()
        if f == "max_response_body_size":
            _need(v in new_params, "RpcService::new: field max_response_body_size not initialised from a parameter")
            svc_idx = new_params.index(v)
    _need(svc_idx is not None, "RpcService::new: field max_response_body_size not initialised")

    def svc_limits(body, what, n):
        cs = _call_args(body, r"RpcService::new")
        _need(len(cs) == n, "%s: expected %d RpcService::new(..), found %d" % (what, n, len(cs)))
        return [(pos, _resolve(a[svc_idx], body)) for pos, a in cs]

    ts = svc_limits(call, "TowerServiceNoHttp::call", 2)
    _need(ts[0][0] < sm[0][0] < ts[1][0] < http_pos, "TowerServiceNoHttp::call: WS / HTTP branch layout changed")
    tower_svc_ws, tower_svc_http = ts[0][1], ts[1][1]
    # the sink of the WS branch: text before set_max_message_size
    tower_sink = _sink_limit(call[:sm[0][0]], "TowerServiceNoHttp::call (ws)", sink_new_default)

    # ---- ws::connect
    conn = fb(ws, r"pub async fn connect<L, B>\(")
    _need(conn is not None, "ws::connect not found")
    sm2 = _call_args(conn, r"\.set_max_message_size")
    _need(len(sm2) == 1 and len(sm2[0][1]) == 1, "ws::connect: expected one set_max_message_size(..)")
    connect_ws = _resolve(sm2[0][1][0], conn)
    connect_svc = svc_limits(conn, "ws::connect", 1)[0][1]
    connect_sink = _sink_limit(conn, "ws::connect", sink_new_default)
    bg = fb(ws, r"pub\(crate\) async fn background_task<S>\(")
    _need(bg is not None, "ws::background_task not found")
    rj = _call_args(bg, r"reject_too_big_request")
    _need(len(rj) == 1 and len(rj[0][1]) == 1, "background_task: reject_too_big_request(..) not found")
    ws_reported = _resolve(rj[0][1][0], bg)
    m = re.search(r"SokettoError::MessageTooLarge\s*\{[^}]*\}\s*=>\s*\{", bg)
    _need(m, "background_task: MessageTooLarge arm not found")
    arm = fb(bg[m.start():], r"=>\s*\{")
    _need(arm is not None and re.search(r"if\s+sink\.send_error\(Id::Null,\s*reject_too_big_request\([^)]*\)\)\.await\.is_err\(\)\s*\{\s*break", arm)
          and re.search(r"\}\s*continue\s*;", arm), "background_task: too-large arm is no longer `send_error(..) else break; continue`")

    # ---- background_task: is the buffer handed to soketto's receive() allocated inside the unfold closure (per call)?
    ufs = list(re.finditer(r"stream::unfold\s*\(", bg))
    _need(len(ufs) == 1, "background_task: expected one stream::unfold(seed, closure), found %d" % len(ufs))
    uf_pos, i = ufs[0].start(), ufs[0].end()
    depth, j, comma = 1, i, None
    while j < len(bg) and depth:
        if bg[j] in "([{":
            depth += 1
        elif bg[j] in ")]}":
            depth -= 1
        elif bg[j] == "," and depth == 1 and comma is None:
            comma = j
        j += 1
    _need(depth == 0 and comma is not None, "background_task: stream::unfold(seed, closure): arguments not found")
    closure = bg[comma + 1:j - 1]
    m = re.match(r"\s*(?:move\s+)?\|(.*?)\|\s*async\s*(?:move\s*)?\{", closure, re.S)
    _need(m, "background_task: the unfold closure is not `|state| async { .. }`")
    cl_params, cl_body = m.group(1), closure[m.end():]
    rc = list(re.finditer(r"\.receive(?:_data)?\s*\(\s*&mut\s+(\w+)\s*\)", bg))
    _need(len(rc) == 1, "background_task: expected exactly one `.receive(&mut <buffer>)`, found %d" % len(rc))
    rbuf = rc[0].group(1)
    rin = list(re.finditer(r"\.receive(?:_data)?\s*\(\s*&mut\s+%s\s*\)" % re.escape(rbuf), cl_body))
    _need(len(rin) == 1, "background_task: soketto's receive() is not called inside the unfold closure")
    before = cl_body[:rin[0].start()]
    lets = list(re.finditer(r"let\s+(?:mut\s+)?%s\s*(?::[^=;]+)?=\s*([^;]+);" % re.escape(rbuf), before))
    if lets:
        init = lets[-1].group(1).strip()
        _need(re.fullmatch(r"Vec(?:::<[^>]*>)?::new\(\)|Vec(?:::<[^>]*>)?::with_capacity\([^()]*\)|vec!\[\]", init),
              "background_task: receive buffer `%s` is initialised with %r inside the closure (not a new empty Vec)" % (rbuf, init))
        _need(not re.search(r"\b%s\b" % re.escape(rbuf), cl_params), "background_task: receive buffer `%s` is both closure state and a local" % rbuf)
        ws_buffer_fresh, ws_buffer_src = True, "let mut %s = %s; inside the unfold closure, per receive() call" % (rbuf, init)
    else:
        _need(re.search(r"\b%s\b" % re.escape(rbuf), cl_params) or re.search(r"let\s+(?:mut\s+)?%s\b" % re.escape(rbuf), bg[:uf_pos]),
              "background_task: cannot find where the receive buffer `%s` is bound" % rbuf)
        ws_buffer_fresh, ws_buffer_src = False, "`%s` is not allocated inside the unfold closure: it lives across receive() calls" % rbuf

    # ---- http::call_with_service_builder
    cwb = fb(http, r"pub async fn call_with_service_builder<L, B>\(")
    _need(cwb is not None, "http::call_with_service_builder not found")
    builder_http, _ = cws_arg(cwb, r"\bcall_with_service", "call_with_service_builder")
    builder_svc = svc_limits(cwb, "call_with_service_builder", 1)[0][1]

    # ---- read_body
    rbp = _params(helpers, r"pub async fn read_body")
    rbody = fb(helpers, r"pub async fn read_body<B>\(")
    _need(rbody is not None and len(rbp) == 3, "http_helpers::read_body(headers, body, max) not found")
    m = re.search(r"if\s+body_size\s*>\s*(\w+)\s*\{\s*return\s+Err\(HttpError::TooLarge\)", rbody)
    _need(m, "read_body: `if body_size > <limit> { return Err(TooLarge)` not found")
    rb_pre = _resolve(m.group(1), rbody, rbp)
    lm = _call_args(rbody, r"Limited::new")
    _need(len(lm) == 1 and len(lm[0][1]) == 2, "read_body: Limited::new(body, limit) not found")
    rb_lim = _resolve(lm[0][1][1], rbody, rbp)
    _need(rb_pre == ("param", rbp[2]) and rb_lim == ("param", rbp[2]) or rb_pre[0] == "const" or rb_lim[0] == "const",
          "read_body: the two size checks do not use the limit parameter")

    # ---- RpcService::call / batch
    cl = fb(rpc, r"fn call<'a>\(&self, req: Request<'a>\)")
    _need(cl is not None, "RpcService::call not found")
    m = re.search(r"let\s+max_response_body_size\s*=\s*self\.max_response_body_size\s*;", cl)
    _need(m, "RpcService::call: `let max_response_body_size = self.max_response_body_size;` not found")
    arms = list(re.finditer(r"MethodCallback::(\w+)\(callback\)\s*=>\s*\{", cl))
    kinds = [a.group(1) for a in arms]
    _need(sorted(kinds) == ["Async", "Subscription", "Sync", "Unsubscription"], "RpcService::call: callback arms are %s" % kinds)
    cb_limit = {}
    for k, a in zip(kinds, arms):
        body = fb(cl[a.start():], r"=>\s*\{")
        cs = _call_args(body, r"\(callback\)") + _call_args(body, r"(?<![\w)])callback")
        _need(len(cs) == 1, "RpcService::call: arm %s: expected exactly one callback invocation" % k)
        args = cs[0][1]
        if "max_response_body_size" in args:
            cb_limit[k] = "svc"
        elif "sink" in args:
            cb_limit[k] = "sink"
        else:
            raise Missing("RpcService::call: arm %s passes neither max_response_body_size nor the sink" % k)
    bt = fb(rpc, r"fn batch<'a>\(&self, batch: Batch<'a>\)")
    _need(bt is not None, "RpcService::batch not found")
    bl = _call_args(bt, r"BatchResponseBuilder::new_with_limit")
    _need(len(bl) == 1 and bl[0][1] == ["self.max_response_body_size"], "RpcService::batch: BatchResponseBuilder::new_with_limit(self.max_response_body_size) not found")

    # ---------------------------------------------------------------- emit
    o = []
    w = o.append
    w("(* GENERATED by tools/translators/limits_wiring.py from /repo/server/src/{server.rs,transport/ws.rs,transport/http.rs,")
    w("   middleware/rpc.rs} and /repo/core/src/{http_helpers.rs,server/helpers.rs} -- do not edit.")
    w("   Each definition body is the translation of the Rust expression quoted next to it. *)")
    w("From Coq Require Import NArith.")
    w("Local Open Scope N_scope.")
    w("")
    w("Record cfg := { max_request : N; max_response : N }.   (* ServerConfig::{max_request_body_size, max_response_body_size} : u32 *)")
    w("Inductive ep := EpServer | EpTower | EpWsConnect | EpHttpCallBuilder | EpHttpCall.")
    w("Inductive cbkind := %s." % " | ".join("Cb" + k for k in kinds))
    w("")
    w("(* ServerConfigBuilder: setters and build() *)")
    w("Record bstate := { b_max_request : N; b_max_response : N }.")
    for fn, short in (("max_request_body_size", "request"), ("max_response_body_size", "response")):
        tgt = setters[fn]
        w("Definition builder_set_%s (b : bstate) (size : N) : bstate :=   (* fn %s: self.%s = size *)" % (short, fn, [k for k, v in FIELDS.items() if v == tgt][0]))
        w("  {| b_max_request := %s; b_max_response := %s |}." % ("size" if tgt == "max_request" else "b_max_request b", "size" if tgt == "max_response" else "b_max_response b"))
    w("Definition builder_build (b : bstate) : cfg :=")
    w("  {| max_request := b_%s b; max_response := b_%s b |}." % (built["max_request"], built["max_response"]))
    w("")
    w("(* server.rs TowerServiceNoHttp::call -- shared by Server::start (process_connection) and TowerService *)")
    w("Definition tower_ws_msg_limit (c : cfg) : N := %s.   (* set_max_message_size(%s) *)" % (_coq(tower_ws), sm[0][1][0]))
    w("Definition tower_http_body_limit (c : cfg) : N := %s.   (* argument `%s` of http::call_with_service *)" % (_coq(tower_http), cws_read[1] if cws_read[0] == "param" else "-"))
    w("Definition tower_ws_svc_limit (c : cfg) : N := %s.   (* RpcService::new, WS branch *)" % _coq(tower_svc_ws))
    w("Definition tower_http_svc_limit (c : cfg) : N := %s.   (* RpcService::new, HTTP branch *)" % _coq(tower_svc_http))
    w("Definition tower_sink_limit (c : cfg) : N := %s.   (* MethodSink constructor, WS branch *)" % _coq(tower_sink))
    w("(* transport/ws.rs connect *)")
    w("Definition connect_ws_msg_limit (c : cfg) : N := %s.   (* set_max_message_size(%s) *)" % (_coq(connect_ws), sm2[0][1][0]))
    w("Definition connect_svc_limit (c : cfg) : N := %s." % _coq(connect_svc))
    w("Definition connect_sink_limit (c : cfg) : N := %s." % _coq(connect_sink))
    w("(* transport/ws.rs background_task: limit quoted in the -32007 error *)")
    w("Definition ws_reported_limit (c : cfg) : N := %s.   (* reject_too_big_request(%s) *)" % (_coq(ws_reported), rj[0][1][0]))
    w("(* transport/ws.rs background_task: the Vec handed to soketto's receive() -- a new one per call? *)")
    w("Definition ws_recv_buffer_fresh : bool := %s.   (* %s *)" % ("true" if ws_buffer_fresh else "false", ws_buffer_src))
    w("(* transport/http.rs *)")
    pname = cws_read[1] if cws_read[0] == "param" else "unused"
    w("Definition call_with_service_read_limit (%s : N) : N := %s.   (* read_body(.., .., %s) *)" % (pname, _coq(cws_read), rbc[0][1][2]))
    w("Definition call_with_service_reported_limit (%s : N) : N := %s.   (* response::too_large(%s) *)" % (pname, _coq(cws_reported), tl[0][1][0]))
    w("Definition builder_http_body_limit (c : cfg) : N := %s.   (* call_with_service_builder -> call_with_service *)" % _coq(builder_http))
    w("Definition builder_svc_limit (c : cfg) : N := %s." % _coq(builder_svc))
    w("(* core/src/http_helpers.rs read_body(headers, body, %s) *)" % rbp[2])
    w("Definition read_body_precheck_limit (%s : N) : N := %s.   (* if body_size > . *)" % (rbp[2], _coq(rb_pre)))
    w("Definition read_body_stream_limit (%s : N) : N := %s.   (* Limited::new(body, .) *)" % (rbp[2], _coq(rb_lim)))
    w("")
    w("(* limit handed to soketto / to read_body per entry point (None: the entry point has no such transport) *)")
    w("Definition ws_limit_of (e : ep) (c : cfg) : option N :=")
    w("  match e with")
    w("  | EpServer | EpTower => Some (tower_ws_msg_limit c)")
    w("  | EpWsConnect => Some (connect_ws_msg_limit c)")
    w("  | EpHttpCallBuilder | EpHttpCall => None")
    w("  end.")
    w("Definition http_limit_of (e : ep) (c : cfg) : option N :=")
    w("  match e with")
    w("  | EpServer | EpTower => Some (call_with_service_read_limit (tower_http_body_limit c))")
    w("  | EpHttpCallBuilder => Some (call_with_service_read_limit (builder_http_body_limit c))")
    w("  | EpHttpCall => Some (call_with_service_read_limit (max_request c))   (* the caller passes its own limit *)")
    w("  | EpWsConnect => None")
    w("  end.")
    w("Definition http_reported_of (e : ep) (c : cfg) : option N :=")
    w("  match e with")
    w("  | EpServer | EpTower => Some (call_with_service_reported_limit (tower_http_body_limit c))")
    w("  | EpHttpCallBuilder => Some (call_with_service_reported_limit (builder_http_body_limit c))")
    w("  | EpHttpCall => Some (call_with_service_reported_limit (max_request c))")
    w("  | EpWsConnect => None")
    w("  end.")
    w("")
    w("(* response limits: RpcService (calls, batches) and connection sink (subscribe responses), per entry point *)")
    w("Definition ws_svc_limit_of (e : ep) (c : cfg) : option N :=")
    w("  match e with EpServer | EpTower => Some (tower_ws_svc_limit c) | EpWsConnect => Some (connect_svc_limit c) | _ => None end.")
    w("Definition http_svc_limit_of (e : ep) (c : cfg) : option N :=")
    w("  match e with EpServer | EpTower => Some (tower_http_svc_limit c) | EpHttpCallBuilder => Some (builder_svc_limit c) | _ => None end.")
    w("Definition sink_limit_of (e : ep) (c : cfg) : option N :=")
    w("  match e with EpServer | EpTower => Some (tower_sink_limit c) | EpWsConnect => Some (connect_sink_limit c) | _ => None end.")
    w("(* middleware/rpc.rs RpcService::call: the limit each callback kind builds its response with *)")
    w("Definition callback_limit (k : cbkind) (svc sink : N) : N :=")
    w("  match k with")
    for k in kinds:
        w("  | Cb%s => %s" % (k, cb_limit[k]))
    w("  end.")
    w("Definition batch_limit (svc : N) : N := svc.   (* BatchResponseBuilder::new_with_limit(self.max_response_body_size) *)")
    w("Definition sink_new_default : N := %d.   (* MethodSink::new *)" % sink_new_default[1])
    vlib.write_if_changed(os.path.join(translate.GEN, "LimitsWiringGen.v"), "\n".join(o) + "\n")
    return None
