"""harness/src/bin/macroapi.rs (the `#[rpc]` traits between // FAMILY-BEGIN/END and the derive types between
// TYPES-BEGIN/END)  ->  coq/Gen/MacroApiGen.v  (the API descriptions the C17 model runs on), and `family()` for the
Python generator/oracle of tools/props/c17.py.

This reads the SAME trait text the proc-macro reads (attributes, names, aliases, param_kind, blocking/async, argument
renames, `Option<..>` parameters, return / item types), with a small tokenizer and recursive-descent parser for the
plain style used in that file.  Anything it does not understand is an error string (a broken correspondence), never a
guess.

Parameter names.  An identifier token is kept as written, raw identifiers included (`r#type`): that is what
`syn::Ident::to_string()` yields and what `RpcFnArg::name` hands to BOTH renderers when there is no
`#[argument(rename = "..")]`.  The by-name KEYS are not assumed, they are derived with rules read from the proc-macro
sources on every run (`key_rules()`):
  proc-macros/src/rpc_macro.rs      RpcFnArg::name                  rename, else the identifier's text (with or without `r#`)
  proc-macros/src/render_client.rs  encode_params, ParamKind::Map   the expression inserted as the member key
  proc-macros/src/render_server.rs  render_params_decoding          `#[serde(rename = ..)]` and every `alias = "{}"` of a field
Each of these is a small string expression over `name` (method chains of str/String/heck functions, see `_Expr`); it is
turned into a list of operations, applied here to every parameter of the family, and written to MacroApiGen.v as
`family_keys` (client key, server keys per parameter).  Props/C17.v (C17_by_name_keys_agree) then needs: the client key is
one of the server's keys, they are the keys the model uses, and no two parameters of a method share one.  A change on one
side only (e.g. the client stripping `r#`) therefore changes the generated constant and the theorem no longer compiles; an
expression outside the understood fragment is an error string.  heck's snake_case / lowerCamelCase are ported below
(`snake`, `camel`; the same port serves the Python reference of tools/props/c17.py); what the real heck does with
`r#type`, `_x`, `x_`, `x1y` is judged by the differential run over the compiled family."""
import os, re
import vlib

SRC = os.path.join(vlib.HARNESS, "src", "bin", "macroapi.rs")
OUT = os.path.join(vlib.COQ, "Gen", "MacroApiGen.v")

INTS = {"u8": ("u", 2**8 - 1), "u16": ("u", 2**16 - 1), "u32": ("u", 2**32 - 1), "u64": ("u", 2**64 - 1),
        "i8": ("i", 2**7, 2**7 - 1), "i16": ("i", 2**15, 2**15 - 1), "i32": ("i", 2**31, 2**31 - 1),
        "i64": ("i", 2**63, 2**63 - 1)}

TOK = re.compile(r"""\s*(?:(//[^\n]*)|("(?:[^"\\]|\\.)*")|(r\#[A-Za-z_][A-Za-z0-9_]*|[A-Za-z_][A-Za-z0-9_]*)|(->|=>|::|[#\[\](){}<>,:;=&.!]))""")


class ParseError(Exception):
    pass


def tokenize(text):
    toks, pos = [], 0
    while True:
        m = TOK.match(text, pos)
        if not m:
            if text[pos:].strip() == "":
                return toks
            raise ParseError("cannot tokenize at %r" % text[pos:pos + 40])
        pos = m.end()
        if m.group(1) is not None:
            continue
        if m.group(2) is not None:
            s = m.group(2)[1:-1]
            if "\\" in s:
                raise ParseError("escape in string literal %r not supported" % s)
            toks.append(("str", s))
        elif m.group(3) is not None:
            toks.append(("id", m.group(3)))
        else:
            toks.append(("p", m.group(4)))


class P:
    def __init__(self, toks):
        self.t, self.i = toks, 0

    def peek(self, k=0):
        return self.t[self.i + k] if self.i + k < len(self.t) else ("eof", "")

    def next(self):
        x = self.peek()
        self.i += 1
        return x

    def eat(self, kind, val=None):
        x = self.next()
        if x[0] != kind or (val is not None and x[1] != val):
            raise ParseError("expected %s %r, got %r (token %d)" % (kind, val, x, self.i))
        return x[1]

    def at(self, kind, val=None):
        x = self.peek()
        return x[0] == kind and (val is None or x[1] == val)

    # ---- types
    def ty(self):
        if self.at("p", "("):
            self.next()
            ts = []
            while not self.at("p", ")"):
                ts.append(self.ty())
                if self.at("p", ","):
                    self.next()
            self.eat("p", ")")
            return ("unit",) if not ts else ("tuple", ts)
        path = [self.eat("id")]
        while self.at("p", "::"):
            self.next()
            path.append(self.eat("id"))
        args = []
        if self.at("p", "<"):
            self.next()
            while not self.at("p", ">"):
                args.append(self.ty())
                if self.at("p", ","):
                    self.next()
            self.eat("p", ">")
        leaf = path[-1]
        if leaf in INTS and not args:
            return INTS[leaf]
        if leaf == "bool" and not args:
            return ("bool",)
        if leaf == "String" and not args:
            return ("str",)
        if leaf == "Value" and not args:
            return ("any",)
        if leaf == "Option" and len(args) == 1:
            return ("opt", args[0])
        if leaf == "Vec" and len(args) == 1:
            return ("vec", args[0])
        if leaf == "Box" and len(args) == 1:
            return args[0]
        if leaf == "BTreeMap" and len(args) == 2 and args[0] == ("str",):
            return ("map", args[1])
        if not args and len(path) == 1:
            return ("named", leaf)
        raise ParseError("type %s<%s> not supported" % ("::".join(path), args))

    # ---- attributes:  #[name(key [= value], ...)]  ->  (name, {key: value})
    def attr(self):
        self.eat("p", "#")
        self.eat("p", "[")
        name = self.eat("id")
        kv = {}
        if self.at("p", "("):
            self.next()
            while not self.at("p", ")"):
                k = self.eat("id")
                v = True
                if self.at("p", "="):
                    self.next()
                    if k == "item":
                        v = self.ty()
                    elif self.at("p", "["):
                        self.next()
                        v = []
                        while not self.at("p", "]"):
                            v.append(self.eat("str"))
                            if self.at("p", ","):
                                self.next()
                        self.eat("p", "]")
                    elif self.at("str"):
                        v = self.eat("str")
                        if self.at("p", "=>"):
                            self.next()
                            v = (v, self.eat("str"))
                    else:
                        v = ("ident", self.eat("id"))
                if k in kv:
                    raise ParseError("attribute key %s twice" % k)
                kv[k] = v
                if self.at("p", ","):
                    self.next()
            self.eat("p", ")")
        self.eat("p", "]")
        return name, kv


def known(kv, allowed, where):
    for k in kv:
        if k not in allowed:
            raise ParseError("%s: attribute key %r not understood" % (where, k))


def parse_params(p):
    self_seen = False
    params = []
    p.eat("p", "(")
    p.eat("p", "&")
    p.eat("id", "self")
    self_seen = True
    while p.at("p", ","):
        p.next()
        if p.at("p", ")"):
            break
        rename = None
        if p.at("p", "#"):
            an, akv = p.attr()
            if an != "argument":
                raise ParseError("parameter attribute %s not understood" % an)
            known(akv, {"rename"}, "argument")
            rename = akv.get("rename")
        # the identifier as written: `r#type` stays `r#type` (the text syn::Ident::to_string() gives)
        ident = p.eat("id")
        if rename is not None and not isinstance(rename, str):
            raise ParseError("argument(rename = ..) of %s is not a string literal" % ident)
        p.eat("p", ":")
        t = p.ty()
        # helpers::is_option is syntactic: the last path segment is `Option`
        opt = t[0] == "opt"
        params.append({"ident": ident, "rename": rename, "opt": opt, "ty": t[1] if opt else t})
    p.eat("p", ")")
    assert self_seen
    return params


def param_kind(kv):
    v = kv.get("param_kind", ("ident", "array"))
    if v not in (("ident", "array"), ("ident", "map")):
        raise ParseError("param_kind %r" % (v,))
    return v[1]


def parse_family(text):
    p = P(tokenize(text))
    apis = []
    while not p.at("eof"):
        an, akv = p.attr()
        if an != "rpc":
            raise ParseError("expected #[rpc(..)], got #[%s]" % an)
        known(akv, {"client", "server", "namespace", "namespace_separator"}, "rpc")
        if not (akv.get("client") and akv.get("server")):
            raise ParseError("every trait of the family must be #[rpc(client, server, ..)]")
        p.eat("id", "pub")
        p.eat("id", "trait")
        trait = p.eat("id")
        p.eat("p", "{")
        methods, subs = [], []
        while not p.at("p", "}"):
            mn, mkv = p.attr()
            is_async = False
            if p.at("id", "async"):
                p.next()
                is_async = True
            p.eat("id", "fn")
            fn = p.eat("id")
            params = parse_params(p)
            ret = None
            if p.at("p", "->"):
                p.next()
                ret = p.ty()
            p.eat("p", ";")
            where = "%s::%s" % (trait, fn)
            if mn == "method":
                known(mkv, {"name", "aliases", "param_kind", "blocking"}, where)
                blocking = bool(mkv.get("blocking"))
                if blocking and is_async:
                    raise ParseError(where + ": blocking and async")
                methods.append({"fn": fn, "name": mkv["name"], "aliases": mkv.get("aliases", []), "params": params,
                                "pkind": param_kind(mkv), "kind": "async" if is_async else "blocking" if blocking else "sync",
                                "ret": ret})
            elif mn == "subscription":
                known(mkv, {"name", "unsubscribe", "item", "aliases", "unsubscribe_aliases", "param_kind"}, where)
                name = mkv["name"]
                notif = None
                if isinstance(name, tuple):
                    name, notif = name
                subs.append({"fn": fn, "name": name, "notif": notif, "unsub": mkv.get("unsubscribe"),
                             "aliases": mkv.get("aliases", []), "unsub_aliases": mkv.get("unsubscribe_aliases", []),
                             "params": params, "pkind": param_kind(mkv), "async": is_async, "item": mkv["item"]})
            else:
                raise ParseError(where + ": attribute #[%s] not understood" % mn)
        p.eat("p", "}")
        apis.append({"trait": trait, "namespace": akv.get("namespace"), "separator": akv.get("namespace_separator"),
                     "methods": methods, "subs": subs})
    return apis


def parse_types(text):
    p = P(tokenize(text))
    types = {}
    order = []
    while not p.at("eof"):
        while p.at("p", "#"):
            skip_attr(p)
        p.eat("id", "pub")
        kind = p.eat("id")
        name = p.eat("id")
        p.eat("p", "{")
        if kind == "struct":
            fields = []
            while not p.at("p", "}"):
                p.eat("id", "pub")
                f = p.eat("id")
                p.eat("p", ":")
                fields.append((f, p.ty()))
                if p.at("p", ","):
                    p.next()
            types[name] = ("struct", fields)
        elif kind == "enum":
            units, tagged = [], []
            while not p.at("p", "}"):
                v = p.eat("id")
                if p.at("p", "("):
                    p.next()
                    ts = []
                    while not p.at("p", ")"):
                        ts.append(p.ty())
                        if p.at("p", ","):
                            p.next()
                    p.eat("p", ")")
                    tagged.append((v, ts[0] if len(ts) == 1 else ("tuple", ts)))
                elif p.at("p", "{"):
                    p.next()
                    fs = []
                    while not p.at("p", "}"):
                        f = p.eat("id")
                        p.eat("p", ":")
                        fs.append((f, p.ty()))
                        if p.at("p", ","):
                            p.next()
                    p.eat("p", "}")
                    tagged.append((v, ("struct", fs)))
                else:
                    units.append(v)
                if p.at("p", ","):
                    p.next()
            types[name] = ("enum", units, tagged)
        else:
            raise ParseError("item kind %r" % kind)
        p.eat("p", "}")
        order.append(name)
    return types, order


def skip_attr(p):
    p.eat("p", "#")
    p.eat("p", "[")
    depth = 1
    while depth:
        k, v = p.next()
        if k == "eof":
            raise ParseError("unterminated attribute")
        if (k, v) == ("p", "["):
            depth += 1
        elif (k, v) == ("p", "]"):
            depth -= 1


def section(src, name):
    m = re.search(r"// %s-BEGIN\n(.*?)// %s-END" % (name, name), src, re.S)
    if not m:
        raise ParseError("markers // %s-BEGIN / // %s-END not found" % (name, name))
    return m.group(1)


_CACHE = {}


def load():
    """-> (types, order, apis); raises ParseError"""
    src = open(SRC).read()
    key = hash(src)
    if key in _CACHE:
        return _CACHE[key]
    types, order = parse_types(section(src, "TYPES"))
    fam = section(src, "FAMILY")
    # `RpcResult<T>` / `SubscriptionResult`: unwrap before the generic type parser sees them
    fam = re.sub(r"->\s*SubscriptionResult\s*;", ";", fam)
    fam = re.sub(r"->\s*RpcResult<(.*)>\s*;", r"-> \1;", fam)
    apis = parse_family(fam)

    def check(t, where):
        if t[0] == "named":
            if t[1] not in types:
                raise ParseError("%s: unknown type %s" % (where, t[1]))
        elif t[0] in ("opt", "vec", "map"):
            check(t[1], where)
        elif t[0] == "tuple":
            for x in t[1]:
                check(x, where)
        elif t[0] == "struct":
            for _, x in t[1]:
                check(x, where)

    for a in apis:
        for m in a["methods"]:
            for q in m["params"]:
                check(q["ty"], a["trait"] + "::" + m["fn"])
            if m["ret"] is not None:
                check(m["ret"], a["trait"] + "::" + m["fn"])
        for s in a["subs"]:
            for q in s["params"]:
                check(q["ty"], a["trait"] + "::" + s["fn"])
            check(s["item"], a["trait"] + "::" + s["fn"])
            if s["unsub"] is None and not s["name"].startswith("subscribe"):
                raise ParseError("%s::%s: no unsubscribe name can be derived" % (a["trait"], s["fn"]))
    _CACHE[key] = (types, order, apis)
    return _CACHE[key]


def family():
    return load()


# ---------------------------------------------------------------- heck 0.5 `transform`, ported from the Rust source
# (ASCII case classes; other chars: str.isalnum / caseless).  Also used by the Python reference of tools/props/c17.py.

def heck_words(s):
    words = []
    piece = ""
    pieces = []
    for ch in s:
        if ch.isalnum():
            piece += ch
        else:
            pieces.append(piece)
            piece = ""
    pieces.append(piece)
    low = lambda c: "a" <= c <= "z"
    up = lambda c: "A" <= c <= "Z"
    for w in pieces:
        init, mode = 0, "b"
        i = 0
        while i < len(w):
            c = w[i]
            if i + 1 < len(w):
                nxt = w[i + 1]
                next_mode = "l" if low(c) else "u" if up(c) else mode
                if next_mode == "l" and up(nxt):
                    words.append(w[init:i + 1])
                    init, mode = i + 1, "b"
                elif mode == "u" and up(c) and low(nxt):
                    words.append(w[init:i])
                    init, mode = i, "b"
                else:
                    mode = next_mode
            else:
                words.append(w[init:])
            i += 1
    return words


def snake(s):
    return "_".join(w.lower() for w in heck_words(s))


def camel(s):
    ws = heck_words(s)
    return "".join(w.lower() if i == 0 else w[:1].upper() + w[1:].lower() for i, w in enumerate(ws))


# ---------------------------------------------------------------- the macro's by-name key rules, read from /repo/proc-macros

RTOK = re.compile(r"""\s*(?:(r\#"(?:[^"]|"(?!\#))*"\#|"(?:[^"\\]|\\.)*")|('(?:[^'\\]|\\.)')|([A-Za-z_][A-Za-z0-9_]*)|(::|\|\||=>|->|[.()&,|!\#\[\]=;{}:<>*+\-?]))""")


def _rtokens(text):
    toks, pos = [], 0
    text = re.sub(r"//[^\n]*", "", text)
    while True:
        if text[pos:].strip() == "":
            return toks
        m = RTOK.match(text, pos)
        if not m:
            raise ParseError("key rule: cannot tokenize %r" % text[pos:pos + 50].strip())
        pos = m.end()
        if m.group(1) is not None:
            lit = m.group(1)
            if lit.startswith("r#"):
                toks.append(("str", lit[3:-2]))
            else:
                body = lit[1:-1]
                if "\\" in body:
                    raise ParseError("key rule: escape in literal %s" % lit)
                toks.append(("str", body))
        elif m.group(2) is not None:
            body = m.group(2)[1:-1]
            if "\\" in body:
                raise ParseError("key rule: escape in literal %s" % m.group(2))
            toks.append(("str", body))
        elif m.group(3) is not None:
            toks.append(("id", m.group(3)))
        else:
            toks.append(("p", m.group(4)))


IDENTITY = {"as_str", "to_string", "clone", "to_owned", "as_ref", "into", "borrow"}
NULLARY = {"to_snake_case": "snake", "to_lower_camel_case": "camel", "to_lowercase": "lower", "to_ascii_lowercase": "lower",
           "to_uppercase": "upper", "to_ascii_uppercase": "upper", "unraw": "unraw"}
UNARY = {"trim_start_matches": "ltrim", "trim_end_matches": "rtrim", "trim_matches": "trim"}
HECK_PATHS = {("heck", "ToSnakeCase", "to_snake_case"): "snake", ("heck", "ToLowerCamelCase", "to_lower_camel_case"): "camel"}


class _Expr:
    """string expressions of the renderers -> tuple of operations on the parameter's name.
         E ::= & E | heck::Trait::fn(E) | String::from(E) | A (. m(args))*        A ::= <closure argument>.name() | <let-bound variable>
       m: identity conversions; to_snake_case / to_lower_camel_case / to_*case / unraw;
          strip_prefix("l").unwrap_or(E') / strip_suffix("l").unwrap_or(E') with E' the receiver again;
          trim_start_matches / trim_end_matches / trim_matches("l"); replace("a", "b")"""

    def __init__(self, toks, env, argvars, where):
        self.p, self.env, self.argvars, self.where = P(toks), env, argvars, where

    def fail(self, what):
        raise ParseError("%s: %s (token %d of %r)" % (self.where, what, self.p.i, " ".join(t[1] for t in self.p.t)))

    def expr(self):
        p = self.p
        while p.at("p", "&"):
            p.next()
        first = p.eat("id")
        if p.at("p", "::"):
            path = [first]
            while p.at("p", "::"):
                p.next()
                path.append(p.eat("id"))
            p.eat("p", "(")
            inner = self.expr()
            p.eat("p", ")")
            if tuple(path) in HECK_PATHS:
                ops = inner + ((HECK_PATHS[tuple(path)],),)
            elif tuple(path) == ("String", "from"):
                ops = inner
            else:
                self.fail("function %s not understood" % "::".join(path))
        elif first in self.argvars:
            p.eat("p", ".")
            if p.eat("id") != "name":
                self.fail("only .name() of the argument is understood")
            p.eat("p", "(")
            p.eat("p", ")")
            ops = ()
        elif first in self.env:
            ops = self.env[first]
        else:
            self.fail("variable %s is not bound to a name expression" % first)
        while p.at("p", "."):
            p.next()
            m = p.eat("id")
            p.eat("p", "(")
            if m in IDENTITY:
                p.eat("p", ")")
            elif m in NULLARY:
                p.eat("p", ")")
                ops = ops + ((NULLARY[m],),)
            elif m in UNARY:
                lit = p.eat("str")
                p.eat("p", ")")
                ops = ops + ((UNARY[m], lit),)
            elif m == "replace":
                a = p.eat("str")
                p.eat("p", ",")
                b = p.eat("str")
                p.eat("p", ")")
                ops = ops + (("replace", a, b),)
            elif m in ("strip_prefix", "strip_suffix"):
                lit = p.eat("str")
                p.eat("p", ")")
                p.eat("p", ".")
                if p.eat("id") != "unwrap_or":
                    self.fail("%s(..) must be followed by .unwrap_or(<the same string>)" % m)
                p.eat("p", "(")
                other = self.expr()
                p.eat("p", ")")
                if other != ops:
                    self.fail("%s(..).unwrap_or(..) falls back to a different string" % m)
                ops = ops + (("lstrip1" if m == "strip_prefix" else "rstrip1", lit),)
            else:
                self.fail("method .%s() not understood" % m)
        return ops


def _eval(toks, env, argvars, where):
    e = _Expr(toks, env, argvars, where)
    ops = e.expr()
    if not e.p.at("eof"):
        e.fail("trailing tokens")
    return ops


def apply_ops(ops, s):
    for op in ops:
        k = op[0]
        if k == "snake":
            s = snake(s)
        elif k == "camel":
            s = camel(s)
        elif k == "lower":
            s = s.lower()
        elif k == "upper":
            s = s.upper()
        elif k == "unraw":
            s = s[2:] if s.startswith("r#") else s
        elif k == "lstrip1":
            s = s[len(op[1]):] if op[1] and s.startswith(op[1]) else s
        elif k == "rstrip1":
            s = s[:-len(op[1])] if op[1] and s.endswith(op[1]) else s
        elif k in ("ltrim", "trim"):
            while op[1] and s.startswith(op[1]):
                s = s[len(op[1]):]
            if k == "trim":
                while op[1] and s.endswith(op[1]):
                    s = s[:-len(op[1])]
        elif k == "rtrim":
            while op[1] and s.endswith(op[1]):
                s = s[:-len(op[1])]
        elif k == "replace":
            s = s.replace(op[1], op[2])
        else:
            raise ParseError("operation %r" % (op,))
    return s


def ops_text(ops):
    return "name" + "".join("." + op[0] + "(" + ", ".join(repr(x) for x in op[1:]) + ")" for op in ops)


def _split_stmts(toks):
    """token list -> statements at `;` (nesting respected)"""
    out, cur, depth = [], [], 0
    for t in toks:
        if t[0] == "p" and t[1] in "([{":
            depth += 1
        elif t[0] == "p" and t[1] in ")]}":
            depth -= 1
        if t == ("p", ";") and depth == 0:
            out.append(cur)
            cur = []
        else:
            cur.append(t)
    if cur:
        out.append(cur)
    return out


def _closure_body(src, anchor_re, what):
    import translate
    body = translate._fn_body(src, anchor_re)
    if body is None:
        raise ParseError("anchor not found: " + what)
    return body


def _repo(rel):
    return open(os.path.join(vlib.REPO, rel)).read()


_RULES = {}


def key_rules():
    """-> dict(ident=ops on the identifier text, client=ops on name, server=[ops on name, ..] (rename first, aliases in source
    order)); raises ParseError when a source no longer has the shape that is understood"""
    src_m, src_c, src_s = _repo("proc-macros/src/rpc_macro.rs"), _repo("proc-macros/src/render_client.rs"), _repo("proc-macros/src/render_server.rs")
    key = hash((src_m, src_c, src_s))
    if key in _RULES:
        return _RULES[key]
    # --- RpcFnArg::name: the rename string, else the identifier's text
    body = _closure_body(src_m, r"pub fn name\(&self\) -> String\s*\{", "rpc_macro.rs RpcFnArg::name")
    flat = re.sub(r"\s+", "", re.sub(r"//[^\n]*", "", body))
    m = re.fullmatch(r"self\.rename_to\.clone\(\)\.unwrap_or_else\(\|\|self\.arg_pat\.ident((?:\.unraw\(\))?)\.to_string\(\)\)", flat)
    if not m:
        raise ParseError("rpc_macro.rs RpcFnArg::name is not `rename_to, else arg_pat.ident[.unraw()].to_string()`: %r" % flat)
    ident_ops = (("unraw",),) if m.group(1) else ()
    # --- client: encode_params, ParamKind::Map: `params.iter().map(|arg| { ..; quote!(#name, #value) })`
    enc = _closure_body(src_c, r"fn encode_params\(", "render_client.rs encode_params")
    mp = _closure_body(enc, r"ParamKind::Map\s*=>\s*\{", "render_client.rs encode_params ParamKind::Map")
    cm = re.search(r"let params_insert = params\.iter\(\)\.map\(\|(\w+)\|\s*\{", mp)
    if not cm:
        raise ParseError("render_client.rs ParamKind::Map: `let params_insert = params.iter().map(|arg| {` not found")
    cbody = _closure_body(mp, r"let params_insert = params\.iter\(\)\.map\(\|\w+\|\s*\{", "params_insert closure")
    if len(re.findall(r"\.insert\(#params_insert\)", mp)) != 1:
        raise ParseError("render_client.rs ParamKind::Map: `#p.insert(#params_insert)` not found exactly once")
    client = _binding_rule(cbody, {cm.group(1)}, "render_client.rs ParamKind::Map key",
                           final=lambda st: _quote_pair(st))
    # --- server: render_params_decoding, the fields of ParamsObject
    dec = _closure_body(src_s, r"fn render_params_decoding\(", "render_server.rs render_params_decoding")
    sm = re.search(r"let fields = params\.iter\(\)\.zip\(generics\.clone\(\)\)\.map\(\|\((\w+), \w+\)\|\s*\{", dec)
    if not sm:
        raise ParseError("render_server.rs: `let fields = params.iter().zip(generics.clone()).map(|(fn_arg, ty)| {` not found")
    sbody = _closure_body(dec, r"let fields = params\.iter\(\)\.zip\(generics\.clone\(\)\)\.map\(\|\(\w+, \w+\)\|\s*\{", "fields closure")
    server = _server_rule(sbody, {sm.group(1)})
    _RULES[key] = {"ident": ident_ops, "client": client, "server": server}
    return _RULES[key]


def _quote_pair(st):
    """`quote!(#a, #b)` -> a"""
    flat = "".join(t[1] for t in st)
    m = re.fullmatch(r"quote!\(#(\w+),#(\w+)\)", flat)
    return m.group(1) if m else None


def _binding_rule(body, argvars, where, final):
    """statements `let v = <name expression>;` (others must not mention a bound name), then the final expression names the key"""
    env = {}
    stmts = _split_stmts(_rtokens(body))
    if not stmts:
        raise ParseError(where + ": empty closure")
    for st in stmts[:-1]:
        if len(st) >= 4 and st[0] == ("id", "let") and st[1][0] == "id" and st[2] == ("p", "="):
            var, rhs = st[1][1], st[3:]
            try:
                env[var] = _eval(rhs, env, argvars, where)
                continue
            except ParseError:
                # not a name expression (e.g. `let value = arg.arg_pat()`): fine as long as no name flows into it
                uses = [t[1] for t in rhs if t[0] == "id" and t[1] in env]
                if uses or any(rhs[i][1] in argvars and rhs[i + 2] == ("id", "name") for i in range(len(rhs) - 2) if rhs[i][0] == "id"):
                    raise
                env.pop(var, None)
                continue
        raise ParseError("%s: statement %r not understood" % (where, " ".join(t[1] for t in st)))
    var = final(stmts[-1])
    if var is None or var not in env:
        raise ParseError("%s: the closure does not end in the expected quote!(..) over a bound name: %r" % (where, " ".join(t[1] for t in stmts[-1])))
    return env[var]


def _server_rule(body, argvars):
    where = "render_server.rs ParamsObject field"
    env = {}
    rename, aliases = None, []
    toks = _rtokens(body)
    for st in _split_stmts(toks):
        flat = "".join(t[1] for t in st)
        if len(st) >= 4 and st[0] == ("id", "let") and st[1][0] == "id" and st[2] == ("p", "="):
            var, rhs = st[1][1], st[3:]
            m = re.fullmatch(r"quote!\(#\[serde\(rename=#(\w+)\)\]\)", "".join(t[1] for t in rhs))
            if m:
                if m.group(1) not in env or rename is not None:
                    raise ParseError(where + ": #[serde(rename = #..)] over an unbound name, or twice")
                rename = env[m.group(1)]
                continue
            try:
                env[var] = _eval(rhs, env, argvars, where)
            except ParseError:
                if [t for t in rhs if t[0] == "id" and t[1] in env and "alias" in flat and "format" in flat]:
                    raise
                env.pop(var, None)
            continue
        # alias_vals.push_str(&format!(r#"alias = "{}""#, <name expression>))
        if ("str", 'alias = "{}"') in st:
            i = st.index(("str", 'alias = "{}"'))
            pre = "".join(t[1] for t in st[:i])
            if not re.fullmatch(r"\w+\.push_str\(&format!\(", pre) or st[i + 1] != ("p", ",") or st[-2:] != [("p", ")"), ("p", ")")]:
                raise ParseError("%s: alias statement %r not understood" % (where, flat))
            aliases.append(_eval(st[i + 2:-2], env, argvars, where))
            continue
        if any(t[0] == "str" and "alias" in t[1] for t in st):
            raise ParseError("%s: alias statement %r not understood" % (where, flat))
    if rename is None:
        raise ParseError(where + ": #[serde(rename = #name)] not found")
    if not re.search(r"#serde_alias\s+#serde_rename\s+#arg_pat: #ty,", body) and not re.search(r"#serde_rename\s+#serde_alias\s+#arg_pat: #ty,", body):
        raise ParseError(where + ": the field is not emitted as `#serde_alias #serde_rename #arg_pat: #ty,`")
    return [rename] + aliases


def param_keys(q, rules=None):
    """-> (the member key the generated client writes, the keys the generated server accepts) for one parameter"""
    r = rules or key_rules()
    name = q["rename"] if q["rename"] is not None else apply_ops(r["ident"], q["ident"])
    return apply_ops(r["client"], name), [apply_ops(o, name) for o in r["server"]]


# ---------------------------------------------------------------- Coq output

def cstr(s):
    if any(ord(c) > 126 or ord(c) < 32 for c in s):
        raise ParseError("non-printable / non-ASCII name %r" % s)
    return 'b#"%s"' % s.replace('"', '""')


def copt(s):
    return "None" if s is None else "(Some %s)" % cstr(s)


def clist(xs):
    return "[" + "; ".join(xs) + "]"


def cty(t):
    k = t[0]
    if k == "u":
        return "(TyUInt %d)" % t[1]
    if k == "i":
        return "(TyInt %d %d)" % (t[1], t[2])
    if k == "bool":
        return "TyBool"
    if k == "str":
        return "TyStr"
    if k == "unit":
        return "TyUnit"
    if k == "any":
        return "TyAny"
    if k == "opt":
        return "(TyOption %s)" % cty(t[1])
    if k == "vec":
        return "(TyVec %s)" % cty(t[1])
    if k == "map":
        return "(TyMap %s)" % cty(t[1])
    if k == "tuple":
        return "(TyTuple %s)" % clist(cty(x) for x in t[1])
    if k == "struct":
        return "(TyStruct %s)" % clist("(%s, %s)" % (cstr(f), cty(x)) for f, x in t[1])
    if k == "named":
        return "ty_" + t[1]
    raise ParseError("type %r" % (t,))


def cparam(q, rules):
    # p_ident: the text RpcFnArg::name takes from the identifier (syn::Ident::to_string(): raw identifiers keep `r#`)
    return "Param %s %s %s %s" % (cstr(apply_ops(rules["ident"], q["ident"])), copt(q["rename"]), "true" if q["opt"] else "false", cty(q["ty"]))


def ckeys(q, rules):
    ck, sks = param_keys(q, rules)
    return "(%s, %s)" % (cstr(ck), clist(cstr(k) for k in sks))


def run():
    try:
        types, order, apis = load()
        rules = key_rules()
        out = ["(* GENERATED by tools/translators/macroapi.py from /verif/harness/src/bin/macroapi.rs (the #[rpc] family) -- do not edit *)",
               "From JV Require Import Base.Bytes Model.MacroApi.", "Local Open Scope N_scope.", ""]
        for n in order:
            d = types[n]
            if d[0] == "struct":
                body = cty(("struct", d[1]))
            else:
                body = "(TyEnum %s %s)" % (clist(cstr(u) for u in d[1]), clist("(%s, %s)" % (cstr(v), cty(t)) for v, t in d[2]))
            out.append("Definition ty_%s : jty := %s." % (n, body))
        out.append("")
        for a in apis:
            ms = []
            for m in a["methods"]:
                ms.append("Method %s %s %s %s %s %s" % (
                    cstr(m["name"]), clist(cstr(x) for x in m["aliases"]), clist(cparam(q, rules) for q in m["params"]),
                    "PMap" if m["pkind"] == "map" else "PArray", {"sync": "MSync", "async": "MAsync", "blocking": "MBlocking"}[m["kind"]],
                    "None" if m["ret"] is None else "(Some %s)" % cty(m["ret"])))
            ss = []
            for s in a["subs"]:
                ss.append("Subscription %s %s %s %s %s %s %s %s %s" % (
                    cstr(s["name"]), copt(s["notif"]), copt(s["unsub"]), clist(cstr(x) for x in s["aliases"]),
                    clist(cstr(x) for x in s["unsub_aliases"]), clist(cparam(q, rules) for q in s["params"]),
                    "PMap" if s["pkind"] == "map" else "PArray", "true" if s["async"] else "false", cty(s["item"])))
            out.append("Definition api_%s : japi :=\n  Api %s %s\n    %s\n    %s." % (
                a["trait"], copt(a["namespace"]), copt(a["separator"]),
                "[ " + ";\n      ".join(ms) + " ]" if ms else "[]", "[ " + ";\n      ".join(ss) + " ]" if ss else "[]"))
            out.append("")
        out.append("Definition family : list japi := %s." % clist("api_" + a["trait"] for a in apis))
        out.append("")
        out.append("(* By-name member keys as the macro derives them, per API, per method then subscription (declaration order), per")
        out.append("   parameter: (the key the generated client writes, the keys the generated server accepts: serde rename, aliases).")
        out.append("   Rules read from /repo/proc-macros/src on this run (tools/translators/macroapi.py key_rules):")
        out.append("     RpcFnArg::name            rename, else %s" % ops_text(rules["ident"]).replace("name", "ident.to_string()", 1))
        out.append("     client (ParamKind::Map)   %s" % ops_text(rules["client"]))
        out.append("     server (ParamsObject)     rename = %s; %s *)" % (ops_text(rules["server"][0]), "; ".join("alias = " + ops_text(o) for o in rules["server"][1:])))
        rows = []
        for a in apis:
            items = ["%s (* %s *)" % (clist(ckeys(q, rules) for q in it["params"]), it["fn"]) for it in a["methods"] + a["subs"]]
            body = "[ " + ";\n      ".join(items) + " ]" if items else "[]"
            rows.append("    (* %s *)\n    %s" % (a["trait"], body))
        out.append("Definition family_keys : list (list (list (bytes * list bytes))) :=\n  [\n%s\n  ]." % ";\n".join(rows))
        out.append("")
        vlib.write_if_changed(OUT, "\n".join(out))
        return None
    except ParseError as e:
        return "macroapi.rs: " + str(e)
    except OSError as e:
        return "macroapi.rs: " + str(e)
