"""harness/src/bin/macroapi.rs (the `#[rpc]` traits between // FAMILY-BEGIN/END and the derive types between
// TYPES-BEGIN/END)  ->  coq/Gen/MacroApiGen.v  (the API descriptions the C17 model runs on), and `family()` for the
Python generator/oracle of tools/props/c17.py.

This reads the SAME trait text the proc-macro reads (attributes, names, aliases, param_kind, blocking/async, argument
renames, `Option<..>` parameters, return / item types), with a small tokenizer and recursive-descent parser for the
plain style used in that file.  Anything it does not understand is an error string (a broken correspondence), never a
guess."""
import os, re
import vlib

SRC = os.path.join(vlib.HARNESS, "src", "bin", "macroapi.rs")
OUT = os.path.join(vlib.COQ, "Gen", "MacroApiGen.v")

INTS = {"u8": ("u", 2**8 - 1), "u16": ("u", 2**16 - 1), "u32": ("u", 2**32 - 1), "u64": ("u", 2**64 - 1),
        "i8": ("i", 2**7, 2**7 - 1), "i16": ("i", 2**15, 2**15 - 1), "i32": ("i", 2**31, 2**31 - 1),
        "i64": ("i", 2**63, 2**63 - 1)}

TOK = re.compile(r"""\s*(?:(//[^\n]*)|("(?:[^"\\]|\\.)*")|(r\#[A-Za-z_][A-Za-z0-9_]*|[A-Za-z_][A-Za-z0-9_]*)|(->|=>|::|[#\[\](){}<>,:;=&.!]))""")


class ParseError(Exception):
    pass


def tokenize(text):
    toks, pos = [], 0
    while True:
        m = TOK.match(text, pos)
        if not m:
            if text[pos:].strip() == "":
                return toks
            raise ParseError("cannot tokenize at %r" % text[pos:pos + 40])
        pos = m.end()
        if m.group(1) is not None:
            continue
        if m.group(2) is not None:
            s = m.group(2)[1:-1]
            if "\\" in s:
                raise ParseError("escape in string literal %r not supported" % s)
            toks.append(("str", s))
        elif m.group(3) is not None:
            toks.append(("id", m.group(3)))
        else:
            toks.append(("p", m.group(4)))


class P:
    def __init__(self, toks):
        self.t, self.i = toks, 0

    def peek(self, k=0):
        return self.t[self.i + k] if self.i + k < len(self.t) else ("eof", "")

    def next(self):
        x = self.peek()
        self.i += 1
        return x

    def eat(self, kind, val=None):
        x = self.next()
        if x[0] != kind or (val is not None and x[1] != val):
            raise ParseError("expected %s %r, got %r (token %d)" % (kind, val, x, self.i))
        return x[1]

    def at(self, kind, val=None):
        x = self.peek()
        return x[0] == kind and (val is None or x[1] == val)

    # ---- types
    def ty(self):
        if self.at("p", "("):
            self.next()
            ts = []
            while not self.at("p", ")"):
                ts.append(self.ty())
                if self.at("p", ","):
                    self.next()
            self.eat("p", ")")
            return ("unit",) if not ts else ("tuple", ts)
        path = [self.eat("id")]
        while self.at("p", "::"):
            self.next()
            path.append(self.eat("id"))
        args = []
        if self.at("p", "<"):
            self.next()
            while not self.at("p", ">"):
                args.append(self.ty())
                if self.at("p", ","):
                    self.next()
            self.eat("p", ">")
        leaf = path[-1]
        if leaf in INTS and not args:
            return INTS[leaf]
        if leaf == "bool" and not args:
            return ("bool",)
        if leaf == "String" and not args:
            return ("str",)
        if leaf == "Value" and not args:
            return ("any",)
        if leaf == "Option" and len(args) == 1:
            return ("opt", args[0])
        if leaf == "Vec" and len(args) == 1:
            return ("vec", args[0])
        if leaf == "Box" and len(args) == 1:
            return args[0]
        if leaf == "BTreeMap" and len(args) == 2 and args[0] == ("str",):
            return ("map", args[1])
        if not args and len(path) == 1:
            return ("named", leaf)
        raise ParseError("type %s<%s> not supported" % ("::".join(path), args))

    # ---- attributes:  #[name(key [= value], ...)]  ->  (name, {key: value})
    def attr(self):
        self.eat("p", "#")
        self.eat("p", "[")
        name = self.eat("id")
        kv = {}
        if self.at("p", "("):
            self.next()
            while not self.at("p", ")"):
                k = self.eat("id")
                v = True
                if self.at("p", "="):
                    self.next()
                    if k == "item":
                        v = self.ty()
                    elif self.at("p", "["):
                        self.next()
                        v = []
                        while not self.at("p", "]"):
                            v.append(self.eat("str"))
                            if self.at("p", ","):
                                self.next()
                        self.eat("p", "]")
                    elif self.at("str"):
                        v = self.eat("str")
                        if self.at("p", "=>"):
                            self.next()
                            v = (v, self.eat("str"))
                    else:
                        v = ("ident", self.eat("id"))
                if k in kv:
                    raise ParseError("attribute key %s twice" % k)
                kv[k] = v
                if self.at("p", ","):
                    self.next()
            self.eat("p", ")")
        self.eat("p", "]")
        return name, kv


def known(kv, allowed, where):
    for k in kv:
        if k not in allowed:
            raise ParseError("%s: attribute key %r not understood" % (where, k))


def parse_params(p):
    self_seen = False
    params = []
    p.eat("p", "(")
    p.eat("p", "&")
    p.eat("id", "self")
    self_seen = True
    while p.at("p", ","):
        p.next()
        if p.at("p", ")"):
            break
        rename = None
        if p.at("p", "#"):
            an, akv = p.attr()
            if an != "argument":
                raise ParseError("parameter attribute %s not understood" % an)
            known(akv, {"rename"}, "argument")
            rename = akv.get("rename")
        ident = p.eat("id")
        p.eat("p", ":")
        t = p.ty()
        # helpers::is_option is syntactic: the last path segment is `Option`
        opt = t[0] == "opt"
        params.append({"ident": ident, "rename": rename, "opt": opt, "ty": t[1] if opt else t})
    p.eat("p", ")")
    assert self_seen
    return params


def param_kind(kv):
    v = kv.get("param_kind", ("ident", "array"))
    if v not in (("ident", "array"), ("ident", "map")):
        raise ParseError("param_kind %r" % (v,))
    return v[1]


def parse_family(text):
    p = P(tokenize(text))
    apis = []
    while not p.at("eof"):
        an, akv = p.attr()
        if an != "rpc":
            raise ParseError("expected #[rpc(..)], got #[%s]" % an)
        known(akv, {"client", "server", "namespace", "namespace_separator"}, "rpc")
        if not (akv.get("client") and akv.get("server")):
            raise ParseError("every trait of the family must be #[rpc(client, server, ..)]")
        p.eat("id", "pub")
        p.eat("id", "trait")
        trait = p.eat("id")
        p.eat("p", "{")
        methods, subs = [], []
        while not p.at("p", "}"):
            mn, mkv = p.attr()
            is_async = False
            if p.at("id", "async"):
                p.next()
                is_async = True
            p.eat("id", "fn")
            fn = p.eat("id")
            params = parse_params(p)
            ret = None
            if p.at("p", "->"):
                p.next()
                ret = p.ty()
            p.eat("p", ";")
            where = "%s::%s" % (trait, fn)
            if mn == "method":
                known(mkv, {"name", "aliases", "param_kind", "blocking"}, where)
                blocking = bool(mkv.get("blocking"))
                if blocking and is_async:
                    raise ParseError(where + ": blocking and async")
                methods.append({"fn": fn, "name": mkv["name"], "aliases": mkv.get("aliases", []), "params": params,
                                "pkind": param_kind(mkv), "kind": "async" if is_async else "blocking" if blocking else "sync",
                                "ret": ret})
            elif mn == "subscription":
                known(mkv, {"name", "unsubscribe", "item", "aliases", "unsubscribe_aliases", "param_kind"}, where)
                name = mkv["name"]
                notif = None
                if isinstance(name, tuple):
                    name, notif = name
                subs.append({"fn": fn, "name": name, "notif": notif, "unsub": mkv.get("unsubscribe"),
                             "aliases": mkv.get("aliases", []), "unsub_aliases": mkv.get("unsubscribe_aliases", []),
                             "params": params, "pkind": param_kind(mkv), "async": is_async, "item": mkv["item"]})
            else:
                raise ParseError(where + ": attribute #[%s] not understood" % mn)
        p.eat("p", "}")
        apis.append({"trait": trait, "namespace": akv.get("namespace"), "separator": akv.get("namespace_separator"),
                     "methods": methods, "subs": subs})
    return apis


def parse_types(text):
    p = P(tokenize(text))
    types = {}
    order = []
    while not p.at("eof"):
        while p.at("p", "#"):
            skip_attr(p)
        p.eat("id", "pub")
        kind = p.eat("id")
        name = p.eat("id")
        p.eat("p", "{")
        if kind == "struct":
            fields = []
            while not p.at("p", "}"):
                p.eat("id", "pub")
                f = p.eat("id")
                p.eat("p", ":")
                fields.append((f, p.ty()))
                if p.at("p", ","):
                    p.next()
            types[name] = ("struct", fields)
        elif kind == "enum":
            units, tagged = [], []
            while not p.at("p", "}"):
                v = p.eat("id")
                if p.at("p", "("):
                    p.next()
                    ts = []
                    while not p.at("p", ")"):
                        ts.append(p.ty())
                        if p.at("p", ","):
                            p.next()
                    p.eat("p", ")")
                    tagged.append((v, ts[0] if len(ts) == 1 else ("tuple", ts)))
                elif p.at("p", "{"):
                    p.next()
                    fs = []
                    while not p.at("p", "}"):
                        f = p.eat("id")
                        p.eat("p", ":")
                        fs.append((f, p.ty()))
                        if p.at("p", ","):
                            p.next()
                    p.eat("p", "}")
                    tagged.append((v, ("struct", fs)))
                else:
                    units.append(v)
                if p.at("p", ","):
                    p.next()
            types[name] = ("enum", units, tagged)
        else:
            raise ParseError("item kind %r" % kind)
        p.eat("p", "}")
        order.append(name)
    return types, order


def skip_attr(p):
    p.eat("p", "#")
    p.eat("p", "[")
    depth = 1
    while depth:
        k, v = p.next()
        if k == "eof":
            raise ParseError("unterminated attribute")
        if (k, v) == ("p", "["):
            depth += 1
        elif (k, v) == ("p", "]"):
            depth -= 1


def section(src, name):
    m = re.search(r"// %s-BEGIN\n(.*?)// %s-END" % (name, name), src, re.S)
    if not m:
        raise ParseError("markers // %s-BEGIN / // %s-END not found" % (name, name))
    return m.group(1)


_CACHE = {}


def load():
    """-> (types, order, apis); raises ParseError"""
    src = open(SRC).read()
    key = hash(src)
    if key in _CACHE:
        return _CACHE[key]
    types, order = parse_types(section(src, "TYPES"))
    fam = section(src, "FAMILY")
    # `RpcResult<T>` / `SubscriptionResult`: unwrap before the generic type parser sees them
    fam = re.sub(r"->\s*SubscriptionResult\s*;", ";", fam)
    fam = re.sub(r"->\s*RpcResult<(.*)>\s*;", r"-> \1;", fam)
    apis = parse_family(fam)

    def check(t, where):
        if t[0] == "named":
            if t[1] not in types:
                raise ParseError("%s: unknown type %s" % (where, t[1]))
        elif t[0] in ("opt", "vec", "map"):
            check(t[1], where)
        elif t[0] == "tuple":
            for x in t[1]:
                check(x, where)
        elif t[0] == "struct":
            for _, x in t[1]:
                check(x, where)

    for a in apis:
        for m in a["methods"]:
            for q in m["params"]:
                check(q["ty"], a["trait"] + "::" + m["fn"])
            if m["ret"] is not None:
                check(m["ret"], a["trait"] + "::" + m["fn"])
        for s in a["subs"]:
            for q in s["params"]:
                check(q["ty"], a["trait"] + "::" + s["fn"])
            check(s["item"], a["trait"] + "::" + s["fn"])
            if s["unsub"] is None and not s["name"].startswith("subscribe"):
                raise ParseError("%s::%s: no unsubscribe name can be derived" % (a["trait"], s["fn"]))
    _CACHE[key] = (types, order, apis)
    return _CACHE[key]


def family():
    return load()


# ---------------------------------------------------------------- Coq output

def cstr(s):
    if any(ord(c) > 126 or ord(c) < 32 for c in s):
        raise ParseError("non-printable / non-ASCII name %r" % s)
    return 'b#"%s"' % s.replace('"', '""')


def copt(s):
    return "None" if s is None else "(Some %s)" % cstr(s)


def clist(xs):
    return "[" + "; ".join(xs) + "]"


def cty(t):
    k = t[0]
    if k == "u":
        return "(TyUInt %d)" % t[1]
    if k == "i":
        return "(TyInt %d %d)" % (t[1], t[2])
    if k == "bool":
        return "TyBool"
    if k == "str":
        return "TyStr"
    if k == "unit":
        return "TyUnit"
    if k == "any":
        return "TyAny"
    if k == "opt":
        return "(TyOption %s)" % cty(t[1])
    if k == "vec":
        return "(TyVec %s)" % cty(t[1])
    if k == "map":
        return "(TyMap %s)" % cty(t[1])
    if k == "tuple":
        return "(TyTuple %s)" % clist(cty(x) for x in t[1])
    if k == "struct":
        return "(TyStruct %s)" % clist("(%s, %s)" % (cstr(f), cty(x)) for f, x in t[1])
    if k == "named":
        return "ty_" + t[1]
    raise ParseError("type %r" % (t,))


def cparam(q):
    return "Param %s %s %s %s" % (cstr(q["ident"]), copt(q["rename"]), "true" if q["opt"] else "false", cty(q["ty"]))


def run():
    try:
        types, order, apis = load()
        out = ["(* GENERATED by tools/translators/macroapi.py from /verif/harness/src/bin/macroapi.rs (the #[rpc] family) -- do not edit *)",
               "From JV Require Import Base.Bytes Model.MacroApi.", "Local Open Scope N_scope.", ""]
        for n in order:
            d = types[n]
            if d[0] == "struct":
                body = cty(("struct", d[1]))
            else:
                body = "(TyEnum %s %s)" % (clist(cstr(u) for u in d[1]), clist("(%s, %s)" % (cstr(v), cty(t)) for v, t in d[2]))
            out.append("Definition ty_%s : jty := %s." % (n, body))
        out.append("")
        for a in apis:
            ms = []
            for m in a["methods"]:
                ms.append("Method %s %s %s %s %s %s" % (
                    cstr(m["name"]), clist(cstr(x) for x in m["aliases"]), clist(cparam(q) for q in m["params"]),
                    "PMap" if m["pkind"] == "map" else "PArray", {"sync": "MSync", "async": "MAsync", "blocking": "MBlocking"}[m["kind"]],
                    "None" if m["ret"] is None else "(Some %s)" % cty(m["ret"])))
            ss = []
            for s in a["subs"]:
                ss.append("Subscription %s %s %s %s %s %s %s %s %s" % (
                    cstr(s["name"]), copt(s["notif"]), copt(s["unsub"]), clist(cstr(x) for x in s["aliases"]),
                    clist(cstr(x) for x in s["unsub_aliases"]), clist(cparam(q) for q in s["params"]),
                    "PMap" if s["pkind"] == "map" else "PArray", "true" if s["async"] else "false", cty(s["item"])))
            out.append("Definition api_%s : japi :=\n  Api %s %s\n    %s\n    %s." % (
                a["trait"], copt(a["namespace"]), copt(a["separator"]),
                "[ " + ";\n      ".join(ms) + " ]" if ms else "[]", "[ " + ";\n      ".join(ss) + " ]" if ss else "[]"))
            out.append("")
        out.append("Definition family : list japi := %s." % clist("api_" + a["trait"] for a in apis))
        out.append("")
        vlib.write_if_changed(OUT, "\n".join(out))
        return None
    except ParseError as e:
        return "macroapi.rs: " + str(e)
    except OSError as e:
        return "macroapi.rs: " + str(e)
