"""harness/src/bin/macroapi.rs (the `#[rpc]` traits between // FAMILY-BEGIN/END and the derive types between
// TYPES-BEGIN/END)  ->  coq/Gen/MacroApiGen.v  (the API descriptions the C17 model runs on), and `family()` for the
Python generator/oracle of tools/props/c17.py.

This reads the SAME trait text the proc-macro reads (attributes, names, aliases, param_kind, blocking/async, argument
renames, `Option<..>` parameters, return / item types), with a small tokenizer and recursive-descent parser for the
plain style used in that file.  Anything it does not understand is an error string (a broken correspondence), never a
guess.

Parameter names.  An identifier token is kept as written, raw identifiers included (`r#type`): that is what
`syn::Ident::to_string()` yields and what `RpcFnArg::name` hands to BOTH renderers when there is no
`#[argument(rename = "..")]`.  The by-name KEYS are not assumed, they are derived with rules read from the proc-macro
sources on every run (`key_rules()`):
  proc-macros/src/rpc_macro.rs      RpcFnArg::name                  rename, else the identifier's text (with or without `r#`)
  proc-macros/src/render_client.rs  encode_params, ParamKind::Map   the expression inserted as the member key
  proc-macros/src/render_server.rs  render_params_decoding          `#[serde(rename = ..)]` and every `alias = "{}"` of a field
Each of these is a small string expression over `name` (method chains of str/String/heck functions, see `_Expr`); it is
turned into a list of operations, applied here to every parameter of the family, and written to MacroApiGen.v as
`family_keys` (client key, server keys per parameter).  Props/C17.v (C17_by_name_keys_agree) then needs: the client key is
one of the server's keys, they are the keys the model uses, and no two parameters of a method share one.  A change on one
side only (e.g. the client stripping `r#`) therefore changes the generated constant and the theorem no longer compiles; an
expression outside the understood fragment is an error string.  heck's snake_case / lowerCamelCase are ported below
(`snake`, `camel`; the same port serves the Python reference of tools/props/c17.py); what the real heck does with
`r#type`, `_x`, `x_`, `x1y` is judged by the differential run over the compiled family.

Optional parameters.  Whether the generated server reads a positional parameter with `seq.optional_next()` (absent -> None) is
decided by the macro from the SPELLING of the type (proc-macros/src/helpers.rs `is_option`, called only from
render_server.rs render_params_decoding).  That rule is read from the source on every run (`option_rule()`: last-segment test /
whitelist of full paths / ends_with over the path segments; anything else is an error naming the construct) and applied to the
path each parameter type is spelled with (`Option`, `std::option::Option`, `core::option::Option`, `::core::option::Option`,
`option::Option`, ..).  The decision is the `p_opt` of the emitted descriptions (so the model's positional decoder runs on it)
and is listed next to the spelling in `family_options`; Props/C17.v (C17_option_spellings_are_optional) needs every standard
spelling of Option to be decided optional, so a rule that forgets one stops the build.  `family()` keeps for the Python
generator / oracle the DECLARED optionality ("opt": the type is std's Option under a known spelling), independent of that rule."""
import os, re
import vlib

SRC = os.path.join(vlib.HARNESS, "src", "bin", "macroapi.rs")
OUT = os.path.join(vlib.COQ, "Gen", "MacroApiGen.v")

INTS = {"u8": ("u", 2**8 - 1), "u16": ("u", 2**16 - 1), "u32": ("u", 2**32 - 1), "u64": ("u", 2**64 - 1),
        "i8": ("i", 2**7, 2**7 - 1), "i16": ("i", 2**15, 2**15 - 1), "i32": ("i", 2**31, 2**31 - 1),
        "i64": ("i", 2**63, 2**63 - 1)}

TOK = re.compile(r"""\s*(?:(//[^\n]*)|("(?:[^"\\]|\\.)*")|(r\#[A-Za-z_][A-Za-z0-9_]*|[A-Za-z_][A-Za-z0-9_]*)|(->|=>|::|[#\[\](){}<>,:;=&.!]))""")


class ParseError(Exception):
    pass


_SIMPLE_ESC = {"\\": "\\", '"': '"', "'": "'", "n": "\n", "r": "\r", "t": "\t", "0": "\0"}


def rust_unescape(body):
    """the value of a (non-raw, non-byte) Rust string literal given the text between its quotes, with the escape processing of
    the Rust reference / syn::LitStr::value(): quote escapes, ASCII escapes `\\n \\r \\t \\\\ \\0 \\xHH` (HH <= 7F), unicode escapes `\\u{H..}`
    (1-6 hex digits, `_` allowed, a scalar value), a backslash before a line break skips the break and the following whitespace.
    Anything else is an error, never a guess.  This is how the wire name of `#[argument(rename = "..")]` is read."""
    out, i, n = [], 0, len(body)
    while i < n:
        c = body[i]
        if c != "\\":
            if c == "\r":
                raise ParseError("bare CR in string literal %r" % body)
            out.append(c)
            i += 1
            continue
        if i + 1 >= n:
            raise ParseError("string literal %r ends in a backslash" % body)
        e = body[i + 1]
        if e in _SIMPLE_ESC:
            out.append(_SIMPLE_ESC[e])
            i += 2
        elif e == "x":
            h = body[i + 2:i + 4]
            if not re.fullmatch(r"[0-7][0-9a-fA-F]", h):
                raise ParseError("escape \\x%s in string literal %r is not \\x00..\\x7F" % (h, body))
            out.append(chr(int(h, 16)))
            i += 4
        elif e == "u":
            m = re.match(r"\{([0-9a-fA-F_]*)\}", body[i + 2:])
            digits = m.group(1).replace("_", "") if m else ""
            if not m or not 1 <= len(digits) <= 6 or m.group(1).startswith("_"):
                raise ParseError("unicode escape at %r in string literal %r not understood" % (body[i:i + 12], body))
            v = int(digits, 16)
            if v > 0x10FFFF or 0xD800 <= v <= 0xDFFF:
                raise ParseError("unicode escape \\u{%s} in string literal %r is not a scalar value" % (digits, body))
            out.append(chr(v))
            i += 2 + m.end()
        elif e == "\n":
            i += 2
            while i < n and body[i] in " \t\n\r":
                i += 1
        else:
            raise ParseError("escape \\%s in string literal %r not understood" % (e, body))
    return "".join(out)


def tokenize(text):
    toks, pos = [], 0
    while True:
        m = TOK.match(text, pos)
        if not m:
            if text[pos:].strip() == "":
                return toks
            raise ParseError("cannot tokenize at %r" % text[pos:pos + 40])
        pos = m.end()
        if m.group(1) is not None:
            continue
        if m.group(2) is not None:
            toks.append(("str", rust_unescape(m.group(2)[1:-1])))
        elif m.group(3) is not None:
            toks.append(("id", m.group(3)))
        else:
            toks.append(("p", m.group(4)))


class P:
    def __init__(self, toks):
        self.t, self.i = toks, 0

    def peek(self, k=0):
        return self.t[self.i + k] if self.i + k < len(self.t) else ("eof", "")

    def next(self):
        x = self.peek()
        self.i += 1
        return x

    def eat(self, kind, val=None):
        x = self.next()
        if x[0] != kind or (val is not None and x[1] != val):
            raise ParseError("expected %s %r, got %r (token %d)" % (kind, val, x, self.i))
        return x[1]

    def at(self, kind, val=None):
        x = self.peek()
        return x[0] == kind and (val is None or x[1] == val)

    # ---- types
    def ty(self):
        if self.at("p", "("):
            self.next()
            ts = []
            while not self.at("p", ")"):
                ts.append(self.ty())
                if self.at("p", ","):
                    self.next()
            self.eat("p", ")")
            return ("unit",) if not ts else ("tuple", ts)
        lead = False
        if self.at("p", "::"):
            self.next()
            lead = True
        path = [self.eat("id")]
        while self.at("p", "::"):
            self.next()
            path.append(self.eat("id"))
        args = []
        if self.at("p", "<"):
            self.next()
            while not self.at("p", ">"):
                args.append(self.ty())
                if self.at("p", ","):
                    self.next()
            self.eat("p", ">")
        leaf = path[-1]
        if leaf in INTS and not args:
            return INTS[leaf]
        if leaf == "bool" and not args:
            return ("bool",)
        if leaf == "String" and not args:
            return ("str",)
        if leaf == "Value" and not args:
            return ("any",)
        if leaf == "Option" and len(args) == 1:
            if option_spelling(lead, path) is None:
                raise ParseError("type %s%s<..>: not a spelling of std's Option this translator knows" % ("::" if lead else "", "::".join(path)))
            return ("opt", args[0])
        if leaf == "Vec" and len(args) == 1:
            return ("vec", args[0])
        if leaf == "Box" and len(args) == 1:
            return args[0]
        if leaf == "BTreeMap" and len(args) == 2 and args[0] == ("str",):
            return ("map", args[1])
        if not args and len(path) == 1:
            return ("named", leaf)
        raise ParseError("type %s<%s> not supported" % ("::".join(path), args))

    def spelled_ty(self):
        """-> (type, (leading `::`, path segments) of the type's outermost path | None for a tuple / unit): the spelling is
        re-read from the tokens the type starts with"""
        j = self.i
        t = self.ty()
        lead, path = False, []
        if self.t[j] == ("p", "("):
            return t, None
        if self.t[j] == ("p", "::"):
            lead, j = True, j + 1
        while self.t[j][0] == "id":
            path.append(self.t[j][1])
            if j + 1 >= len(self.t) or self.t[j + 1] != ("p", "::"):
                break
            j += 2
        return t, (lead, tuple(path))

    # ---- attributes:  #[name(key [= value], ...)]  ->  (name, {key: value})
    def attr(self):
        self.eat("p", "#")
        self.eat("p", "[")
        name = self.eat("id")
        kv = {}
        if self.at("p", "("):
            self.next()
            while not self.at("p", ")"):
                k = self.eat("id")
                v = True
                if self.at("p", "="):
                    self.next()
                    if k == "item":
                        v = self.ty()
                    elif self.at("p", "["):
                        self.next()
                        v = []
                        while not self.at("p", "]"):
                            v.append(self.eat("str"))
                            if self.at("p", ","):
                                self.next()
                        self.eat("p", "]")
                    elif self.at("str"):
                        v = self.eat("str")
                        if self.at("p", "=>"):
                            self.next()
                            v = (v, self.eat("str"))
                    else:
                        v = ("ident", self.eat("id"))
                if k in kv:
                    raise ParseError("attribute key %s twice" % k)
                kv[k] = v
                if self.at("p", ","):
                    self.next()
            self.eat("p", ")")
        self.eat("p", "]")
        return name, kv


def known(kv, allowed, where):
    for k in kv:
        if k not in allowed:
            raise ParseError("%s: attribute key %r not understood" % (where, k))


def parse_params(p):
    self_seen = False
    params = []
    p.eat("p", "(")
    p.eat("p", "&")
    p.eat("id", "self")
    self_seen = True
    while p.at("p", ","):
        p.next()
        if p.at("p", ")"):
            break
        rename = None
        if p.at("p", "#"):
            an, akv = p.attr()
            if an != "argument":
                raise ParseError("parameter attribute %s not understood" % an)
            known(akv, {"rename"}, "argument")
            rename = akv.get("rename")
        # the identifier as written: `r#type` stays `r#type` (the text syn::Ident::to_string() gives)
        ident = p.eat("id")
        if rename is not None and not isinstance(rename, str):
            raise ParseError("argument(rename = ..) of %s is not a string literal" % ident)
        p.eat("p", ":")
        t, path = p.spelled_ty()
        # "opt": the DECLARED type is std's Option (one of the spellings of OPTION_SPELLINGS): what the property speaks about and
        # what the generator / direct oracle of tools/props/c17.py use.  Whether the MACRO treats the parameter as optional
        # (seq.optional_next()) is a different question, decided from "path" with the rule read from helpers::is_option
        # (option_rule / macro_optional below) when the Coq description is written.
        opt = t[0] == "opt"
        params.append({"ident": ident, "rename": rename, "opt": opt, "ty": t[1] if opt else t, "path": path})
    p.eat("p", ")")
    assert self_seen
    return params


def param_kind(kv):
    v = kv.get("param_kind", ("ident", "array"))
    if v not in (("ident", "array"), ("ident", "map")):
        raise ParseError("param_kind %r" % (v,))
    return v[1]


def parse_family(text):
    p = P(tokenize(text))
    apis = []
    while not p.at("eof"):
        an, akv = p.attr()
        if an != "rpc":
            raise ParseError("expected #[rpc(..)], got #[%s]" % an)
        known(akv, {"client", "server", "namespace", "namespace_separator"}, "rpc")
        if not (akv.get("client") and akv.get("server")):
            raise ParseError("every trait of the family must be #[rpc(client, server, ..)]")
        p.eat("id", "pub")
        p.eat("id", "trait")
        trait = p.eat("id")
        p.eat("p", "{")
        methods, subs = [], []
        while not p.at("p", "}"):
            mn, mkv = p.attr()
            is_async = False
            if p.at("id", "async"):
                p.next()
                is_async = True
            p.eat("id", "fn")
            fn = p.eat("id")
            params = parse_params(p)
            ret = None
            if p.at("p", "->"):
                p.next()
                ret = p.ty()
            p.eat("p", ";")
            where = "%s::%s" % (trait, fn)
            if mn == "method":
                known(mkv, {"name", "aliases", "param_kind", "blocking"}, where)
                blocking = bool(mkv.get("blocking"))
                if blocking and is_async:
                    raise ParseError(where + ": blocking and async")
                methods.append({"fn": fn, "name": mkv["name"], "aliases": mkv.get("aliases", []), "params": params,
                                "pkind": param_kind(mkv), "kind": "async" if is_async else "blocking" if blocking else "sync",
                                "ret": ret})
            elif mn == "subscription":
                known(mkv, {"name", "unsubscribe", "item", "aliases", "unsubscribe_aliases", "param_kind"}, where)
                name = mkv["name"]
                notif = None
                if isinstance(name, tuple):
                    name, notif = name
                subs.append({"fn": fn, "name": name, "notif": notif, "unsub": mkv.get("unsubscribe"),
                             "aliases": mkv.get("aliases", []), "unsub_aliases": mkv.get("unsubscribe_aliases", []),
                             "params": params, "pkind": param_kind(mkv), "async": is_async, "item": mkv["item"]})
            else:
                raise ParseError(where + ": attribute #[%s] not understood" % mn)
        p.eat("p", "}")
        apis.append({"trait": trait, "namespace": akv.get("namespace"), "separator": akv.get("namespace_separator"),
                     "methods": methods, "subs": subs})
    return apis


def parse_types(text):
    p = P(tokenize(text))
    types = {}
    order = []
    while not p.at("eof"):
        while p.at("p", "#"):
            skip_attr(p)
        p.eat("id", "pub")
        kind = p.eat("id")
        name = p.eat("id")
        p.eat("p", "{")
        if kind == "struct":
            fields = []
            while not p.at("p", "}"):
                p.eat("id", "pub")
                f = p.eat("id")
                p.eat("p", ":")
                fields.append((f, p.ty()))
                if p.at("p", ","):
                    p.next()
            types[name] = ("struct", fields)
        elif kind == "enum":
            units, tagged = [], []
            while not p.at("p", "}"):
                v = p.eat("id")
                if p.at("p", "("):
                    p.next()
                    ts = []
                    while not p.at("p", ")"):
                        ts.append(p.ty())
                        if p.at("p", ","):
                            p.next()
                    p.eat("p", ")")
                    tagged.append((v, ts[0] if len(ts) == 1 else ("tuple", ts)))
                elif p.at("p", "{"):
                    p.next()
                    fs = []
                    while not p.at("p", "}"):
                        f = p.eat("id")
                        p.eat("p", ":")
                        fs.append((f, p.ty()))
                        if p.at("p", ","):
                            p.next()
                    p.eat("p", "}")
                    tagged.append((v, ("struct", fs)))
                else:
                    units.append(v)
                if p.at("p", ","):
                    p.next()
            types[name] = ("enum", units, tagged)
        else:
            raise ParseError("item kind %r" % kind)
        p.eat("p", "}")
        order.append(name)
    return types, order


def skip_attr(p):
    p.eat("p", "#")
    p.eat("p", "[")
    depth = 1
    while depth:
        k, v = p.next()
        if k == "eof":
            raise ParseError("unterminated attribute")
        if (k, v) == ("p", "["):
            depth += 1
        elif (k, v) == ("p", "]"):
            depth -= 1


def section(src, name):
    m = re.search(r"// %s-BEGIN\n(.*?)// %s-END" % (name, name), src, re.S)
    if not m:
        raise ParseError("markers // %s-BEGIN / // %s-END not found" % (name, name))
    return m.group(1)


_CACHE = {}


def load():
    """-> (types, order, apis); raises ParseError"""
    src = open(SRC).read()
    key = hash(src)
    if key in _CACHE:
        return _CACHE[key]
    types, order = parse_types(section(src, "TYPES"))
    fam = section(src, "FAMILY")
    # `RpcResult<T>` / `SubscriptionResult`: unwrap before the generic type parser sees them
    fam = re.sub(r"->\s*SubscriptionResult\s*;", ";", fam)
    fam = re.sub(r"->\s*RpcResult<(.*)>\s*;", r"-> \1;", fam)
    apis = parse_family(fam)

    def check(t, where):
        if t[0] == "named":
            if t[1] not in types:
                raise ParseError("%s: unknown type %s" % (where, t[1]))
        elif t[0] in ("opt", "vec", "map"):
            check(t[1], where)
        elif t[0] == "tuple":
            for x in t[1]:
                check(x, where)
        elif t[0] == "struct":
            for _, x in t[1]:
                check(x, where)

    for a in apis:
        for m in a["methods"]:
            for q in m["params"]:
                check(q["ty"], a["trait"] + "::" + m["fn"])
            if m["ret"] is not None:
                check(m["ret"], a["trait"] + "::" + m["fn"])
        for s in a["subs"]:
            for q in s["params"]:
                check(q["ty"], a["trait"] + "::" + s["fn"])
            check(s["item"], a["trait"] + "::" + s["fn"])
            if s["unsub"] is None and not s["name"].startswith("subscribe"):
                raise ParseError("%s::%s: no unsubscribe name can be derived" % (a["trait"], s["fn"]))
    _CACHE[key] = (types, order, apis)
    return _CACHE[key]


def family():
    return load()


# ---------------------------------------------------------------- heck 0.5 `transform`, ported from the Rust source
# (char by char as heck does it: char::is_alphanumeric / is_lowercase / is_uppercase / to_lowercase / to_uppercase are taken from
# Python's Unicode tables: str.isalnum / islower / isupper / lower / upper of ONE character, which are the same Unicode properties
# and full case mappings, e.g. `µ` U+00B5 -> `Μ` U+039C, `ß` -> `SS`; heck's own final-sigma rule is kept as heck has it).
# Also used by the Python reference of tools/props/c17.py.

def heck_words(s):
    words = []
    piece = ""
    pieces = []
    for ch in s:
        if ch.isalnum():
            piece += ch
        else:
            pieces.append(piece)
            piece = ""
    pieces.append(piece)
    low = lambda c: c.islower()
    up = lambda c: c.isupper()
    for w in pieces:
        init, mode = 0, "b"
        i = 0
        while i < len(w):
            c = w[i]
            if i + 1 < len(w):
                nxt = w[i + 1]
                next_mode = "l" if low(c) else "u" if up(c) else mode
                if next_mode == "l" and up(nxt):
                    words.append(w[init:i + 1])
                    init, mode = i + 1, "b"
                elif mode == "u" and up(c) and low(nxt):
                    words.append(w[init:i])
                    init, mode = i, "b"
                else:
                    mode = next_mode
            else:
                words.append(w[init:])
            i += 1
    return words


def heck_lowercase(w):
    return "".join("\u03c2" if (c == "\u03a3" and i == len(w) - 1) else c.lower() for i, c in enumerate(w))


def heck_capitalize(w):
    return w[:1].upper() + heck_lowercase(w[1:])


def snake(s):
    return "_".join(heck_lowercase(w) for w in heck_words(s))


def camel(s):
    ws = heck_words(s)
    return "".join(heck_lowercase(w) if i == 0 else heck_capitalize(w) for i, w in enumerate(ws))


# ---------------------------------------------------------------- the macro's by-name key rules, read from /repo/proc-macros

RTOK = re.compile(r"""\s*(?:(r\#"(?:[^"]|"(?!\#))*"\#|"(?:[^"\\]|\\.)*")|('(?:[^'\\]|\\.)')|([A-Za-z_][A-Za-z0-9_]*)|(::|\|\||=>|->|[.()&,|!\#\[\]=;{}:<>*+\-?]))""")


def _rtokens(text):
    toks, pos = [], 0
    text = re.sub(r"//[^\n]*", "", text)
    while True:
        if text[pos:].strip() == "":
            return toks
        m = RTOK.match(text, pos)
        if not m:
            raise ParseError("key rule: cannot tokenize %r" % text[pos:pos + 50].strip())
        pos = m.end()
        if m.group(1) is not None:
            lit = m.group(1)
            if lit.startswith("r#"):
                toks.append(("str", lit[3:-2]))
            else:
                body = lit[1:-1]
                if "\\" in body:
                    raise ParseError("key rule: escape in literal %s" % lit)
                toks.append(("str", body))
        elif m.group(2) is not None:
            body = m.group(2)[1:-1]
            if "\\" in body:
                raise ParseError("key rule: escape in literal %s" % m.group(2))
            toks.append(("str", body))
        elif m.group(3) is not None:
            toks.append(("id", m.group(3)))
        else:
            toks.append(("p", m.group(4)))


IDENTITY = {"as_str", "to_string", "clone", "to_owned", "as_ref", "into", "borrow"}
NULLARY = {"to_snake_case": "snake", "to_lower_camel_case": "camel", "to_lowercase": "lower", "to_ascii_lowercase": "lower",
           "to_uppercase": "upper", "to_ascii_uppercase": "upper", "unraw": "unraw"}
UNARY = {"trim_start_matches": "ltrim", "trim_end_matches": "rtrim", "trim_matches": "trim"}
HECK_PATHS = {("heck", "ToSnakeCase", "to_snake_case"): "snake", ("heck", "ToLowerCamelCase", "to_lower_camel_case"): "camel"}


class _Expr:
    """string expressions of the renderers -> tuple of operations on the parameter's name.
         E ::= & E | heck::Trait::fn(E) | String::from(E) | A (. m(args))*        A ::= <closure argument>.name() | <let-bound variable>
       m: identity conversions; to_snake_case / to_lower_camel_case / to_*case / unraw;
          strip_prefix("l").unwrap_or(E') / strip_suffix("l").unwrap_or(E') with E' the receiver again;
          trim_start_matches / trim_end_matches / trim_matches("l"); replace("a", "b")"""

    def __init__(self, toks, env, argvars, where):
        self.p, self.env, self.argvars, self.where = P(toks), env, argvars, where

    def fail(self, what):
        raise ParseError("%s: %s (token %d of %r)" % (self.where, what, self.p.i, " ".join(t[1] for t in self.p.t)))

    def expr(self):
        p = self.p
        while p.at("p", "&"):
            p.next()
        first = p.eat("id")
        if p.at("p", "::"):
            path = [first]
            while p.at("p", "::"):
                p.next()
                path.append(p.eat("id"))
            p.eat("p", "(")
            inner = self.expr()
            p.eat("p", ")")
            if tuple(path) in HECK_PATHS:
                ops = inner + ((HECK_PATHS[tuple(path)],),)
            elif tuple(path) == ("String", "from"):
                ops = inner
            else:
                self.fail("function %s not understood" % "::".join(path))
        elif first in self.argvars:
            p.eat("p", ".")
            if p.eat("id") != "name":
                self.fail("only .name() of the argument is understood")
            p.eat("p", "(")
            p.eat("p", ")")
            ops = ()
        elif first in self.env:
            ops = self.env[first]
        else:
            self.fail("variable %s is not bound to a name expression" % first)
        while p.at("p", "."):
            p.next()
            m = p.eat("id")
            p.eat("p", "(")
            if m in IDENTITY:
                p.eat("p", ")")
            elif m in NULLARY:
                p.eat("p", ")")
                ops = ops + ((NULLARY[m],),)
            elif m in UNARY:
                lit = p.eat("str")
                p.eat("p", ")")
                ops = ops + ((UNARY[m], lit),)
            elif m == "replace":
                a = p.eat("str")
                p.eat("p", ",")
                b = p.eat("str")
                p.eat("p", ")")
                ops = ops + (("replace", a, b),)
            elif m in ("strip_prefix", "strip_suffix"):
                lit = p.eat("str")
                p.eat("p", ")")
                p.eat("p", ".")
                if p.eat("id") != "unwrap_or":
                    self.fail("%s(..) must be followed by .unwrap_or(<the same string>)" % m)
                p.eat("p", "(")
                other = self.expr()
                p.eat("p", ")")
                if other != ops:
                    self.fail("%s(..).unwrap_or(..) falls back to a different string" % m)
                ops = ops + (("lstrip1" if m == "strip_prefix" else "rstrip1", lit),)
            else:
                self.fail("method .%s() not understood" % m)
        return ops


def _eval(toks, env, argvars, where):
    e = _Expr(toks, env, argvars, where)
    ops = e.expr()
    if not e.p.at("eof"):
        e.fail("trailing tokens")
    return ops


def apply_ops(ops, s):
    for op in ops:
        k = op[0]
        if k == "snake":
            s = snake(s)
        elif k == "camel":
            s = camel(s)
        elif k == "lower":
            s = s.lower()
        elif k == "upper":
            s = s.upper()
        elif k == "unraw":
            s = s[2:] if s.startswith("r#") else s
        elif k == "lstrip1":
            s = s[len(op[1]):] if op[1] and s.startswith(op[1]) else s
        elif k == "rstrip1":
            s = s[:-len(op[1])] if op[1] and s.endswith(op[1]) else s
        elif k in ("ltrim", "trim"):
            while op[1] and s.startswith(op[1]):
                s = s[len(op[1]):]
            if k == "trim":
                while op[1] and s.endswith(op[1]):
                    s = s[:-len(op[1])]
        elif k == "rtrim":
            while op[1] and s.endswith(op[1]):
                s = s[:-len(op[1])]
        elif k == "replace":
            s = s.replace(op[1], op[2])
        else:
            raise ParseError("operation %r" % (op,))
    return s


def ops_text(ops):
    return "name" + "".join("." + op[0] + "(" + ", ".join(repr(x) for x in op[1:]) + ")" for op in ops)


def _split_stmts(toks):
    """token list -> statements at `;` (nesting respected)"""
    out, cur, depth = [], [], 0
    for t in toks:
        if t[0] == "p" and t[1] in "([{":
            depth += 1
        elif t[0] == "p" and t[1] in ")]}":
            depth -= 1
        if t == ("p", ";") and depth == 0:
            out.append(cur)
            cur = []
        else:
            cur.append(t)
    if cur:
        out.append(cur)
    return out


def _closure_body(src, anchor_re, what):
    import translate
    body = translate._fn_body(src, anchor_re)
    if body is None:
        raise ParseError("anchor not found: " + what)
    return body


def _repo(rel):
    return open(os.path.join(vlib.REPO, rel)).read()


_RULES = {}


def key_rules():
    """-> dict(ident=ops on the identifier text, client=ops on name, server=[ops on name, ..] (rename first, aliases in source
    order)); raises ParseError when a source no longer has the shape that is understood"""
    src_m, src_c, src_s = _repo("proc-macros/src/rpc_macro.rs"), _repo("proc-macros/src/render_client.rs"), _repo("proc-macros/src/render_server.rs")
    key = hash((src_m, src_c, src_s))
    if key in _RULES:
        return _RULES[key]
    # --- RpcFnArg::name: the rename string, else the identifier's text
    body = _closure_body(src_m, r"pub fn name\(&self\) -> String\s*\{", "rpc_macro.rs RpcFnArg::name")
    flat = re.sub(r"\s+", "", re.sub(r"//[^\n]*", "", body))
    m = re.fullmatch(r"self\.rename_to\.clone\(\)\.unwrap_or_else\(\|\|self\.arg_pat\.ident((?:\.unraw\(\))?)\.to_string\(\)\)", flat)
    if not m:
        raise ParseError("rpc_macro.rs RpcFnArg::name is not `rename_to, else arg_pat.ident[.unraw()].to_string()`: %r" % flat)
    ident_ops = (("unraw",),) if m.group(1) else ()
    # --- client: encode_params, ParamKind::Map: `params.iter().map(|arg| { ..; quote!(#name, #value) })`
    enc = _closure_body(src_c, r"fn encode_params\(", "render_client.rs encode_params")
    mp = _closure_body(enc, r"ParamKind::Map\s*=>\s*\{", "render_client.rs encode_params ParamKind::Map")
    cm = re.search(r"let params_insert = params\.iter\(\)\.map\(\|(\w+)\|\s*\{", mp)
    if not cm:
        raise ParseError("render_client.rs ParamKind::Map: `let params_insert = params.iter().map(|arg| {` not found")
    cbody = _closure_body(mp, r"let params_insert = params\.iter\(\)\.map\(\|\w+\|\s*\{", "params_insert closure")
    if len(re.findall(r"\.insert\(#params_insert\)", mp)) != 1:
        raise ParseError("render_client.rs ParamKind::Map: `#p.insert(#params_insert)` not found exactly once")
    client = _binding_rule(cbody, {cm.group(1)}, "render_client.rs ParamKind::Map key",
                           final=lambda st: _quote_pair(st))
    # --- server: render_params_decoding, the fields of ParamsObject
    dec = _closure_body(src_s, r"fn render_params_decoding\(", "render_server.rs render_params_decoding")
    sm = re.search(r"let fields = params\.iter\(\)\.zip\(generics\.clone\(\)\)\.map\(\|\((\w+), \w+\)\|\s*\{", dec)
    if not sm:
        raise ParseError("render_server.rs: `let fields = params.iter().zip(generics.clone()).map(|(fn_arg, ty)| {` not found")
    sbody = _closure_body(dec, r"let fields = params\.iter\(\)\.zip\(generics\.clone\(\)\)\.map\(\|\(\w+, \w+\)\|\s*\{", "fields closure")
    server = _server_rule(sbody, {sm.group(1)})
    _RULES[key] = {"ident": ident_ops, "client": client, "server": server}
    return _RULES[key]


def _quote_pair(st):
    """`quote!(#a, #b)` -> a"""
    flat = "".join(t[1] for t in st)
    m = re.fullmatch(r"quote!\(#(\w+),#(\w+)\)", flat)
    return m.group(1) if m else None


def _binding_rule(body, argvars, where, final):
    """statements `let v = <name expression>;` (others must not mention a bound name), then the final expression names the key"""
    env = {}
    stmts = _split_stmts(_rtokens(body))
    if not stmts:
        raise ParseError(where + ": empty closure")
    for st in stmts[:-1]:
        if len(st) >= 4 and st[0] == ("id", "let") and st[1][0] == "id" and st[2] == ("p", "="):
            var, rhs = st[1][1], st[3:]
            try:
                env[var] = _eval(rhs, env, argvars, where)
                continue
            except ParseError:
                # not a name expression (e.g. `let value = arg.arg_pat()`): fine as long as no name flows into it
                uses = [t[1] for t in rhs if t[0] == "id" and t[1] in env]
                if uses or any(rhs[i][1] in argvars and rhs[i + 2] == ("id", "name") for i in range(len(rhs) - 2) if rhs[i][0] == "id"):
                    raise
                env.pop(var, None)
                continue
        raise ParseError("%s: statement %r not understood" % (where, " ".join(t[1] for t in st)))
    var = final(stmts[-1])
    if var is None or var not in env:
        raise ParseError("%s: the closure does not end in the expected quote!(..) over a bound name: %r" % (where, " ".join(t[1] for t in stmts[-1])))
    return env[var]


def _server_rule(body, argvars):
    where = "render_server.rs ParamsObject field"
    env = {}
    rename, aliases = None, []
    toks = _rtokens(body)
    for st in _split_stmts(toks):
        flat = "".join(t[1] for t in st)
        if len(st) >= 4 and st[0] == ("id", "let") and st[1][0] == "id" and st[2] == ("p", "="):
            var, rhs = st[1][1], st[3:]
            m = re.fullmatch(r"quote!\(#\[serde\(rename=#(\w+)\)\]\)", "".join(t[1] for t in rhs))
            if m:
                if m.group(1) not in env or rename is not None:
                    raise ParseError(where + ": #[serde(rename = #..)] over an unbound name, or twice")
                rename = env[m.group(1)]
                continue
            try:
                env[var] = _eval(rhs, env, argvars, where)
            except ParseError:
                if [t for t in rhs if t[0] == "id" and t[1] in env and "alias" in flat and "format" in flat]:
                    raise
                env.pop(var, None)
            continue
        # alias_vals.push_str(&format!(r#"alias = "{}""#, <name expression>))
        if ("str", 'alias = "{}"') in st:
            i = st.index(("str", 'alias = "{}"'))
            pre = "".join(t[1] for t in st[:i])
            if not re.fullmatch(r"\w+\.push_str\(&format!\(", pre) or st[i + 1] != ("p", ",") or st[-2:] != [("p", ")"), ("p", ")")]:
                raise ParseError("%s: alias statement %r not understood" % (where, flat))
            aliases.append(_eval(st[i + 2:-2], env, argvars, where))
            continue
        if any(t[0] == "str" and "alias" in t[1] for t in st):
            raise ParseError("%s: alias statement %r not understood" % (where, flat))
    if rename is None:
        raise ParseError(where + ": #[serde(rename = #name)] not found")
    if not re.search(r"#serde_alias\s+#serde_rename\s+#arg_pat: #ty,", body) and not re.search(r"#serde_rename\s+#serde_alias\s+#arg_pat: #ty,", body):
        raise ParseError(where + ": the field is not emitted as `#serde_alias #serde_rename #arg_pat: #ty,`")
    return [rename] + aliases


def param_keys(q, rules=None):
    """-> (the member key the generated client writes, the keys the generated server accepts) for one parameter"""
    r = rules or key_rules()
    name = q["rename"] if q["rename"] is not None else apply_ops(r["ident"], q["ident"])
    return apply_ops(r["client"], name), [apply_ops(o, name) for o in r["server"]]


# ---------------------------------------------------------------- the macro's optionality rule, read from /repo/proc-macros

# the spellings of std's Option in the family (`option::Option` with `use std::option;` in scope): (leading `::`, segments) -> class
OPTION_SPELLINGS = {
    (False, ("Option",)): "prelude",
    (False, ("option", "Option")): "module",
    (False, ("std", "option", "Option")): "std",
    (False, ("core", "option", "Option")): "core",
    (True, ("std", "option", "Option")): "global-std",
    (True, ("core", "option", "Option")): "global-core",
}


def option_spelling(lead, path):
    return OPTION_SPELLINGS.get((bool(lead), tuple(path)))


def path_text(path):
    return "(not a path)" if path is None else ("::" if path[0] else "") + "::".join(path[1])


def _flat(body):
    return re.sub(r"\s+", "", re.sub(r"//[^\n]*", "", body))


def _str_list(flat, where):
    """`"a","b"` -> ['a', 'b']"""
    if flat == "":
        return []
    items = flat.rstrip(",").split(",")
    out = []
    for it in items:
        m = re.fullmatch(r'"([A-Za-z_][A-Za-z0-9_]*)"', it)
        if not m:
            raise ParseError("%s: path segment literal %r not understood" % (where, it))
        out.append(m.group(1))
    return out


_ORULE = {}
W = r"(\w+)"


def option_rule():
    """helpers::is_option, the function render_server.rs asks whether a positional parameter is read with
    `seq.optional_next()` (absent -> None) or `seq.next()`: -> dict(kind=.., ..) for the shapes understood,
         kind = "last"    name           the last path segment is `name` (the tree's rule: any path ending in `Option`)
         kind = "paths"   paths          the segment list is one of `paths` (a whitelist of full paths)
         kind = "suffix"  paths          the segment list ends with one of `paths`
       plus qself (a `<T as Tr>::..` path is refused first).  In every shape a type that is not a `syn::Type::Path` is not
       optional, generic arguments are not looked at and a leading `::` is not a segment.  Anything else: ParseError naming the
       construct.  Also checked: is_option is what chooses optional_next / next in render_params_decoding, and nothing else in
       proc-macros/src calls it."""
    src = _repo("proc-macros/src/helpers.rs")
    srv = _repo("proc-macros/src/render_server.rs")
    pm = os.path.join(vlib.REPO, "proc-macros", "src")
    others = []
    for root, _, files in os.walk(pm):
        for fn in sorted(files):
            if fn.endswith(".rs"):
                rel = os.path.relpath(os.path.join(root, fn), pm)
                n = len(re.findall(r"\bis_option\s*\(", open(os.path.join(root, fn)).read()))
                if n and rel != "helpers.rs":
                    others.append((rel, n))
    key = hash((src, srv, tuple(others)))
    if key in _ORULE:
        return _ORULE[key]
    where = "helpers.rs is_option"
    if others != [("render_server.rs", 1)]:
        raise ParseError("%s: expected exactly one caller (render_server.rs render_params_decoding), found %r" % (where, others))
    if not re.search(r"let is_option = is_option\(ty\);\s*let next_method = if is_option \{ quote!\(optional_next\) \} else \{ quote!\(next\) \};", srv):
        raise ParseError("render_server.rs: `let is_option = is_option(ty); let next_method = if is_option { quote!(optional_next) } else { quote!(next) };` not found")
    body = _closure_body(src, r"fn is_option\(\s*ty\s*:\s*&\s*syn::Type\s*\)\s*->\s*bool\s*\{", where)
    f = _flat(body)
    # --- constants: const NAME: [&[&str]; N] = [&["a", "b"], ..];
    consts = {}
    for m in list(re.finditer(r"const(\w+):\[&\[&str\];(\d+)\]=\[(.*?)\];", f)):
        rows = re.findall(r"&\[([^\[\]]*)\]", m.group(3))
        if re.sub(r"&\[[^\[\]]*\],?", "", m.group(3)) != "" or len(rows) != int(m.group(2)):
            raise ParseError("%s: constant %s = [%s] not understood" % (where, m.group(1), m.group(3)))
        consts[m.group(1)] = [_str_list(r, where) for r in rows]
        f = f.replace(m.group(0), "", 1)
    if re.search(r"\b(const|static)\b", re.sub(r"\s+", " ", re.sub(r"//[^\n]*", "", body))) and not consts:
        raise ParseError("%s: a constant of a shape that is not `const N: [&[&str]; n] = [&[..], ..];`" % where)
    # --- the guard: only a Type::Path can be optional
    tp = r"(?:syn::)?Type::Path\(" + W + r"\)"
    m = re.fullmatch(r"iflet" + tp + r"=ty\{(.*)\}false", f)
    form = "block"
    if not m:
        m = re.fullmatch(r"let" + tp + r"=tyelse\{returnfalse;?\};(.*)", f)
        form = "tail"
    if not m:
        m = re.fullmatch(r"matchty\{" + tp + r"=>(.*),_=>false,?\}", f)
        form = "expr"
    if not m:
        m = re.fullmatch(r"matches!\(ty," + tp + r"if(.*)\)", f)
        form = "expr"
    if not m:
        raise ParseError("%s: the body does not start by matching `syn::Type::Path(..) = ty` (if let / let-else / match / matches!) with `false` otherwise: %r" % (where, f[:160]))
    v, core = m.group(1), m.group(2)
    if "leading_colon" in core:
        raise ParseError("%s: a test of `leading_colon` is not understood" % where)
    qself = False
    g = "if%s.qself.is_some(){returnfalse;}" % v
    if core.startswith(g):
        qself, core = True, core[len(g):]
    if "qself" in core:
        raise ParseError("%s: use of `qself` other than `if %s.qself.is_some() { return false; }` first" % (where, v))
    S = re.escape(v + ".path.segments")
    # --- let SEGS: Vec<String> = path.path.segments.iter().map(|seg| seg.ident.to_string()).collect();
    segs = None
    m = re.search(r"let" + W + r"(?::Vec<(?:String|_)>)?=" + S + r"\.iter\(\)\.map\(\|" + W + r"\|\2\.ident\.to_string\(\)\)\.collect(?:::<Vec<(?:String|_)>>)?\(\);", core)
    if m and m.start() == 0:
        segs, core = re.escape(m.group(1)), core[m.end():]
    id_is = lambda var: r"\|" + W + r"\|\%d\.ident==\"(\w+)\"" % var

    def expr(e):
        for pat in (S + r"\.last\(\)\.map_or\(false,\|" + W + r"\|\1\.ident==\"(\w+)\"\)",
                    S + r"\.last\(\)\.is_some_and\(\|" + W + r"\|\1\.ident==\"(\w+)\"\)",
                    S + r"\.last\(\)\.map\(\|" + W + r"\|\1\.ident==\"(\w+)\"\)\.unwrap_or\(false\)",
                    S + r"\.iter\(\)\.last\(\)\.map_or\(false,\|" + W + r"\|\1\.ident==\"(\w+)\"\)",
                    r"matches!\(" + S + r"\.last\(\),Some\(" + W + r"\)if\1\.ident==\"(\w+)\"\)"):
            m = re.fullmatch(pat, e)
            if m:
                return {"kind": "last", "name": m.group(2)}
        if segs is not None:
            for pat in (segs + r"\.last\(\)\.map_or\(false,\|" + W + r"\|\*?\1==\"(\w+)\"\)",
                        segs + r"\.last\(\)\.is_some_and\(\|" + W + r"\|\*?\1==\"(\w+)\"\)",
                        segs + r"\.last\(\)\.map\(\|" + W + r"\|\*?\1==\"(\w+)\"\)\.unwrap_or\(false\)"):
                m = re.fullmatch(pat, e)
                if m:
                    return {"kind": "last", "name": m.group(2)}
            for pat in (W + r"\.iter\(\)\.any\(\|" + W + r"\|\2\.iter\(\)\.eq\(" + segs + r"\.iter\(\)\)\)",
                        W + r"\.iter\(\)\.any\(\|" + W + r"\|" + segs + r"\.iter\(\)\.eq\(\2\.iter\(\)\)\)",
                        W + r"\.iter\(\)\.any\(\|" + W + r"\|" + segs + r"==\*?\2\)"):
                m = re.fullmatch(pat, e)
                if m:
                    if m.group(1) not in consts:
                        raise ParseError("%s: %s is not a constant list of paths" % (where, m.group(1)))
                    return {"kind": "paths", "paths": consts[m.group(1)]}
            m = re.fullmatch(W + r"\.iter\(\)\.any\(\|" + W + r"\|" + segs + r"\.ends_with\(\*?\2\)\)", e)
            if m:
                if m.group(1) not in consts:
                    raise ParseError("%s: %s is not a constant list of paths" % (where, m.group(1)))
                return {"kind": "suffix", "paths": consts[m.group(1)]}
            m = re.fullmatch(segs + r"\.ends_with\(&\[([^\[\]]*)\]\)", e)
            if m:
                return {"kind": "suffix", "paths": [_str_list(m.group(1), where)]}
            m = re.fullmatch(segs + r"==\[([^\[\]]*)\]", e)
            if m:
                return {"kind": "paths", "paths": [_str_list(m.group(1), where)]}
        raise ParseError("%s: test %r not understood (understood: last segment `.ident == \"..\"`, a constant whitelist compared with "
                         "`.iter().eq(..)` / `==`, `.ends_with(..)`)" % (where, e[:200]))

    def stmts(c):
        # the peekable loop of the tree: the last segment's ident
        m = re.fullmatch(r"letmut" + W + "=" + S + r"\.iter\(\)\.peekable\(\);whileletSome\(" + W + r"\)=\1\.next\(\)\{if(.*?)\{returntrue;\}\}", c)
        if m:
            it, seg, cond = m.group(1), m.group(2), m.group(3)
            a = re.fullmatch(re.escape(seg) + r"\.ident==\"(\w+)\"&&" + re.escape(it) + r"\.peek\(\)\.is_none\(\)", cond) or \
                re.fullmatch(re.escape(it) + r"\.peek\(\)\.is_none\(\)&&" + re.escape(seg) + r"\.ident==\"(\w+)\"", cond)
            if not a:
                raise ParseError("%s: loop condition %r not understood (expected `seg.ident == \"..\" && it.peek().is_none()`)" % (where, cond))
            return {"kind": "last", "name": a.group(1)}
        m = re.fullmatch(r"ifletSome\(" + W + r"\)=" + S + r"\.last\(\)\{(?:return\1\.ident==\"(\w+)\";|if\1\.ident==\"(\w+)\"\{returntrue;\})\}", c)
        if m:
            return {"kind": "last", "name": m.group(2) or m.group(3)}
        m = re.fullmatch(r"return(.*);", c) or re.fullmatch(r"if(.*)\{returntrue;\}", c)
        if m:
            return expr(m.group(1))
        raise ParseError("%s: statements %r not understood" % (where, c[:200]))

    if form == "block":
        rule = stmts(core)
    elif form == "tail" and core.endswith("false") and not core.endswith("==false"):
        rule = stmts(core[:-len("false")])
    else:
        m = re.fullmatch(r"return(.*);", core)
        rule = expr(m.group(1) if m else core)
    rule["qself"] = qself
    _ORULE[key] = rule
    return rule


def rule_text(rule):
    k = rule["kind"]
    if k == "last":
        t = "a path whose last segment is `%s`" % rule["name"]
    elif k == "paths":
        t = "a path that is one of " + ", ".join("`" + "::".join(x) + "`" for x in rule["paths"])
    else:
        t = "a path that ends with one of " + ", ".join("`" + "::".join(x) + "`" for x in rule["paths"])
    return t + " (segments only: generic arguments and a leading `::` are not looked at" + ("; `<T as Tr>::..` paths refused" if rule.get("qself") else "") + ")"


def rule_applies(rule, path):
    """the rule on a type spelled with outermost path `path` = (leading `::`, segments), None for a tuple / unit"""
    if path is None:
        return False
    segs = list(path[1])
    k = rule["kind"]
    if k == "last":
        return segs[-1] == rule["name"]
    if k == "paths":
        return segs in [list(x) for x in rule["paths"]]
    if k == "suffix":
        return any(x and len(segs) >= len(x) and segs[-len(x):] == list(x) for x in rule["paths"])
    raise ParseError("rule %r" % (rule,))


def macro_optional(q, rule=None):
    """does the generated server read parameter q with seq.optional_next()?"""
    return rule_applies(rule or option_rule(), q["path"])


# ---------------------------------------------------------------- Coq output

def cstr(s):
    """a name as a Coq `bytes` term: the b#".." literal for printable ASCII, else the list of its UTF-8 bytes (control characters and
    non-ASCII text never go through Coq's lexer)"""
    if any(ord(c) > 126 or ord(c) < 32 for c in s):
        if any(0xD800 <= ord(c) <= 0xDFFF for c in s):
            raise ParseError("name %r is not a Rust string (surrogate)" % s)
        return "[" + "; ".join("x%02x" % b for b in s.encode("utf-8")) + "]"
    return 'b#"%s"' % s.replace('"', '""')


def copt(s):
    return "None" if s is None else "(Some %s)" % cstr(s)


def clist(xs):
    return "[" + "; ".join(xs) + "]"


def cty(t):
    k = t[0]
    if k == "u":
        return "(TyUInt %d)" % t[1]
    if k == "i":
        return "(TyInt %d %d)" % (t[1], t[2])
    if k == "bool":
        return "TyBool"
    if k == "str":
        return "TyStr"
    if k == "unit":
        return "TyUnit"
    if k == "any":
        return "TyAny"
    if k == "opt":
        return "(TyOption %s)" % cty(t[1])
    if k == "vec":
        return "(TyVec %s)" % cty(t[1])
    if k == "map":
        return "(TyMap %s)" % cty(t[1])
    if k == "tuple":
        return "(TyTuple %s)" % clist(cty(x) for x in t[1])
    if k == "struct":
        return "(TyStruct %s)" % clist("(%s, %s)" % (cstr(f), cty(x)) for f, x in t[1])
    if k == "named":
        return "ty_" + t[1]
    raise ParseError("type %r" % (t,))


def cparam(q, rules, orule):
    # p_ident: the text RpcFnArg::name takes from the identifier (syn::Ident::to_string(): raw identifiers keep `r#`)
    # p_opt: the decision of helpers::is_option (as read from the source on this run) on the type's spelling; p_ty is the T of
    # Option<T> when the macro takes the parameter for optional, else the declared type itself (an Option<T> the macro does not
    # recognise is read with seq.next::<Option<T>>(): null and values are accepted, an omitted tail is "No more params")
    mo = macro_optional(q, orule)
    t = q["ty"] if (mo or not q["opt"]) else ("opt", q["ty"])
    return "Param %s %s %s %s" % (cstr(apply_ops(rules["ident"], q["ident"])), copt(q["rename"]), "true" if mo else "false", cty(t))


def ckeys(q, rules):
    ck, sks = param_keys(q, rules)
    return "(%s, %s)" % (cstr(ck), clist(cstr(k) for k in sks))


def run():
    try:
        types, order, apis = load()
        rules = key_rules()
        orule = option_rule()
        out = ["(* GENERATED by tools/translators/macroapi.py from /verif/harness/src/bin/macroapi.rs (the #[rpc] family) -- do not edit *)",
               "From JV Require Import Base.Bytes Model.MacroApi.", "Local Open Scope N_scope.", ""]
        for n in order:
            d = types[n]
            if d[0] == "struct":
                body = cty(("struct", d[1]))
            else:
                body = "(TyEnum %s %s)" % (clist(cstr(u) for u in d[1]), clist("(%s, %s)" % (cstr(v), cty(t)) for v, t in d[2]))
            out.append("Definition ty_%s : jty := %s." % (n, body))
        out.append("")
        for a in apis:
            ms = []
            for m in a["methods"]:
                ms.append("Method %s %s %s %s %s %s" % (
                    cstr(m["name"]), clist(cstr(x) for x in m["aliases"]), clist(cparam(q, rules, orule) for q in m["params"]),
                    "PMap" if m["pkind"] == "map" else "PArray", {"sync": "MSync", "async": "MAsync", "blocking": "MBlocking"}[m["kind"]],
                    "None" if m["ret"] is None else "(Some %s)" % cty(m["ret"])))
            ss = []
            for s in a["subs"]:
                ss.append("Subscription %s %s %s %s %s %s %s %s %s" % (
                    cstr(s["name"]), copt(s["notif"]), copt(s["unsub"]), clist(cstr(x) for x in s["aliases"]),
                    clist(cstr(x) for x in s["unsub_aliases"]), clist(cparam(q, rules, orule) for q in s["params"]),
                    "PMap" if s["pkind"] == "map" else "PArray", "true" if s["async"] else "false", cty(s["item"])))
            out.append("Definition api_%s : japi :=\n  Api %s %s\n    %s\n    %s." % (
                a["trait"], copt(a["namespace"]), copt(a["separator"]),
                "[ " + ";\n      ".join(ms) + " ]" if ms else "[]", "[ " + ";\n      ".join(ss) + " ]" if ss else "[]"))
            out.append("")
        out.append("Definition family : list japi := %s." % clist("api_" + a["trait"] for a in apis))
        out.append("")
        out.append("(* By-name member keys as the macro derives them, per API, per method then subscription (declaration order), per")
        out.append("   parameter: (the key the generated client writes, the keys the generated server accepts: serde rename, aliases).")
        out.append("   Rules read from /repo/proc-macros/src on this run (tools/translators/macroapi.py key_rules):")
        out.append("     RpcFnArg::name            rename, else %s" % ops_text(rules["ident"]).replace("name", "ident.to_string()", 1))
        out.append("     client (ParamKind::Map)   %s" % ops_text(rules["client"]))
        out.append("     server (ParamsObject)     rename = %s; %s *)" % (ops_text(rules["server"][0]), "; ".join("alias = " + ops_text(o) for o in rules["server"][1:])))
        rows = []
        for a in apis:
            items = ["%s (* %s *)" % (clist(ckeys(q, rules) for q in it["params"]), it["fn"]) for it in a["methods"] + a["subs"]]
            body = "[ " + ";\n      ".join(items) + " ]" if items else "[]"
            rows.append("    (* %s *)\n    %s" % (a["trait"], body))
        out.append("Definition family_keys : list (list (list (bytes * list bytes))) :=\n  [\n%s\n  ]." % ";\n".join(rows))
        out.append("")
        out.append("(* Which parameters the generated server takes for OPTIONAL (positional decoding: seq.optional_next() instead of seq.next()),")
        out.append("   per API, per method then subscription, per parameter: (path segments of the declared type as spelled in the trait, [] for a")
        out.append("   tuple; the decision of helpers::is_option on that spelling).  The decision is also the p_opt of the descriptions above.")
        out.append("   Rule read from /repo/proc-macros/src/helpers.rs on this run (tools/translators/macroapi.py option_rule):")
        out.append("     optional iff the type is %s *)" % rule_text(orule))
        rows = []
        for a in apis:
            items = []
            for it in a["methods"] + a["subs"]:
                cells = ["(%s, %s)" % (clist(cstr(x) for x in (q["path"][1] if q["path"] is not None else ())), "true" if macro_optional(q, orule) else "false")
                         for q in it["params"]]
                spelled = ", ".join(path_text(q["path"]) for q in it["params"] if q["opt"])
                items.append("%s (* %s%s *)" % (clist(cells), it["fn"], ": " + spelled if spelled else ""))
            body = "[ " + ";\n      ".join(items) + " ]" if items else "[]"
            rows.append("    (* %s *)\n    %s" % (a["trait"], body))
        out.append("Definition family_options : list (list (list (list bytes * bool))) :=\n  [\n%s\n  ]." % ";\n".join(rows))
        out.append("")
        vlib.write_if_changed(OUT, "\n".join(out))
        return None
    except ParseError as e:
        return "macroapi.rs: " + str(e)
    except OSError as e:
        return "macroapi.rs: " + str(e)
