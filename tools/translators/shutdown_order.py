"""core/src/client/async_client/mod.rs (send_task, read_task, wait_for_shutdown)  ->  coq/Gen/ShutdownOrderGen.v

Reads the ORDER of the statements of send_task's epilogue and says which protocol variant of
Model/ClientShutdown.v the current source implements:
    (a) close_tx.send(res)            report the outcome
    (b) close_tx.closed().await       wait until the watcher has recorded it
    (c) from_frontend.close() | drop(from_frontend)    close / drop the front-end receiver
    (d) drop(manager)                 let go of the manager handle (before the transport is closed, or not at all)
    (e) sender.close().await          close the transport
  a < b < c(drop) , d < e     -> VNow        c before a -> VOldOrder
  a < b < c < e, queue and/or manager only dropped at function end -> VLateDrop
  b missing or not between a and c            -> VNoWait
and checks the other wiring the model transcribes: the select loops of both tasks look at close_tx.closed() first
(biased), read_task reports through close_tx.send(res), wait_for_shutdown writes the cause slot before its receiver
is dropped (it is dropped by returning).  A missing anchor is an error string, never a silent default.
Ping / inactivity wiring (the layer pstate/plabel of the model), checked the same way by check_ping(): the ping arm of
send_task is the LAST arm of its biased select and a failing send_ping() breaks with Error::Transport; read_task calls
mark_as_active() for EVERY item of backend_event before looking at it; a Pong is answered with Ok(vec![]); the inactivity
arm breaks with Error::Transport("WebSocket ping/pong inactive") iff is_inactive(); utils.rs: is_inactive =
`if last_active.elapsed() >= inactive_dur { count += 1 }  count >= max_count`, mark_as_active only writes last_active;
the builder wires inactive_limit / max_failures / ping_interval into them and max_failures asserts > 0.
Cancel-safety of the receive loop, recv_persistence(): is the in-flight `receiver.receive()` future kept alive across the
iterations of read_task's select loop?  `recv_future_persistent := true` iff the receiver is moved into a
`futures_util::stream::unfold(receiver, |mut receiver| async { let res = receiver.receive().await; Some((res, receiver)) })`
stream that is pinned before the loop, the loop's receive arm polls `.next()` on that stream and `.receive()` is not called
anywhere inside the loop; `false` when a select arm of the loop calls `receiver.receive()` itself (a fresh future per
iteration: dropped, with the partly read message inside it, whenever another arm wins); anything else is a missing anchor.
TransportReceiverT::receive is not cancel-safe, Model/ClientShutdown.v delivers frames whole: Props/C09.v states
`recv_future_persistent = true`, so the `false` shape is accepted HERE (the other anchors are checked on both shapes) and
refused by coqc.
The source file can be overridden with the environment variable VERIF_SHUTDOWN_SRC (or run(path=...)) for trying
the translator on a scratch copy."""
import os, re
import translate, vlib

REL = "core/src/client/async_client/mod.rs"


def _strip_comments(s):
    return re.sub(r"//[^\n]*", "", s)


def _after_loop(body, where):
    """(loop block, text after it) for the `let res = loop { ... };` of a task body"""
    m = re.search(r"let res = loop\s*\{", body)
    if not m:
        return None, None, "%s: `let res = loop {` not found" % where
    i = m.end() - 1
    depth, j = 0, i
    while j < len(body):
        if body[j] == "{":
            depth += 1
        elif body[j] == "}":
            depth -= 1
            if depth == 0:
                return body[i + 1:j], body[j + 1:], None
        j += 1
    return None, None, "%s: unbalanced loop block" % where


def _pos(text, pat):
    m = re.search(pat, text)
    return m.start() if m else None


def classify(src):
    """-> (variant, description) or (None, error string)"""
    send = translate._fn_body(src, r"async fn send_task<T, S>\(params: SendTaskParams<T, S>\)")
    if send is None:
        return None, "send_task not found"
    read = translate._fn_body(src, r"async fn read_task<R, S>\(params: ReadTaskParams<R, S>\)")
    if read is None:
        return None, "read_task not found"
    watch = translate._fn_body(src, r"async fn wait_for_shutdown\(")
    if watch is None:
        return None, "wait_for_shutdown not found"
    send, read, watch = _strip_comments(send), _strip_comments(read), _strip_comments(watch)

    # ---- the two select loops: biased, close_tx.closed() first, and it breaks with Ok(())
    for where, body in (("send_task", send), ("read_task", read)):
        loop, tail, err = _after_loop(body, where)
        if err:
            return None, err
        if not re.search(r"tokio::select!\s*\{\s*biased;\s*_ = close_tx\.closed\(\) => break Ok\(\(\)\),", re.sub(r"\s+", " ", loop)):
            return None, "%s: the select loop does not start with `biased; _ = close_tx.closed() => break Ok(())`" % where
    # ---- read_task: reports through close_tx.send(res), nothing else touches the channels afterwards
    _, rtail, _ = _after_loop(read, "read_task")
    if _pos(rtail, r"close_tx\s*\.send\(res\)\s*\.await") is None:
        return None, "read_task: `close_tx.send(res).await` after the loop not found"
    if re.search(r"to_send_task|from_frontend|closed\(\)", rtail):
        return None, "read_task: unexpected statement after the report"
    # ---- wait_for_shutdown: one recv, select against client_dropped, cause written, receiver dropped by returning
    w = re.sub(r"\s+", " ", watch)
    anchors = [("close_rx.recv()", r"let rx_item = close_rx\.recv\(\);"),
               ("select(rx_item, client_dropped)", r"if let Either::Left\(\(Some\(Err\(err\)\), _\)\) = future::select\(rx_item, client_dropped\)\.await \{"),
               ("cause slot written", r"\*err_to_front\.write\(\)\.expect\(NOT_POISONED\) = Some\(Arc::new\(err\)\);")]
    pos = 0
    for name, pat in anchors:
        m = re.compile(pat).search(w, pos)
        if not m:
            return None, "wait_for_shutdown: anchor `%s` not found (or out of order)" % name
        pos = m.end()
    wpos = re.search(anchors[2][1], w).start()
    early = re.search(r"drop\(\s*close_rx\s*\)|drop\(\s*rx_item\s*\)|close_rx\.close\(\)", w)
    if early and early.start() < wpos:
        return None, "wait_for_shutdown: the receiver is closed/dropped before the cause slot is written"
    if len(re.findall(r"\.await", w)) != 1:
        return None, "wait_for_shutdown: expected exactly one await (the select)"
    # ---- send_task epilogue order
    _, tail, _ = _after_loop(send, "send_task")
    a = _pos(tail, r"close_tx\s*\.send\(res\)\s*\.await")
    b = _pos(tail, r"close_tx\s*\.closed\(\)\s*\.await")
    c_close = _pos(tail, r"from_frontend\s*\.close\(\)")
    c_drop = _pos(tail, r"drop\(\s*from_frontend\s*\)")
    d = _pos(tail, r"drop\(\s*manager\s*\)")
    e = _pos(tail, r"sender\s*\.close\(\)\s*\.await")
    if a is None:
        return None, "send_task: `close_tx.send(res).await` (report) not found after the loop"
    if e is None:
        return None, "send_task: `sender.close().await` not found after the loop"
    cs = [x for x in (c_close, c_drop) if x is not None]
    if not cs:
        return None, "send_task: neither `from_frontend.close()` nor `drop(from_frontend)` found after the loop"
    c = min(cs)
    names = sorted([(a, "report"), (c, "drop(from_frontend)" if c == c_drop else "from_frontend.close()"), (e, "sender.close()")]
                   + ([(b, "closed().await")] if b is not None else []) + ([(d, "drop(manager)")] if d is not None else []))
    order = " < ".join(n for _, n in names)
    if c < a:
        return "VOldOrder", order
    if b is None or not (a < b < c):
        return "VNoWait", order
    if not c < e:
        return None, "send_task: unrecognised epilogue order: " + order
    queue_early = c_drop is not None and c_drop < e
    mgr_early = d is not None and d < e
    if queue_early and mgr_early:
        return "VNow", order
    return "VLateDrop", order + ("" if not (queue_early or mgr_early) else "   (only one of queue / manager handle is dropped before close(): treated as the late drop)")


UTILS_REL = "core/src/client/async_client/utils.rs"


def recv_persistence(src):
    """-> (True|False, name of the expression the receive arm polls) or (None, error string)"""
    W = lambda t: re.sub(r"\s+", " ", _strip_comments(t))
    read = translate._fn_body(src, r"async fn read_task<R, S>\(params: ReadTaskParams<R, S>\)")
    if read is None:
        return None, "read_task not found"
    body = _strip_comments(read)
    loop, _, err = _after_loop(body, "read_task")
    if err:
        return None, err
    head = W(body[:body.find("let res = loop")])
    rl = W(loop)
    if re.search(r"\w+ = receiver\.receive\(\) =>", rl):
        return False, "receiver.receive()"
    m = re.search(r"let (\w+) = futures_util::stream::unfold\(receiver, \|mut receiver\| async \{ let res = receiver\.receive\(\)\.await; "
                  r"Some\(\(res, receiver\)\) \}\);", head)
    if not m:
        return None, "read_task: neither `let <stream> = futures_util::stream::unfold(receiver, |mut receiver| async { let res = receiver.receive().await; Some((res, receiver)) });` before the loop nor a `receiver.receive()` select arm in it"
    name = m.group(1)
    pin = re.search(r"tokio::pin!\(([^)]*)\);", head[m.end():])
    if not pin or name not in [x.strip() for x in pin.group(1).split(",")]:
        return None, "read_task: the receive stream `%s` is not pinned (tokio::pin!) before the loop" % name
    if ".receive()" in rl or "unfold(" in rl:
        return None, "read_task: `.receive()` / `unfold(` inside the select loop although the stream `%s` exists" % name
    if len(re.findall(r"\w+ = %s\.next\(\) =>" % re.escape(name), rl)) != 1:
        return None, "read_task: the select loop does not have exactly one arm `<x> = %s.next() =>`" % name
    if len(re.findall(r"\b%s\b" % re.escape(name), rl)) != 1:
        return None, "read_task: the receive stream `%s` is used in the loop other than by its one `.next()` arm" % name
    return True, name + ".next()"


def check_ping(src, utils):
    """-> None or an error string: the wiring that Model/ClientShutdown.v (ping / inactivity) transcribes"""
    W = lambda t: re.sub(r"\s+", " ", _strip_comments(t))
    send = translate._fn_body(src, r"async fn send_task<T, S>\(params: SendTaskParams<T, S>\)")
    read = translate._fn_body(src, r"async fn read_task<R, S>\(params: ReadTaskParams<R, S>\)")
    if send is None or read is None:
        return "send_task / read_task not found"
    sloop, _, err = _after_loop(_strip_comments(send), "send_task")
    if err:
        return err
    rloop, _, err = _after_loop(_strip_comments(read), "read_task")
    if err:
        return err
    sl, rl = W(sloop), W(rloop)
    a, b, c = sl.find("_ = close_tx.closed() =>"), sl.find("maybe_msg = from_frontend.recv() =>"), sl.find("_ = ping_interval.next() =>")
    if not (0 <= a < b < c):
        return "send_task: the select arms are not closed() < from_frontend.recv() < ping_interval.next()"
    if not re.search(r"_ = ping_interval\.next\(\) => \{ if let Err\(err\) = sender\.send_ping\(\)\.await \{ (tracing::debug!\([^;]*\); )?break Err\(Error::Transport\(err\.into\(\)\)\); \} \}", sl):
        return "send_task: the ping arm is not `if let Err(err) = sender.send_ping().await { break Err(Error::Transport(err.into())) }`"
    persistent, _ = recv_persistence(src)
    if persistent is None:
        return _
    # the receive arm in either shape (the per-iteration `receiver.receive()` shape is refused by Props/C09.v, not here)
    arm = r"maybe_msg = backend_event\.next\(\) =>" if persistent else r"\w+ = receiver\.receive\(\) =>"
    first = (r" \{ inactivity_check\.mark_as_active\(\); let Some\(msg\) = maybe_msg else \{ break Ok\(\(\)\) \};" if persistent
             else r" \{ inactivity_check\.mark_as_active\(\);")
    if not re.search(arm + first, rl):
        return "read_task: `inactivity_check.mark_as_active();` is not the first statement of the receive arm"
    if not re.search(r"_ = inactivity_stream\.next\(\) => \{ if inactivity_check\.is_inactive\(\) \{ break Err\(Error::Transport\(\"WebSocket ping/pong inactive\"\.into\(\)\)\); \} \}", rl):
        return "read_task: the inactivity arm is not `if inactivity_check.is_inactive() { break Err(Error::Transport(\"WebSocket ping/pong inactive\".into())) }`"
    mx = re.search(arm, rl)
    x, y = (mx.start() if mx else -1), rl.find("_ = inactivity_stream.next() =>")
    if not (0 <= x < y):
        return "read_task: backend_event is not looked at before inactivity_stream"
    if not re.search(r"Some\(Ok\(ReceivedMessage::Pong\)\) => \{ (tracing::debug!\([^;]*\); )?Ok\(vec!\[\]\) \}", W(src)):
        return "handle_backend_messages: a Pong is not answered with Ok(vec![])"
    ws = W(src)
    for name, pat in (("InactivityCheck::new(p.inactive_limit, p.max_failures)", r"InactivityCheck::new\(p\.inactive_limit, p\.max_failures\)"),
                      ("interval_at(start, p.inactive_limit)", r"let start = tokio::time::Instant::now\(\) \+ p\.inactive_limit;.{0,160}tokio::time::interval_at\( ?start, p\.inactive_limit,? ?\)"),
                      ("interval(p.ping_interval)", r"tokio::time::interval\(p\.ping_interval\)"),
                      ("assert!(max > 0) in PingConfig::max_failures", r"pub fn max_failures\(mut self, max: usize\) -> Self \{ assert!\(max > 0\); self\.max_failures = max; self \}")):
        if not re.search(pat, ws):
            return "build_with_tokio / PingConfig: anchor `%s` not found" % name
    wu = W(utils)
    if not re.search(r"pub\(crate\) fn is_inactive\(&mut self\) -> bool \{ match self \{ Self::Disabled => false, Self::Enabled \{ inactive_dur, last_active, count, max_count, \.\. \} => \{ "
                     r"if last_active\.elapsed\(\) >= \*inactive_dur \{ \*count \+= 1; \} count >= max_count \} \} \}", wu):
        return "utils.rs: is_inactive is not `if last_active.elapsed() >= *inactive_dur { *count += 1; } count >= max_count`"
    if not re.search(r"pub\(crate\) fn mark_as_active\(&mut self\) \{ if let Self::Enabled \{ last_active, \.\. \} = self \{ \*last_active = std::time::Instant::now\(\); \} \}", wu):
        return "utils.rs: mark_as_active is not `*last_active = Instant::now()` only (the model never resets the count)"
    if not re.search(r"Self::Enabled \{ inactive_dur: _inactive_dur, last_active: std::time::Instant::now\(\), count: 0, max_count: _max_count \}", wu):
        return "utils.rs: InactivityCheck::new does not start with count 0 / max_count / inactive_dur as given"
    return None


def run(path=None):
    path = path or os.environ.get("VERIF_SHUTDOWN_SRC")
    src = open(path).read() if path else translate._read(REL)
    utils = open(os.path.join(os.path.dirname(path), "utils.rs")).read() if path else translate._read(UTILS_REL)
    variant, info = classify(src)
    if variant is None:
        return info
    err = check_ping(src, utils)
    if err:
        return err
    persistent, polled = recv_persistence(src)
    if persistent is None:
        return polled
    out = ["(* GENERATED by tools/translators/shutdown_order.py from /repo/%s -- do not edit *)" % REL,
           "From JV Require Import Model.ClientShutdown.",
           "",
           "(* order of send_task's epilogue as read from the source: %s *)" % info,
           "Definition gen_variant : variant := %s." % variant,
           "",
           "(* ping / inactivity wiring as the model transcribes it (checked, see check_ping): ping arm last in send_task's biased select,",
           "   mark_as_active on every received item, count += 1 when stale and never reset, dead when count >= max_count > 0 *)",
           "",
           "(* is the in-flight receiver.receive() future kept across the iterations of read_task's select loop (moved into an",
           "   unfold stream pinned before the loop, the arm polls .next() on it)?  the receive arm of the loop polls: %s *)" % polled,
           "Definition recv_future_persistent : bool := %s." % ("true" if persistent else "false"),
           ""]
    if not path:
        vlib.write_if_changed(os.path.join(translate.GEN, "ShutdownOrderGen.v"), "\n".join(out))
    else:
        print("\n".join(out))
    return None


if __name__ == "__main__":
    import sys
    r = run(sys.argv[1] if len(sys.argv) > 1 else None)
    if r:
        print("ERROR:", r)
        sys.exit(1)
