"""core/src/client/async_client/mod.rs (send_task, read_task, wait_for_shutdown)  ->  coq/Gen/ShutdownOrderGen.v

Reads the ORDER of the statements of send_task's epilogue and says which protocol variant of
Model/ClientShutdown.v the current source implements:
    (a) close_tx.send(res)            report the outcome
    (b) close_tx.closed().await       wait until the watcher has recorded it
    (c) from_frontend.close() | drop(from_frontend)    close / drop the front-end receiver
    (d) drop(manager)                 let go of the manager handle (before the transport is closed, or not at all)
    (e) sender.close().await          close the transport
  a < b < c(drop) , d < e     -> VNow        c before a -> VOldOrder
  a < b < c < e, queue and/or manager only dropped at function end -> VLateDrop
  b missing or not between a and c            -> VNoWait
and checks the other wiring the model transcribes: the select loops of both tasks look at close_tx.closed() first
(biased), read_task reports through close_tx.send(res), wait_for_shutdown writes the cause slot before its receiver
is dropped (it is dropped by returning).  A missing anchor is an error string, never a silent default.
The source file can be overridden with the environment variable VERIF_SHUTDOWN_SRC (or run(path=...)) for trying
the translator on a scratch copy."""
import os, re
import translate, vlib

REL = "core/src/client/async_client/mod.rs"


def _strip_comments(s):
    return re.sub(r"//[^\n]*", "", s)


def _after_loop(body, where):
    """(loop block, text after it) for the `let res = loop { ... };` of a task body"""
    m = re.search(r"let res = loop\s*\{", body)
    if not m:
        return None, None, "%s: `let res = loop {` not found" % where
    i = m.end() - 1
    depth, j = 0, i
    while j < len(body):
        if body[j] == "{":
            depth += 1
        elif body[j] == "}":
            depth -= 1
            if depth == 0:
                return body[i + 1:j], body[j + 1:], None
        j += 1
    return None, None, "%s: unbalanced loop block" % where


def _pos(text, pat):
    m = re.search(pat, text)
    return m.start() if m else None


def classify(src):
    """-> (variant, description) or (None, error string)"""
    send = translate._fn_body(src, r"async fn send_task<T, S>\(params: SendTaskParams<T, S>\)")
    if send is None:
        return None, "send_task not found"
    read = translate._fn_body(src, r"async fn read_task<R, S>\(params: ReadTaskParams<R, S>\)")
    if read is None:
        return None, "read_task not found"
    watch = translate._fn_body(src, r"async fn wait_for_shutdown\(")
    if watch is None:
        return None, "wait_for_shutdown not found"
    send, read, watch = _strip_comments(send), _strip_comments(read), _strip_comments(watch)

    # ---- the two select loops: biased, close_tx.closed() first, and it breaks with Ok(())
    for where, body in (("send_task", send), ("read_task", read)):
        loop, tail, err = _after_loop(body, where)
        if err:
            return None, err
        if not re.search(r"tokio::select!\s*\{\s*biased;\s*_ = close_tx\.closed\(\) => break Ok\(\(\)\),", re.sub(r"\s+", " ", loop)):
            return None, "%s: the select loop does not start with `biased; _ = close_tx.closed() => break Ok(())`" % where
    # ---- read_task: reports through close_tx.send(res), nothing else touches the channels afterwards
    _, rtail, _ = _after_loop(read, "read_task")
    if _pos(rtail, r"close_tx\s*\.send\(res\)\s*\.await") is None:
        return None, "read_task: `close_tx.send(res).await` after the loop not found"
    if re.search(r"to_send_task|from_frontend|closed\(\)", rtail):
        return None, "read_task: unexpected statement after the report"
    # ---- wait_for_shutdown: one recv, select against client_dropped, cause written, receiver dropped by returning
    w = re.sub(r"\s+", " ", watch)
    anchors = [("close_rx.recv()", r"let rx_item = close_rx\.recv\(\);"),
               ("select(rx_item, client_dropped)", r"if let Either::Left\(\(Some\(Err\(err\)\), _\)\) = future::select\(rx_item, client_dropped\)\.await \{"),
               ("cause slot written", r"\*err_to_front\.write\(\)\.expect\(NOT_POISONED\) = Some\(Arc::new\(err\)\);")]
    pos = 0
    for name, pat in anchors:
        m = re.compile(pat).search(w, pos)
        if not m:
            return None, "wait_for_shutdown: anchor `%s` not found (or out of order)" % name
        pos = m.end()
    wpos = re.search(anchors[2][1], w).start()
    early = re.search(r"drop\(\s*close_rx\s*\)|drop\(\s*rx_item\s*\)|close_rx\.close\(\)", w)
    if early and early.start() < wpos:
        return None, "wait_for_shutdown: the receiver is closed/dropped before the cause slot is written"
    if len(re.findall(r"\.await", w)) != 1:
        return None, "wait_for_shutdown: expected exactly one await (the select)"
    # ---- send_task epilogue order
    _, tail, _ = _after_loop(send, "send_task")
    a = _pos(tail, r"close_tx\s*\.send\(res\)\s*\.await")
    b = _pos(tail, r"close_tx\s*\.closed\(\)\s*\.await")
    c_close = _pos(tail, r"from_frontend\s*\.close\(\)")
    c_drop = _pos(tail, r"drop\(\s*from_frontend\s*\)")
    d = _pos(tail, r"drop\(\s*manager\s*\)")
    e = _pos(tail, r"sender\s*\.close\(\)\s*\.await")
    if a is None:
        return None, "send_task: `close_tx.send(res).await` (report) not found after the loop"
    if e is None:
        return None, "send_task: `sender.close().await` not found after the loop"
    cs = [x for x in (c_close, c_drop) if x is not None]
    if not cs:
        return None, "send_task: neither `from_frontend.close()` nor `drop(from_frontend)` found after the loop"
    c = min(cs)
    names = sorted([(a, "report"), (c, "drop(from_frontend)" if c == c_drop else "from_frontend.close()"), (e, "sender.close()")]
                   + ([(b, "closed().await")] if b is not None else []) + ([(d, "drop(manager)")] if d is not None else []))
    order = " < ".join(n for _, n in names)
    if c < a:
        return "VOldOrder", order
    if b is None or not (a < b < c):
        return "VNoWait", order
    if not c < e:
        return None, "send_task: unrecognised epilogue order: " + order
    queue_early = c_drop is not None and c_drop < e
    mgr_early = d is not None and d < e
    if queue_early and mgr_early:
        return "VNow", order
    return "VLateDrop", order + ("" if not (queue_early or mgr_early) else "   (only one of queue / manager handle is dropped before close(): treated as the late drop)")


def run(path=None):
    path = path or os.environ.get("VERIF_SHUTDOWN_SRC")
    src = open(path).read() if path else translate._read(REL)
    variant, info = classify(src)
    if variant is None:
        return info
    out = ["(* GENERATED by tools/translators/shutdown_order.py from /repo/%s -- do not edit *)" % REL,
           "From JV Require Import Model.ClientShutdown.",
           "",
           "(* order of send_task's epilogue as read from the source: %s *)" % info,
           "Definition gen_variant : variant := %s." % variant,
           ""]
    if not path:
        vlib.write_if_changed(os.path.join(translate.GEN, "ShutdownOrderGen.v"), "\n".join(out))
    else:
        print("\n".join(out))
    return None


if __name__ == "__main__":
    import sys
    r = run(sys.argv[1] if len(sys.argv) > 1 else None)
    if r:
        print("ERROR:", r)
        sys.exit(1)
