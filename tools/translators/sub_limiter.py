"""server/src/**/*.rs  ->  coq/Gen/SubLimiterGen.v        (C06: WHERE the subscription limiter is created)

The cap of C06 is per CONNECTION because the library creates one `BoundedSubscriptions` (a tokio Semaphore behind an
Arc; its Clone SHARES the semaphore) per WebSocket connection.  This translator reads where that happens:

  * every occurrence of `BoundedSubscriptions::new(` in the server crate's sources must be one of the known
    per-connection sites
        SiteTowerCall   server/src/server.rs, `impl Service<..> for TowerServiceNoHttp<..>`, fn call, inside the block of
                        `if self.inner.server_cfg.enable_ws && is_upgrade_request {`   (one WS upgrade = one connection;
                        both `Server::start` and `TowerServiceBuilder::build` end up here)
        SiteWsConnect   server/src/transport/ws.rs, `pub async fn connect` (the low-level API: one call per upgrade request)
    and its argument must be `<cfg>.max_subscriptions_per_connection`; an occurrence anywhere else (a builder, a struct
    shared by several connections, an accept loop) is a translation error naming the site;
  * every construction `RpcServiceCfg::CallsAndSubscriptions { bounded_subscriptions: <expr>, ..}` in the server crate
    must create its limiter on the spot (`<expr>` = `BoundedSubscriptions::new(..)`): a limiter handed in from
    somewhere else (`this.bounded_subscriptions.clone()`) is a translation error naming the expression;
  * both known sites must exist, exactly once each.

Emits  `sub_limiter_scope := PerConnection`  and the list of sites; Proofs/SubBookConnFacts.limiter_created_per_connection
(theorem C06_limiter_created_per_connection) is about those constants.  Textual (regex + brace matching over the
comment-stripped source).

The source root can be overridden for trying the translator on a scratch checkout: run(root=<checkout>) or VERIF_REPO;
with an override the result goes to `out` / VERIF_SUBLIMITER_OUT / stdout, never to /verif/coq/Gen."""
import os, re, sys
sys.path.insert(0, os.path.dirname(os.path.dirname(os.path.abspath(__file__))))
import translate, vlib

SRC_DIR = "server/src"
NEW_RE = r"BoundedSubscriptions\s*::\s*new\s*\("
CAP_ARG_RE = r"^[\w\.\s]*\bserver_cfg\s*\.\s*max_subscriptions_per_connection$"
UPGRADE_IF_RE = r"if\s+self\s*\.\s*inner\s*\.\s*server_cfg\s*\.\s*enable_ws\s*&&\s*is_upgrade_request\s*\{"


def _strip_comments(s):
    """comments -> spaces (newlines kept, so offsets still give line numbers)"""
    def blank(m):
        return re.sub(r"[^\n]", " ", m.group(0))
    s = re.sub(r"/\*.*?\*/", blank, s, flags=re.S)
    return re.sub(r"//[^\n]*", blank, s)


def _block_end(src, open_idx):
    depth = 0
    j = open_idx
    while j < len(src):
        if src[j] == "{":
            depth += 1
        elif src[j] == "}":
            depth -= 1
            if depth == 0:
                return j
        j += 1
    return len(src)


def _paren_arg(src, open_idx):
    depth = 0
    j = open_idx
    while j < len(src):
        if src[j] in "([{":
            depth += 1
        elif src[j] in ")]}":
            depth -= 1
            if depth == 0:
                return src[open_idx + 1:j]
        j += 1
    return src[open_idx + 1:]


def _items(src, header_re):
    """[(start, body_open, body_end, header text)] of every `fn` / `impl` item that has a body"""
    out = []
    for m in re.finditer(header_re, src):
        j = m.end()
        # the body opens at the first `{` that comes before any `;` (a declaration without body has none)
        while j < len(src) and src[j] not in "{;":
            j += 1
        if j >= len(src) or src[j] == ";":
            continue
        out.append((m.start(), j, _block_end(src, j), re.sub(r"\s+", " ", src[m.start():j]).strip()))
    return out


def _innermost(items, pos):
    best = None
    for it in items:
        if it[1] < pos < it[2] and (best is None or it[1] > best[1]):
            best = it
    return best


def _line(src, pos):
    return src.count("\n", 0, pos) + 1


def classify(files):
    """files: {relative path: text}.  -> ([(site, rel, line)], None) or (None, error string)"""
    sites = []
    for rel in sorted(files):
        src = _strip_comments(files[rel])
        fns = _items(src, r"\bfn\s+(\w+)")
        impls = _items(src, r"(?m)^[ \t]*(?:unsafe[ \t]+)?impl\b")      # items only, not `impl Trait` in argument position
        for m in re.finditer(NEW_RE, src):
            pos = m.start()
            where = "%s:%d" % (rel, _line(src, pos))
            fn = _innermost(fns, pos)
            imp = _innermost(impls, pos)
            fn_name = re.search(r"\bfn\s+(\w+)", fn[3]).group(1) if fn else None
            imp_head = imp[3] if imp else ""
            arg = re.sub(r"\s+", "", _paren_arg(src, m.end() - 1)).rstrip(",")
            site = None
            if rel == "server/src/server.rs" and fn_name == "call" and re.search(r"\bfor\s+TowerServiceNoHttp\s*<", imp_head):
                body = src[fn[1]:fn[2]]
                u = re.search(UPGRADE_IF_RE, body)
                if not u:
                    return None, "TowerServiceNoHttp::call: the WebSocket-upgrade branch `if self.inner.server_cfg.enable_ws && is_upgrade_request {` was not found"
                b0 = fn[1] + u.end() - 1
                if not (b0 < pos < _block_end(src, b0)):
                    return None, "%s: BoundedSubscriptions::new(..) in TowerServiceNoHttp::call but OUTSIDE its per-upgrade branch" % where
                site = "SiteTowerCall"
            elif rel == "server/src/transport/ws.rs" and fn_name == "connect" and imp is None:
                site = "SiteWsConnect"
            if site is None:
                return None, ("%s: the subscription limiter is created in `%s`%s -- not one of the per-connection sites "
                              "(TowerServiceNoHttp::call's upgrade branch, ws::connect): a limiter created here is shared by "
                              "whatever shares this value (its Clone shares the semaphore)"
                              % (where, fn_name or "<no fn>", (" of `%s`" % imp_head[:90]) if imp_head else ""))
            if not re.match(CAP_ARG_RE, arg):
                return None, "%s: the limiter's size is `%s`, expected <cfg>.max_subscriptions_per_connection" % (where, arg[:100])
            sites.append((site, rel, _line(src, pos), pos))
        # every construction of the per-connection service configuration creates its limiter on the spot
        for m in re.finditer(r"CallsAndSubscriptions\s*\{", src):
            before = src[max(0, m.start() - 60):m.start()]
            end = _block_end(src, m.end() - 1)
            after = src[end + 1:end + 12]
            if not re.search(r"RpcServiceCfg\s*::\s*$", before):
                continue        # the variant's declaration inside `enum RpcServiceCfg`
            if re.search(r"\blet\s+RpcServiceCfg\s*::\s*$", before) or re.match(r"\s*(=>|=[^=])", after):
                continue        # a pattern that takes the value apart
            blk = src[m.end():end]
            f = re.search(r"\bbounded_subscriptions\b\s*(:?)", blk)
            if not f:
                return None, "%s:%d: CallsAndSubscriptions built without a `bounded_subscriptions` field (struct update?)" % (rel, _line(src, m.start()))
            expr = blk[f.end():]
            if f.group(1) != ":" or not re.match(r"\s*" + NEW_RE, expr):
                e = re.sub(r"\s+", " ", expr.split(",")[0]).strip() if f.group(1) == ":" else "<a local variable named bounded_subscriptions>"
                return None, ("%s:%d: the connection's limiter is not created here but handed in: `bounded_subscriptions: %s` "
                              "(BoundedSubscriptions::clone shares the semaphore with every other holder)" % (rel, _line(src, m.start()), e[:100]))
    for want in ("SiteTowerCall", "SiteWsConnect"):
        n = sum(1 for s in sites if s[0] == want)
        if n != 1:
            return None, "expected exactly one limiter creation at %s, found %d" % (want, n)
    return [(s, rel, ln) for s, rel, ln, _ in sites], None


def _collect(root):
    files = {}
    base = os.path.join(root, SRC_DIR)
    for d, _, fs in os.walk(base):
        for f in fs:
            if f.endswith(".rs") and "tests" not in os.path.relpath(d, base).split(os.sep) and f != "tests.rs":
                p = os.path.join(d, f)
                files[os.path.relpath(p, root)] = open(p).read()
    return files


def run(root=None, out=None):
    root = root or os.environ.get("VERIF_REPO")
    out = out or os.environ.get("VERIF_SUBLIMITER_OUT")
    files = _collect(root or translate.REPO)
    if "server/src/server.rs" not in files or "server/src/transport/ws.rs" not in files:
        return "server/src/server.rs or server/src/transport/ws.rs not found"
    sites, err = classify(files)
    if sites is None:
        return err
    order = {"SiteTowerCall": 0, "SiteWsConnect": 1}
    sites.sort(key=lambda s: order[s[0]])
    text = "\n".join([
        "(* GENERATED by tools/translators/sub_limiter.py from %s/%s -- do not edit *)" % (root or "/repo", SRC_DIR),
        "From Coq Require Import List.",
        "Import ListNotations.",
        "",
        "(* PerConnection: the limiter (BoundedSubscriptions, a semaphore) is created inside the code that runs once per",
        "   WebSocket connection; Shared: it is created somewhere whose value several connections draw from *)",
        "Inductive limiter_scope := PerConnection | Shared.",
        "Inductive limiter_site := SiteTowerCall | SiteWsConnect.",
        "",
        "(* every `BoundedSubscriptions::new(` of the server crate (%d source files read):" % len(files)] +
        ["     %-14s %s:%d" % (s, rel, ln) for s, rel, ln in sites] +
        ["   each sized by <cfg>.max_subscriptions_per_connection; every RpcServiceCfg::CallsAndSubscriptions creates its limiter on the spot *)",
         "Definition sub_limiter_sites : list (limiter_site * limiter_scope) := [%s]." % "; ".join("(%s, PerConnection)" % s for s, _, _ in sites),
         "Definition sub_limiter_scope : limiter_scope := PerConnection.",
         ""])
    if out:
        vlib.write_if_changed(out, text)
    elif not root:
        vlib.write_if_changed(os.path.join(translate.GEN, "SubLimiterGen.v"), text)
    else:
        print(text)
    return None


if __name__ == "__main__":
    r = run(sys.argv[1] if len(sys.argv) > 1 else None, sys.argv[2] if len(sys.argv) > 2 else None)
    if r:
        print("ERROR:", r)
        sys.exit(1)
