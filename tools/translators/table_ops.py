"""core/src/server/{subscription,rpc_module}.rs (every use of the per-method `Subscribers` table)  ->  coq/Gen/TableOpsGen.v

The table is `pub type Subscribers = Arc<Mutex<FxHashMap<SubscriptionKey, ..>>>` (parking_lot::Mutex).  This translator
ENUMERATES every mention of `subscribers` / `Subscribers` outside comments and string literals in the two files and
classifies each one; a mention it cannot classify is a translation error naming file and line, and so is a mention in any
other source file of the workspace.  Classes:

  table ACCESS (three sites, each expected exactly once, emitted as a constructor of Model/TableOps.table_access):
    at_accept        PendingSubscriptionSink::accept, directly inside its `if success { .. }`:
                       `self.subscribers.lock().insert(self.uniq_sub.clone(), (self.inner.clone(), rx));`   TLockThen TInsert
    at_unsubscribe   the unsubscribe callback in verify_and_register_unsubscribe, at the top level of the closure:
                       `let result = subscribers.lock().remove(&key).is_some();` .. success(result)            TLockThen TRemoveIsSome
    at_guard_drop    `impl Drop for SubscriptionGuard`, whole body
                       `if !self.unsubscribe.is_unsubscribed() { self.subscribers.lock().remove(&self.uniq_sub); }`
                       (or the early-return spelling of the same condition)                                    TLockThen TRemove
    and for each of them the CONDITIONAL spellings, where the operation only happens when the mutex is free:
                       `if let Some(mut g) = <table>.try_lock() { g.<op>(..) }`  [`else { false }` at the unsubscribe site]
                       `<table>.try_lock().map(|mut g| g.<op>(..))` / `.map_or(false, |mut g| ..)` / `.is_some_and(|mut g| ..)`
                       (also try_lock_for / try_lock_until)                                                   TTryLockThen <op>
    Any other shape at a site (another guard condition, another receiver, an extra statement in the guard's drop, the
    access nested in a further block) is an error, never a silent default.
  no table access (listed in the generated file with their line numbers):
    type alias, `use` import, field declaration, struct-literal field that moves or clones the Arc
    (`subscribers: self.subscribers,` / `subscribers: subscribers.clone(),`), `let subscribers = subscribers.clone();`,
    `let subscribers = Subscribers::default();`, `let subscribers = self.verify_and_register_unsubscribe(..)?;`,
    `-> Result<Subscribers, RegisterMethodError>`, `Ok(subscribers)`.

Model/SubBook.v interprets the record (step_core_g: with TTryLockThen a contended event skips the operation);
Props/C06.v proves C06_table_ops_unconditional about the generated constant.

Override for trying the translator on a scratch checkout: run(repo=<root>, out=<file>) or VERIF_REPO / VERIF_TABLEOPS_OUT.
With an override the result is NEVER written to /verif/coq/Gen: it goes to `out`, else to stdout."""
import os, re, sys
sys.path.insert(0, os.path.dirname(os.path.dirname(os.path.abspath(__file__))))
import translate, vlib

SUB = "core/src/server/subscription.rs"
RPC = "core/src/server/rpc_module.rs"
# directories whose sources must not mention the table at all (everything that is compiled into the library crates)
OTHER_DIRS = ["core/src", "server/src", "types/src", "client", "proc-macros/src", "jsonrpsee/src"]

MENTION = re.compile(r"\b[Ss]ubscribers\b")
TRY = r"try_lock(?:_for|_until)?"


def blank(src):
    """Comments and string/char literals replaced by spaces; newlines (hence line numbers and offsets) preserved."""
    out = list(src)
    i, n = 0, len(src)

    def wipe(a, b):
        for j in range(a, b):
            if out[j] != "\n":
                out[j] = " "

    while i < n:
        c = src[i]
        if src.startswith("//", i):
            j = src.find("\n", i)
            j = n if j < 0 else j
            wipe(i, j)
            i = j
        elif src.startswith("/*", i):
            depth, j = 1, i + 2
            while j < n and depth:
                if src.startswith("/*", j):
                    depth += 1
                    j += 2
                elif src.startswith("*/", j):
                    depth -= 1
                    j += 2
                else:
                    j += 1
            wipe(i, j)
            i = j
        elif c == '"':
            j = i + 1
            while j < n and src[j] != '"':
                j += 2 if src[j] == "\\" else 1
            wipe(i + 1, min(j, n))
            i = j + 1
        elif c == "r" and re.match(r'r#*"', src[i:i + 8]) and (i == 0 or not (src[i - 1].isalnum() or src[i - 1] == "_")):
            m = re.match(r'r(#*)"', src[i:])
            end = src.find('"' + m.group(1), i + len(m.group(0)))
            end = n if end < 0 else end
            wipe(i + len(m.group(0)), end)
            i = end + 1 + len(m.group(1))
        elif c == "'":
            m = re.match(r"'(\\.[^']*|[^'\\])'", src[i:])
            if m:                      # a char literal (a lifetime has no closing quote right after)
                wipe(i + 1, i + len(m.group(0)) - 1)
                i += len(m.group(0))
            else:
                i += 1
        else:
            i += 1
    return "".join(out)


def line_of(src, off):
    return src.count("\n", 0, off) + 1


def block_after(src, open_idx):
    """(start, end) offsets of the text between the brace at open_idx and its match"""
    depth, j = 0, open_idx
    while j < len(src):
        if src[j] == "{":
            depth += 1
        elif src[j] == "}":
            depth -= 1
            if depth == 0:
                return open_idx + 1, j
        j += 1
    return None


def find_block(src, header_re, start=0, end=None):
    """first match of header_re (must end with `{`) in src[start:end] -> (header match start, body start, body end)"""
    m = re.compile(header_re).search(src, start, len(src) if end is None else end)
    if not m:
        return None
    b = block_after(src, m.end() - 1)
    if b is None:
        return None
    return m.start(), b[0], b[1]


def enclosing_headers(src, body_start, off):
    """texts that open the blocks (brace / paren / bracket depth) enclosing offset `off`, counted from body_start"""
    stack = []
    seg_start = body_start
    j = body_start
    while j < off:
        ch = src[j]
        if ch in "{([":
            stack.append((ch, " ".join(src[seg_start:j].split())))
            seg_start = j + 1
        elif ch in "})]":
            if stack:
                stack.pop()
            seg_start = j + 1
        elif ch == ";":
            seg_start = j + 1
        j += 1
    return stack


def line_text(src, off):
    ls = src.rfind("\n", 0, off) + 1
    le = src.find("\n", off)
    return " ".join(src[ls:le if le >= 0 else len(src)].split())


def is_pass_line(text):
    return next((c for c, rx in PASS_LINES if re.fullmatch(rx, text)), None)


def nows(s):
    return re.sub(r"\s+", "", s)


def access_shapes(recv, opcall, tail=""):
    """[(kind, regex over whitespace-free text)] for `<recv>` carrying out `<opcall>` (both already regex-escaped,
    whitespace-free).  `tail`: what a try_lock spelling needs so that the expression still has a value."""
    g = r"(?P<g>\w+)"
    shapes = [("TLockThen", recv + r"\.lock\(\)\." + opcall)]
    shapes.append(("TTryLockThen", r"ifletSome\(mut" + g + r"\)=" + recv + r"\." + TRY + r"\([^()]*(?:\([^()]*\))?[^()]*\)\{(?P=g)\." + opcall + r";?\}" + tail))
    shapes.append(("TTryLockThen", recv + r"\." + TRY + r"\([^()]*(?:\([^()]*\))?[^()]*\)\.(?:map|map_or|is_some_and|and_then)\((?:false,)?\|mut" + g + r"\|(?P=g)\." + opcall + r"\)(?:\.unwrap_or\(false\)|\.unwrap_or_default\(\))?"))
    return shapes


def classify_stmt(text, recv, opcall, prefix="", suffix=";", tail=""):
    """text: whitespace-free statement.  -> kind or None"""
    for kind, rx in access_shapes(recv, opcall, tail):
        if re.fullmatch(prefix + rx + (suffix if kind == "TLockThen" or suffix != ";" else ";?"), text):
            return kind
    return None


def statement_span(src, off, lo, hi):
    """the statement around offset `off`, taken at the nesting level of the innermost brace block of src[lo:hi] that
    contains `off`: from after the previous `;` / block end at that level to its terminating `;`, or to the closing brace of
    a block statement (`if let .. { .. }`) that is not continued by `else`, `;` or `.`"""
    stack, j = [], lo
    while j < off:
        ch = src[j]
        if ch in "([{":
            stack.append((ch, j))
        elif ch in ")]}" and stack:
            stack.pop()
        j += 1
    braces = [p for ch, p in stack if ch == "{"]
    blk = braces[-1] + 1 if braces else lo
    depth, start, j = 0, blk, blk
    while j < off:
        ch = src[j]
        if ch in "([{":
            depth += 1
        elif ch in ")]}":
            depth -= 1
            if depth == 0 and ch == "}":
                rest = src[j + 1:hi].lstrip()
                if not (rest.startswith("else") or rest.startswith(";") or rest.startswith(".") or rest.startswith("?")):
                    start = j + 1
        elif ch == ";" and depth == 0:
            start = j + 1
        j += 1
    # `off` may sit inside parentheses of its statement: depth is what is open at `off`
    while j < hi:
        ch = src[j]
        if ch in "([{":
            depth += 1
        elif ch in ")]}":
            if depth == 0:
                break
            depth -= 1
            if depth == 0 and ch == "}":
                rest = src[j + 1:hi].lstrip()
                if not (rest.startswith("else") or rest.startswith(";") or rest.startswith(".") or rest.startswith("?")):
                    j += 1
                    break
        elif ch == ";" and depth == 0:
            j += 1
            break
        j += 1
    return start, j


class Err(Exception):
    pass


def sites_subscription(raw):
    src = blank(raw)
    sites, spans = {}, []
    if not re.search(r"pub\s+type\s+Subscribers\s*=\s*Arc\s*<\s*Mutex\s*<\s*FxHashMap\s*<\s*SubscriptionKey\s*,", src):
        raise Err("%s: `pub type Subscribers = Arc<Mutex<FxHashMap<SubscriptionKey, ..>>>` not found" % SUB)
    if not re.search(r"use\s+parking_lot\s*::\s*Mutex\s*;", src):
        raise Err("%s: the table's Mutex is no longer parking_lot::Mutex (`lock()` would have another meaning)" % SUB)
    # ---- accept
    imp = find_block(src, r"impl\s+PendingSubscriptionSink\s*\{")
    if not imp:
        raise Err("%s: impl PendingSubscriptionSink not found" % SUB)
    acc = find_block(src, r"pub\s+async\s+fn\s+accept\s*\(\s*self\s*\)\s*->\s*Result\s*<\s*SubscriptionSink\s*,\s*PendingSubscriptionAcceptError\s*>\s*\{", imp[1], imp[2])
    if not acc:
        raise Err("%s: PendingSubscriptionSink::accept not found" % SUB)
    hits = [m.start() for m in MENTION.finditer(src, acc[1], acc[2])]
    access = [h for h in hits if not is_pass_line(line_text(src, h))]
    if not access:
        raise Err("%s:%d: accept(): no access to the subscriber table found" % (SUB, line_of(src, acc[0])))
    a, b = statement_span(src, access[0], acc[1], acc[2])
    stmt = nows(src[a:b])
    kind = classify_stmt(stmt, r"self\.subscribers", r"insert\(self\.uniq_sub\.clone\(\),\(self\.inner\.clone\(\),rx\)\)")
    if kind is None:
        raise Err("%s:%d: accept(): unknown shape of the table access `%s`" % (SUB, line_of(src, access[0]), " ".join(src[a:b].split())[:160]))
    for h in access:
        if not (a <= h < b):
            raise Err("%s:%d: accept(): a second use of the subscriber table" % (SUB, line_of(src, h)))
    encl = [t for ch, t in enclosing_headers(src, acc[1], a)]
    if encl != ["if success"]:
        raise Err("%s:%d: accept(): the table access is not directly inside `if success { .. }` (enclosing: %s)" % (SUB, line_of(src, access[0]), encl))
    sites["at_accept"] = (kind, "TInsert", SUB, line_of(src, access[0]), " ".join(src[a:b].split()))
    spans.append((a, b))
    # ---- guard drop
    dr = find_block(src, r"impl\s+Drop\s+for\s+SubscriptionGuard\s*\{")
    if not dr:
        raise Err("%s: `impl Drop for SubscriptionGuard` not found (the drop guard shared by all clones of a sink)" % SUB)
    fn = find_block(src, r"fn\s+drop\s*\(\s*&\s*mut\s+self\s*\)\s*\{", dr[1], dr[2])
    if not fn:
        raise Err("%s:%d: SubscriptionGuard::drop not found" % (SUB, line_of(src, dr[0])))
    body = nows(src[fn[1]:fn[2]])
    recv, op = r"self\.subscribers", r"remove\(&self\.uniq_sub\)"
    kind = None
    for k, rx in access_shapes(recv, op):
        inner = rx + (";" if k == "TLockThen" else ";?")
        for whole in (r"if!self\.unsubscribe\.is_unsubscribed\(\)\{" + inner + r"\}",
                      r"ifself\.unsubscribe\.is_unsubscribed\(\)\{return;?\}" + inner):
            if re.fullmatch(whole, body):
                kind = k
    first = next((m.start() for m in MENTION.finditer(src, fn[1], fn[2])), fn[0])
    if kind is None:
        raise Err("%s:%d: SubscriptionGuard::drop: unknown shape `%s`" % (SUB, line_of(src, first), " ".join(src[fn[1]:fn[2]].split())[:200]))
    sites["at_guard_drop"] = (kind, "TRemove", SUB, line_of(src, first), " ".join(src[fn[1]:fn[2]].split()))
    spans.append((fn[1], fn[2]))
    # the guard must be what the sink owns, shared by its clones
    if not re.search(r"_guard\s*:\s*Arc\s*<\s*SubscriptionGuard\s*>", src):
        raise Err("%s: SubscriptionSink no longer holds `_guard: Arc<SubscriptionGuard>`" % SUB)
    return src, sites, spans


def sites_rpc_module(raw):
    src = blank(raw)
    sites, spans = {}, []
    fn = find_block(src, r"fn\s+verify_and_register_unsubscribe\s*\([^)]*\)\s*->\s*Result\s*<\s*Subscribers\s*,\s*RegisterMethodError\s*>\s*\{")
    if not fn:
        raise Err("%s: fn verify_and_register_unsubscribe(..) -> Result<Subscribers, RegisterMethodError> not found" % RPC)
    clo = find_block(src, r"MethodCallback\s*::\s*Unsubscription\s*\(\s*Arc\s*::\s*new\s*\(\s*move\s*\|[^|]*\|\s*\{", fn[1], fn[2])
    if not clo:
        raise Err("%s:%d: the unsubscribe callback `MethodCallback::Unsubscription(Arc::new(move |..| { .. }))` not found" % (RPC, line_of(src, fn[0])))
    hits = [m.start() for m in MENTION.finditer(src, clo[1], clo[2])]
    if not hits:
        raise Err("%s:%d: the unsubscribe callback does not use the subscriber table" % (RPC, line_of(src, clo[0])))
    a, b = statement_span(src, hits[0], clo[1], clo[2])
    stmt = nows(src[a:b])
    kind = classify_stmt(stmt, r"subscribers", r"remove\(&key\)\.is_some\(\)", prefix=r"letresult=", tail=r"else\{false\}")
    if kind is None:
        raise Err("%s:%d: unsubscribe callback: unknown shape of the table access `%s`" % (RPC, line_of(src, hits[0]), " ".join(src[a:b].split())[:200]))
    for h in hits:
        if not (a <= h < b):
            raise Err("%s:%d: unsubscribe callback: a second use of the subscriber table" % (RPC, line_of(src, h)))
    encl = enclosing_headers(src, clo[1], a)
    if encl:
        raise Err("%s:%d: unsubscribe callback: the table access is nested in %s" % (RPC, line_of(src, hits[0]), [t for _, t in encl]))
    rest = nows(src[b:clo[2]])
    if not re.search(r"ResponsePayload::success\(result\)", rest):
        raise Err("%s:%d: unsubscribe callback: `result` of the table access is no longer what is answered" % (RPC, line_of(src, hits[0])))
    if not re.search(r"letkey=SubscriptionKey\{conn_id,sub_id:sub_id\.into_owned\(\)\};", nows(src[clo[1]:a])):
        raise Err("%s:%d: unsubscribe callback: the key is no longer (conn_id, sub_id)" % (RPC, line_of(src, hits[0])))
    sites["at_unsubscribe"] = (kind, "TRemoveIsSome", RPC, line_of(src, hits[0]), " ".join(src[a:b].split()))
    spans.append((a, b))
    return src, sites, spans


# lines that mention the table without touching it: (class, regex over the whitespace-normalised line)
PASS_LINES = [
    ("type alias", r"pub type Subscribers = Arc<Mutex<FxHashMap<SubscriptionKey, \(MethodSink, mpsc::Receiver<\(\)>\)>>>;"),
    ("field declaration", r"(pub\(crate\) )?subscribers: Subscribers,"),
    ("Arc moved into the guard", r"subscribers: self\.subscribers,"),
    ("Arc cloned into a pending sink", r"subscribers: subscribers\.clone\(\),"),
    ("Arc cloned for the unsubscribe callback", r"let subscribers = subscribers\.clone\(\);"),
    ("table created", r"let subscribers = Subscribers::default\(\);"),
    ("table handle returned by registration", r"let subscribers = self\.verify_and_register_unsubscribe\(subscribe_method_name, unsubscribe_method_name\)\?;"),
    ("return type", r"\) -> Result<Subscribers, RegisterMethodError> \{"),
    ("table handle returned", r"Ok\(subscribers\)"),
]


def other_mentions(rel, src, spans):
    """-> [(line, class, text)] for every mention outside the access spans; raises on an unclassified one"""
    out, seen = [], set()
    for m in MENTION.finditer(src):
        if any(a <= m.start() < b for a, b in spans):
            continue
        ln = line_of(src, m.start())
        if ln in seen:
            continue
        seen.add(ln)
        ls = src.rfind("\n", 0, m.start()) + 1
        le = src.find("\n", m.start())
        text = " ".join(src[ls:le if le >= 0 else len(src)].split())
        cls = next((c for c, rx in PASS_LINES if re.fullmatch(rx, text)), None)
        if cls is None:
            # inside a `use` item?
            st = max(src.rfind(";", 0, m.start()), 0)
            head = src[st + 1:m.start()] if st else src[:m.start()]
            if re.match(r"\s*(pub\s+)?use\s", head) and re.fullmatch(r"[\w:{},\s*]*", head.split("use", 1)[1]):
                cls = "use import"
        if cls is None:
            raise Err("%s:%d: unclassified use of the subscriber table: `%s`" % (rel, ln, text[:160]))
        out.append((ln, cls, text))
    return out


def scan_elsewhere(root):
    for d in OTHER_DIRS:
        top = os.path.join(root, d)
        for dp, dns, fns in os.walk(top):
            dns[:] = [x for x in dns if x not in ("target", "tests", "benches", "examples")]
            for fn in sorted(fns):
                if not fn.endswith(".rs"):
                    continue
                p = os.path.join(dp, fn)
                rel = os.path.relpath(p, root)
                if rel in (SUB, RPC):
                    continue
                src = blank(open(p).read())
                for m in re.finditer(r"\bSubscribers\b|\.\s*subscribers\b|\bsubscribers\s*\.\s*(?:lock|try_lock\w*)\b", src):
                    raise Err("%s:%d: the subscriber table is used in a file this translator does not read: `%s`"
                              % (rel, line_of(src, m.start()), " ".join(src[src.rfind(chr(10), 0, m.start()) + 1:src.find(chr(10), m.start())].split())[:160]))


def collect(root):
    """-> (sites dict, [(file, line, class, text)])"""
    sites, others = {}, []
    for rel, fn in ((SUB, sites_subscription), (RPC, sites_rpc_module)):
        raw = open(os.path.join(root, rel)).read()
        src, s, spans = fn(raw)
        sites.update(s)
        for ln, cls, text in other_mentions(rel, src, spans):
            others.append((rel, ln, cls, text))
    scan_elsewhere(root)
    for k in ("at_accept", "at_unsubscribe", "at_guard_drop"):
        if k not in sites:
            raise Err("site %s not found" % k)
    return sites, others


def render(root, sites, others):
    L = ["(* GENERATED by tools/translators/table_ops.py from %s/{%s,%s} -- do not edit *)" % (root, SUB, RPC),
         "From Coq Require Import List.",
         "From JV Require Import Model.TableOps.",
         "Import ListNotations.",
         "",
         "(* every site that touches the per-method subscriber table, as read from the source *)"]
    for k in ("at_accept", "at_unsubscribe", "at_guard_drop"):
        kind, op, rel, ln, text = sites[k]
        L.append("(* %s:%d   %s *)" % (rel, ln, text.replace("(*", "( *").replace("*)", "* )")))
        L.append("Definition site_%s : table_access := %s %s." % (k[3:], kind, op))
    L += ["",
          "Definition table_ops_gen : table_ops := mkTableOps site_accept site_unsubscribe site_guard_drop.",
          "",
          "(* mentions of the table that do not touch it (%d lines): *)" % len(others)]
    for rel, ln, cls, text in others:
        L.append("(*   %s:%d   %-42s %s *)" % (rel, ln, cls, text.replace("(*", "( *").replace("*)", "* )")[:110]))
    L += ["Definition table_other_mentions : nat := %d." % len(others), ""]
    return "\n".join(L)


def run(repo=None, out=None):
    override = repo or os.environ.get("VERIF_REPO")
    root = override or translate.REPO
    out = out or os.environ.get("VERIF_TABLEOPS_OUT")
    try:
        sites, others = collect(root)
    except Err as e:
        return str(e)
    text = render(root, sites, others)
    if out:
        vlib.write_if_changed(out, text)
    elif not override:
        vlib.write_if_changed(os.path.join(translate.GEN, "TableOpsGen.v"), text)
    else:
        print(text)
    return None


if __name__ == "__main__":
    r = run(sys.argv[1] if len(sys.argv) > 1 else None, sys.argv[2] if len(sys.argv) > 2 else None)
    if r:
        print("ERROR:", r)
        sys.exit(1)
