#!/usr/bin/env python3
"""Entry point of every MANIFEST command.
   vcheck.py <Cxx> [--tier quick|thorough]     run the check, write evidence/<Cxx>.json
   vcheck.py <Cxx> --replay <file>             re-run the stored case on model and implementation
   vcheck.py <Cxx> --pin                       (maintenance) pin the theorem statements of Props/<Cxx>.v
   vcheck.py --setup                           build everything from files on disk
"""
import argparse, json, os, sys
sys.path.insert(0, os.path.dirname(os.path.abspath(__file__)))
import vlib


def setup():
    import translate
    for name in translate.ALL:
        err = translate.run(name)
        if err:
            print("translator %s: %s" % (name, err))
    ok, log = vlib.coq_make([], timeout=5400, keep_going=True)
    print(log[-3000:])
    if not ok:
        print("setup: Coq build failed (checks will report it per property)")
    props = sorted(f[:-3] for f in os.listdir(os.path.join(vlib.ROOT, "tools", "props")) if f.startswith("c") and f.endswith(".py"))
    models, rel, dbg = set(), set(), set()
    for p in props:
        mod = vlib.load_prop(p)
        models.update(getattr(mod, "MODELS", []))
        rel.update(getattr(mod, "BINS", {}).get("release", []))
        dbg.update(getattr(mod, "BINS", {}).get("debug", []))
    for m in sorted(models):
        ok, log = vlib.model_build(m)
        print("model", m, "ok" if ok else "FAILED\n" + log[-1500:])
    if rel:
        ok, log = vlib.cargo_build(sorted(rel), "release")
        print("cargo release", "ok" if ok else "FAILED\n" + log[-3000:])
    if dbg:
        ok, log = vlib.cargo_build(sorted(dbg), "debug")
        print("cargo debug", "ok" if ok else "FAILED\n" + log[-3000:])
    return 0


def main():
    ap = argparse.ArgumentParser()
    ap.add_argument("prop", nargs="?")
    ap.add_argument("--tier", default=os.environ.get("VERIF_TIER", "quick"))
    ap.add_argument("--replay")
    ap.add_argument("--pin", action="store_true")
    ap.add_argument("--setup", action="store_true")
    a = ap.parse_args()
    if a.setup:
        return setup()
    prop = a.prop.upper()
    if a.pin:
        n = vlib.pin(prop, "Props/%s.v" % prop)
        print("pinned %d statements" % n)
        return 0
    seed = int(os.environ.get("VERIF_SEED", "1"))
    if a.replay:
        mod = vlib.load_prop(prop)
        payload = json.load(open(a.replay))
        return mod.replay(payload) if hasattr(mod, "replay") else (print(json.dumps(payload, indent=1)) or 0)
    tier = a.tier if a.tier in ("quick", "thorough") else "quick"
    return vlib.run_check(prop, tier, seed)


if __name__ == "__main__":
    sys.exit(main())
